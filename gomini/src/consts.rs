//! Constant values and exact constant arithmetic (Go untyped/typed constants).

use crate::ast::BinOp;
use crate::num::{BigInt, Rat, MAX_BITS};
use crate::types::{IntK, Ty, TypeId, TypeTable};
use std::cmp::Ordering;

#[derive(Clone, Debug, PartialEq)]
pub enum ConstVal {
    Bool(bool),
    Int(BigInt),
    Float(Rat),
    Str(Vec<u8>),
}

#[derive(Clone, Debug, PartialEq)]
pub enum ConstErr {
    /// value does not fit the type ("constant X overflows T")
    Overflow,
    /// non-integral value for an integer type ("truncated")
    Truncated,
    /// wrong kind of constant for the type
    Mismatch,
    DivZero,
    /// exceeds what this implementation evaluates exactly
    TooBig,
    /// operator not defined for this kind of constant
    BadOp,
    NegativeShift,
}

pub fn parse_int_lit(text: &str) -> Option<BigInt> {
    if let Some(r) = text.strip_prefix("0x") {
        BigInt::parse_radix(r, 16)
    } else if let Some(r) = text.strip_prefix("0b") {
        BigInt::parse_radix(r, 2)
    } else if let Some(r) = text.strip_prefix("0o") {
        BigInt::parse_radix(r, 8)
    } else {
        BigInt::parse_radix(text, 10)
    }
}

/// Decimal float literal (as normalised by the lexer) to an exact rational.
pub fn parse_float_lit(text: &str) -> Result<Rat, ConstErr> {
    let (mant, exp) = match text.find('e') {
        Some(i) => (&text[..i], &text[i + 1..]),
        None => (text, "0"),
    };
    let exp: i64 = match exp.parse::<i64>() {
        Ok(e) => e,
        Err(_) => return Err(ConstErr::TooBig),
    };
    let (ip, fp) = match mant.find('.') {
        Some(i) => (&mant[..i], &mant[i + 1..]),
        None => (mant, ""),
    };
    let digits: String = format!("{}{}", ip, fp);
    let m = BigInt::parse_radix(&digits, 10).ok_or(ConstErr::Mismatch)?;
    let e10 = exp - fp.len() as i64;
    if e10.abs() > 1200 {
        if m.is_zero() {
            return Ok(Rat::from_int(BigInt::zero()));
        }
        return Err(ConstErr::TooBig);
    }
    let r = if e10 >= 0 { Rat::from_int(m.mul(&BigInt::pow10(e10 as u32))) } else { Rat::new(m, BigInt::pow10((-e10) as u32)) };
    if r.bits() > MAX_BITS {
        return Err(ConstErr::TooBig);
    }
    Ok(r)
}

impl ConstVal {
    pub fn to_rat(&self) -> Option<Rat> {
        match self {
            ConstVal::Int(i) => Some(Rat::from_int(i.clone())),
            ConstVal::Float(r) => Some(r.clone()),
            _ => None,
        }
    }
    /// Text used in diagnostics.
    pub fn display(&self) -> String {
        match self {
            ConstVal::Bool(b) => b.to_string(),
            ConstVal::Int(i) => i.to_decimal(),
            ConstVal::Float(r) => {
                if r.is_int() {
                    r.num.to_decimal()
                } else {
                    format!("{}", r.to_f64())
                }
            }
            ConstVal::Str(s) => format!("{:?}", String::from_utf8_lossy(s)),
        }
    }
}

fn int_in_range(i: &BigInt, k: IntK) -> bool {
    match i.to_i128() {
        None => false,
        Some(v) => {
            let (lo, hi) = k.min_max();
            v >= lo && v <= hi
        }
    }
}

/// Checks that constant `v` is representable in type `t` (which may be an
/// untyped kind) and returns the value as it is held in that type (floats
/// are rounded to the precision of the type).
pub fn representable(tt: &TypeTable, v: &ConstVal, t: TypeId) -> Result<ConstVal, ConstErr> {
    match tt.under(t) {
        Ty::Int(k) => {
            let i = to_int(v)?;
            if int_in_range(&i, *k) {
                Ok(ConstVal::Int(i))
            } else {
                Err(ConstErr::Overflow)
            }
        }
        Ty::UInt | Ty::URune => Ok(ConstVal::Int(to_int(v)?)),
        Ty::F32 | Ty::F64 => {
            let r = v.to_rat().ok_or(ConstErr::Mismatch)?;
            if r.bits() > MAX_BITS {
                return Err(ConstErr::TooBig);
            }
            let f = if matches!(tt.under(t), Ty::F32) { r.to_f32() } else { r.to_f64() };
            if f.is_infinite() {
                return Err(ConstErr::Overflow);
            }
            Ok(ConstVal::Float(Rat::from_f64(f).unwrap()))
        }
        Ty::UFloat => Ok(ConstVal::Float(v.to_rat().ok_or(ConstErr::Mismatch)?)),
        Ty::Str | Ty::UStr => match v {
            ConstVal::Str(_) => Ok(v.clone()),
            _ => Err(ConstErr::Mismatch),
        },
        Ty::Bool | Ty::UBool => match v {
            ConstVal::Bool(_) => Ok(v.clone()),
            _ => Err(ConstErr::Mismatch),
        },
        _ => Err(ConstErr::Mismatch),
    }
}

/// Integer value of a numeric constant; floats must be integral.
pub fn to_int(v: &ConstVal) -> Result<BigInt, ConstErr> {
    match v {
        ConstVal::Int(i) => Ok(i.clone()),
        ConstVal::Float(r) => {
            if r.is_int() {
                Ok(r.num.clone())
            } else {
                Err(ConstErr::Truncated)
            }
        }
        _ => Err(ConstErr::Mismatch),
    }
}

pub fn compare(op: BinOp, a: &ConstVal, b: &ConstVal) -> Option<bool> {
    let ord = match (a, b) {
        (ConstVal::Bool(x), ConstVal::Bool(y)) => {
            return match op {
                BinOp::Eq => Some(x == y),
                BinOp::Ne => Some(x != y),
                _ => None,
            }
        }
        (ConstVal::Str(x), ConstVal::Str(y)) => x.cmp(y),
        (ConstVal::Int(x), ConstVal::Int(y)) => x.cmp(y),
        _ => {
            let x = a.to_rat()?;
            let y = b.to_rat()?;
            x.cmp(&y)
        }
    };
    Some(match op {
        BinOp::Eq => ord == Ordering::Equal,
        BinOp::Ne => ord != Ordering::Equal,
        BinOp::Lt => ord == Ordering::Less,
        BinOp::Le => ord != Ordering::Greater,
        BinOp::Gt => ord == Ordering::Greater,
        BinOp::Ge => ord != Ordering::Less,
        _ => return None,
    })
}

/// Two's complement bitwise operation on arbitrary precision integers,
/// evaluated on 128-bit values (TooBig beyond).
fn bitop(op: BinOp, a: &BigInt, b: &BigInt) -> Result<BigInt, ConstErr> {
    let x = a.to_i128().ok_or(ConstErr::TooBig)?;
    let y = b.to_i128().ok_or(ConstErr::TooBig)?;
    if x.unsigned_abs() >> 120 != 0 || y.unsigned_abs() >> 120 != 0 {
        return Err(ConstErr::TooBig);
    }
    let r = match op {
        BinOp::And => x & y,
        BinOp::Or => x | y,
        BinOp::Xor => x ^ y,
        BinOp::AndNot => x & !y,
        _ => return Err(ConstErr::BadOp),
    };
    Ok(from_i128(r))
}

pub fn from_i128(v: i128) -> BigInt {
    if v < 0 {
        BigInt::from_u128(v.unsigned_abs()).neg()
    } else {
        BigInt::from_u128(v as u128)
    }
}

/// Binary operation on two constants of the same kind. `int_div` selects
/// truncated integer division (both operands integer typed/untyped ints).
pub fn binary(op: BinOp, a: &ConstVal, b: &ConstVal, int_div: bool) -> Result<ConstVal, ConstErr> {
    match (a, b) {
        (ConstVal::Bool(x), ConstVal::Bool(y)) => match op {
            BinOp::LAnd => Ok(ConstVal::Bool(*x && *y)),
            BinOp::LOr => Ok(ConstVal::Bool(*x || *y)),
            _ => Err(ConstErr::BadOp),
        },
        (ConstVal::Str(x), ConstVal::Str(y)) => match op {
            BinOp::Add => {
                let mut v = x.clone();
                v.extend_from_slice(y);
                Ok(ConstVal::Str(v))
            }
            _ => Err(ConstErr::BadOp),
        },
        (ConstVal::Int(x), ConstVal::Int(y)) if int_div || !matches!(op, BinOp::Div) => {
            let r = match op {
                BinOp::Add => x.add(y),
                BinOp::Sub => x.sub(y),
                BinOp::Mul => x.mul(y),
                BinOp::Div => {
                    if y.is_zero() {
                        return Err(ConstErr::DivZero);
                    }
                    x.divrem_trunc(y).0
                }
                BinOp::Rem => {
                    if y.is_zero() {
                        return Err(ConstErr::DivZero);
                    }
                    x.divrem_trunc(y).1
                }
                BinOp::And | BinOp::Or | BinOp::Xor | BinOp::AndNot => bitop(op, x, y)?,
                _ => return Err(ConstErr::BadOp),
            };
            if r.bit_len() > MAX_BITS {
                return Err(ConstErr::TooBig);
            }
            Ok(ConstVal::Int(r))
        }
        _ => {
            let x = a.to_rat().ok_or(ConstErr::BadOp)?;
            let y = b.to_rat().ok_or(ConstErr::BadOp)?;
            let r = match op {
                BinOp::Add => x.add(&y),
                BinOp::Sub => x.sub(&y),
                BinOp::Mul => x.mul(&y),
                BinOp::Div => {
                    if y.is_zero() {
                        return Err(ConstErr::DivZero);
                    }
                    x.div(&y)
                }
                _ => return Err(ConstErr::BadOp),
            };
            if r.bits() > MAX_BITS {
                return Err(ConstErr::TooBig);
            }
            Ok(ConstVal::Float(r))
        }
    }
}

pub fn shift(left: bool, a: &BigInt, count: &BigInt) -> Result<BigInt, ConstErr> {
    if count.is_neg() {
        return Err(ConstErr::NegativeShift);
    }
    let n = count.to_u64().ok_or(ConstErr::TooBig)?;
    if left {
        if a.bit_len() + n > MAX_BITS {
            return Err(ConstErr::TooBig);
        }
        Ok(a.shl(n))
    } else {
        Ok(a.shr(n.min(MAX_BITS + 64)))
    }
}
