//! Lexer for Go source text: the complete Go token set, literal decoding and
//! the automatic semicolon insertion rule of the Go specification.

#[derive(Clone, Debug, PartialEq)]
pub enum Tok {
    Ident(String),
    /// integer literal text without underscores, with its base prefix kept
    Int(String),
    /// decimal floating point literal text without underscores
    Float(String),
    /// imaginary literal (always Unsupported further on)
    Imag(String),
    Char(u32),
    Str(Vec<u8>),
    Kw(Kw),
    Op(Op),
    /// `auto` is true when inserted by the semicolon rule
    Semi { auto: bool },
    Eof,
}

#[derive(Clone, Copy, Debug, PartialEq, Eq)]
pub enum Kw {
    Break,
    Case,
    Chan,
    Const,
    Continue,
    Default,
    Defer,
    Else,
    Fallthrough,
    For,
    Func,
    Go,
    Goto,
    If,
    Import,
    Interface,
    Map,
    Package,
    Range,
    Return,
    Select,
    Struct,
    Switch,
    Type,
    Var,
}

impl Kw {
    pub fn from_str(s: &str) -> Option<Kw> {
        Some(match s {
            "break" => Kw::Break,
            "case" => Kw::Case,
            "chan" => Kw::Chan,
            "const" => Kw::Const,
            "continue" => Kw::Continue,
            "default" => Kw::Default,
            "defer" => Kw::Defer,
            "else" => Kw::Else,
            "fallthrough" => Kw::Fallthrough,
            "for" => Kw::For,
            "func" => Kw::Func,
            "go" => Kw::Go,
            "goto" => Kw::Goto,
            "if" => Kw::If,
            "import" => Kw::Import,
            "interface" => Kw::Interface,
            "map" => Kw::Map,
            "package" => Kw::Package,
            "range" => Kw::Range,
            "return" => Kw::Return,
            "select" => Kw::Select,
            "struct" => Kw::Struct,
            "switch" => Kw::Switch,
            "type" => Kw::Type,
            "var" => Kw::Var,
            _ => return None,
        })
    }
    pub fn as_str(self) -> &'static str {
        match self {
            Kw::Break => "break",
            Kw::Case => "case",
            Kw::Chan => "chan",
            Kw::Const => "const",
            Kw::Continue => "continue",
            Kw::Default => "default",
            Kw::Defer => "defer",
            Kw::Else => "else",
            Kw::Fallthrough => "fallthrough",
            Kw::For => "for",
            Kw::Func => "func",
            Kw::Go => "go",
            Kw::Goto => "goto",
            Kw::If => "if",
            Kw::Import => "import",
            Kw::Interface => "interface",
            Kw::Map => "map",
            Kw::Package => "package",
            Kw::Range => "range",
            Kw::Return => "return",
            Kw::Select => "select",
            Kw::Struct => "struct",
            Kw::Switch => "switch",
            Kw::Type => "type",
            Kw::Var => "var",
        }
    }
}

#[derive(Clone, Copy, Debug, PartialEq, Eq)]
pub enum Op {
    Add,
    Sub,
    Mul,
    Quo,
    Rem,
    And,
    Or,
    Xor,
    Shl,
    Shr,
    AndNot,
    AddAssign,
    SubAssign,
    MulAssign,
    QuoAssign,
    RemAssign,
    AndAssign,
    OrAssign,
    XorAssign,
    ShlAssign,
    ShrAssign,
    AndNotAssign,
    LAnd,
    LOr,
    Arrow,
    Inc,
    Dec,
    Eql,
    Lss,
    Gtr,
    Assign,
    Not,
    Tilde,
    Neq,
    Leq,
    Geq,
    Define,
    Ellipsis,
    LParen,
    LBrack,
    LBrace,
    Comma,
    Period,
    RParen,
    RBrack,
    RBrace,
    Colon,
}

impl Op {
    pub fn as_str(self) -> &'static str {
        match self {
            Op::Add => "+",
            Op::Sub => "-",
            Op::Mul => "*",
            Op::Quo => "/",
            Op::Rem => "%",
            Op::And => "&",
            Op::Or => "|",
            Op::Xor => "^",
            Op::Shl => "<<",
            Op::Shr => ">>",
            Op::AndNot => "&^",
            Op::AddAssign => "+=",
            Op::SubAssign => "-=",
            Op::MulAssign => "*=",
            Op::QuoAssign => "/=",
            Op::RemAssign => "%=",
            Op::AndAssign => "&=",
            Op::OrAssign => "|=",
            Op::XorAssign => "^=",
            Op::ShlAssign => "<<=",
            Op::ShrAssign => ">>=",
            Op::AndNotAssign => "&^=",
            Op::LAnd => "&&",
            Op::LOr => "||",
            Op::Arrow => "<-",
            Op::Inc => "++",
            Op::Dec => "--",
            Op::Eql => "==",
            Op::Lss => "<",
            Op::Gtr => ">",
            Op::Assign => "=",
            Op::Not => "!",
            Op::Tilde => "~",
            Op::Neq => "!=",
            Op::Leq => "<=",
            Op::Geq => ">=",
            Op::Define => ":=",
            Op::Ellipsis => "...",
            Op::LParen => "(",
            Op::LBrack => "[",
            Op::LBrace => "{",
            Op::Comma => ",",
            Op::Period => ".",
            Op::RParen => ")",
            Op::RBrack => "]",
            Op::RBrace => "}",
            Op::Colon => ":",
        }
    }
}

#[derive(Clone, Debug)]
pub struct Token {
    pub tok: Tok,
    pub line: u32,
    pub col: u32,
}

#[derive(Clone, Debug)]
pub enum LexError {
    Syntax { line: u32, col: u32, msg: String },
    Unsupported { line: u32, what: String },
}

struct Lexer<'a> {
    src: &'a [u8],
    text: &'a str,
    pos: usize,
    line: u32,
    col: u32,
    toks: Vec<Token>,
}

fn is_letter(c: u8) -> bool {
    c.is_ascii_alphabetic() || c == b'_'
}

/// Maximum number of tokens accepted (guards memory on hostile input).
pub const MAX_TOKENS: usize = 2_000_000;

pub fn lex(text: &str) -> Result<Vec<Token>, LexError> {
    let mut lx = Lexer { src: text.as_bytes(), text, pos: 0, line: 1, col: 1, toks: Vec::new() };
    // byte order mark at the very beginning is ignored
    if lx.src.starts_with(&[0xEF, 0xBB, 0xBF]) {
        lx.pos = 3;
    }
    lx.run()?;
    Ok(lx.toks)
}

impl<'a> Lexer<'a> {
    fn peek(&self) -> Option<u8> {
        self.src.get(self.pos).copied()
    }
    fn peek_at(&self, off: usize) -> Option<u8> {
        self.src.get(self.pos + off).copied()
    }
    fn bump(&mut self) -> Option<u8> {
        let c = self.src.get(self.pos).copied()?;
        self.pos += 1;
        if c == b'\n' {
            self.line += 1;
            self.col = 1;
        } else if c & 0xC0 != 0x80 {
            self.col += 1;
        }
        Some(c)
    }
    fn err<T>(&self, line: u32, col: u32, msg: impl Into<String>) -> Result<T, LexError> {
        Err(LexError::Syntax { line, col, msg: msg.into() })
    }
    fn needs_semi(&self) -> bool {
        match self.toks.last() {
            None => false,
            Some(t) => match &t.tok {
                Tok::Ident(_) | Tok::Int(_) | Tok::Float(_) | Tok::Imag(_) | Tok::Char(_) | Tok::Str(_) => true,
                Tok::Kw(k) => matches!(k, Kw::Break | Kw::Continue | Kw::Fallthrough | Kw::Return),
                Tok::Op(o) => matches!(o, Op::Inc | Op::Dec | Op::RParen | Op::RBrack | Op::RBrace),
                _ => false,
            },
        }
    }
    fn push(&mut self, tok: Tok, line: u32, col: u32) -> Result<(), LexError> {
        if self.toks.len() >= MAX_TOKENS {
            return Err(LexError::Unsupported { line, what: "input too large".into() });
        }
        self.toks.push(Token { tok, line, col });
        Ok(())
    }
    fn newline_semi(&mut self, line: u32, col: u32) -> Result<(), LexError> {
        if self.needs_semi() {
            self.push(Tok::Semi { auto: true }, line, col)?;
        }
        Ok(())
    }

    fn run(&mut self) -> Result<(), LexError> {
        loop {
            let (line, col) = (self.line, self.col);
            let c = match self.peek() {
                None => {
                    self.newline_semi(line, col)?;
                    self.push(Tok::Eof, line, col)?;
                    return Ok(());
                }
                Some(c) => c,
            };
            match c {
                b'\n' => {
                    self.newline_semi(line, col)?;
                    self.bump();
                }
                b' ' | b'\t' | b'\r' => {
                    self.bump();
                }
                b'/' if self.peek_at(1) == Some(b'/') => {
                    // line comment: acts like a newline
                    while let Some(c) = self.peek() {
                        if c == b'\n' {
                            break;
                        }
                        self.bump();
                    }
                }
                b'/' if self.peek_at(1) == Some(b'*') => {
                    self.bump();
                    self.bump();
                    let mut had_newline = false;
                    let mut closed = false;
                    while let Some(c) = self.bump() {
                        if c == b'\n' {
                            had_newline = true;
                        }
                        if c == b'*' && self.peek() == Some(b'/') {
                            self.bump();
                            closed = true;
                            break;
                        }
                    }
                    if !closed {
                        return self.err(line, col, "comment not terminated");
                    }
                    if had_newline {
                        self.newline_semi(line, col)?;
                    }
                }
                c if is_letter(c) => {
                    let start = self.pos;
                    while let Some(c) = self.peek() {
                        if is_letter(c) || c.is_ascii_digit() {
                            self.bump();
                        } else {
                            break;
                        }
                    }
                    if let Some(c) = self.peek() {
                        if c >= 0x80 {
                            return Err(LexError::Unsupported { line, what: "non-ASCII identifier".into() });
                        }
                    }
                    let s = &self.text[start..self.pos];
                    let tok = match Kw::from_str(s) {
                        Some(k) => Tok::Kw(k),
                        None => Tok::Ident(s.to_string()),
                    };
                    self.push(tok, line, col)?;
                }
                c if c.is_ascii_digit() => self.number(line, col)?,
                b'.' if self.peek_at(1).map_or(false, |d| d.is_ascii_digit()) => self.number(line, col)?,
                b'"' => self.string(line, col)?,
                b'`' => self.raw_string(line, col)?,
                b'\'' => self.rune(line, col)?,
                c if c >= 0x80 => {
                    // Non-ASCII outside literals/comments: either a Unicode
                    // letter starting an identifier (valid Go that we do not
                    // support) or an illegal character; we do not decide.
                    let ch = self.text[self.pos..].chars().next().unwrap_or('\u{FFFD}');
                    if ch == '\u{FEFF}' {
                        return self.err(line, col, "illegal byte order mark");
                    }
                    return Err(LexError::Unsupported { line, what: format!("non-ASCII character {:?} outside literal", ch) });
                }
                _ => self.operator(line, col)?,
            }
        }
    }

    fn operator(&mut self, line: u32, col: u32) -> Result<(), LexError> {
        let c = self.bump().unwrap();
        let n1 = self.peek();
        let n2 = self.peek_at(1);
        let take = |lx: &mut Lexer, n: usize| {
            for _ in 0..n {
                lx.bump();
            }
        };
        let op = match c {
            b'+' => match n1 {
                Some(b'+') => {
                    take(self, 1);
                    Op::Inc
                }
                Some(b'=') => {
                    take(self, 1);
                    Op::AddAssign
                }
                _ => Op::Add,
            },
            b'-' => match n1 {
                Some(b'-') => {
                    take(self, 1);
                    Op::Dec
                }
                Some(b'=') => {
                    take(self, 1);
                    Op::SubAssign
                }
                _ => Op::Sub,
            },
            b'*' => match n1 {
                Some(b'=') => {
                    take(self, 1);
                    Op::MulAssign
                }
                _ => Op::Mul,
            },
            b'/' => match n1 {
                Some(b'=') => {
                    take(self, 1);
                    Op::QuoAssign
                }
                _ => Op::Quo,
            },
            b'%' => match n1 {
                Some(b'=') => {
                    take(self, 1);
                    Op::RemAssign
                }
                _ => Op::Rem,
            },
            b'&' => match (n1, n2) {
                (Some(b'&'), _) => {
                    take(self, 1);
                    Op::LAnd
                }
                (Some(b'^'), Some(b'=')) => {
                    take(self, 2);
                    Op::AndNotAssign
                }
                (Some(b'^'), _) => {
                    take(self, 1);
                    Op::AndNot
                }
                (Some(b'='), _) => {
                    take(self, 1);
                    Op::AndAssign
                }
                _ => Op::And,
            },
            b'|' => match n1 {
                Some(b'|') => {
                    take(self, 1);
                    Op::LOr
                }
                Some(b'=') => {
                    take(self, 1);
                    Op::OrAssign
                }
                _ => Op::Or,
            },
            b'^' => match n1 {
                Some(b'=') => {
                    take(self, 1);
                    Op::XorAssign
                }
                _ => Op::Xor,
            },
            b'<' => match (n1, n2) {
                (Some(b'<'), Some(b'=')) => {
                    take(self, 2);
                    Op::ShlAssign
                }
                (Some(b'<'), _) => {
                    take(self, 1);
                    Op::Shl
                }
                (Some(b'='), _) => {
                    take(self, 1);
                    Op::Leq
                }
                (Some(b'-'), _) => {
                    take(self, 1);
                    Op::Arrow
                }
                _ => Op::Lss,
            },
            b'>' => match (n1, n2) {
                (Some(b'>'), Some(b'=')) => {
                    take(self, 2);
                    Op::ShrAssign
                }
                (Some(b'>'), _) => {
                    take(self, 1);
                    Op::Shr
                }
                (Some(b'='), _) => {
                    take(self, 1);
                    Op::Geq
                }
                _ => Op::Gtr,
            },
            b'=' => match n1 {
                Some(b'=') => {
                    take(self, 1);
                    Op::Eql
                }
                _ => Op::Assign,
            },
            b'!' => match n1 {
                Some(b'=') => {
                    take(self, 1);
                    Op::Neq
                }
                _ => Op::Not,
            },
            b'~' => Op::Tilde,
            b':' => match n1 {
                Some(b'=') => {
                    take(self, 1);
                    Op::Define
                }
                _ => Op::Colon,
            },
            b'.' => match (n1, n2) {
                (Some(b'.'), Some(b'.')) => {
                    take(self, 2);
                    Op::Ellipsis
                }
                _ => Op::Period,
            },
            b'(' => Op::LParen,
            b')' => Op::RParen,
            b'[' => Op::LBrack,
            b']' => Op::RBrack,
            b'{' => Op::LBrace,
            b'}' => Op::RBrace,
            b',' => Op::Comma,
            b';' => {
                return self.push(Tok::Semi { auto: false }, line, col);
            }
            other => {
                return self.err(line, col, format!("invalid character U+{:04X}", other));
            }
        };
        self.push(Tok::Op(op), line, col)
    }

    /// Scans digits (with underscores). Hex digits are consumed for radix 16,
    /// decimal digits otherwise (so that an invalid digit such as the 2 in
    /// 0b12 can be diagnosed). Returns (saw invalid digit, underscore misuse).
    fn digits(&mut self, radix: u32, out: &mut String, leading_us_ok: bool) -> (bool, bool) {
        let mut invalid = false;
        let mut bad_us = false;
        let mut prev_digit = false;
        let mut first = true;
        let mut pending_us = false;
        while let Some(c) = self.peek() {
            if c == b'_' {
                if !(prev_digit || (first && leading_us_ok)) {
                    bad_us = true;
                }
                prev_digit = false;
                pending_us = true;
                first = false;
                self.bump();
                continue;
            }
            let ok = if radix == 16 { c.is_ascii_hexdigit() } else { c.is_ascii_digit() };
            if !ok {
                break;
            }
            match (c as char).to_digit(16) {
                Some(d) if d < radix => {}
                _ => invalid = true,
            }
            out.push(c as char);
            prev_digit = true;
            pending_us = false;
            first = false;
            self.bump();
        }
        if pending_us {
            bad_us = true;
        }
        (invalid, bad_us)
    }

    fn number(&mut self, line: u32, col: u32) -> Result<(), LexError> {
        let mut text = String::new();
        let mut is_float = false;
        let mut bad_us = false;
        let mut invalid_digit = false;
        let radix: u32;
        let mut legacy_octal = false;
        if self.peek() == Some(b'0') && matches!(self.peek_at(1), Some(b'x' | b'X' | b'b' | b'B' | b'o' | b'O')) {
            self.bump();
            let p = self.bump().unwrap().to_ascii_lowercase();
            radix = match p {
                b'x' => 16,
                b'b' => 2,
                _ => 8,
            };
            text.push('0');
            text.push(p as char);
            let before = text.len();
            let (inv, us) = self.digits(radix, &mut text, true);
            invalid_digit |= inv;
            bad_us |= us;
            if radix == 16 && matches!(self.peek(), Some(b'.' | b'p' | b'P')) {
                return Err(LexError::Unsupported { line, what: "hexadecimal floating-point literal".into() });
            }
            if text.len() == before {
                return self.err(line, col, format!("{} literal has no digits", match radix {
                    16 => "hexadecimal",
                    2 => "binary",
                    _ => "octal",
                }));
            }
        } else {
            if self.peek() != Some(b'.') {
                let (_, us) = self.digits(10, &mut text, false);
                bad_us |= us;
                if text.len() > 1 && text.starts_with('0') {
                    legacy_octal = true;
                }
            }
            if self.peek() == Some(b'.') {
                is_float = true;
                self.bump();
                if text.is_empty() {
                    text.push('0');
                }
                text.push('.');
                let before = text.len();
                let (_, us) = self.digits(10, &mut text, false);
                bad_us |= us;
                if text.len() == before {
                    text.push('0');
                }
            }
            if matches!(self.peek(), Some(b'e' | b'E')) {
                is_float = true;
                self.bump();
                text.push('e');
                if let Some(s @ (b'+' | b'-')) = self.peek() {
                    self.bump();
                    text.push(s as char);
                }
                let before = text.len();
                let (_, us) = self.digits(10, &mut text, false);
                bad_us |= us;
                if text.len() == before {
                    return self.err(line, col, "exponent has no digits");
                }
            }
        }
        let imag = self.peek() == Some(b'i');
        if imag {
            self.bump();
        }
        if bad_us {
            return self.err(line, col, "'_' must separate successive digits");
        }
        if invalid_digit {
            return self.err(line, col, "invalid digit in literal");
        }
        if text.len() > 1200 {
            return Err(LexError::Unsupported { line, what: "very long numeric literal".into() });
        }
        if imag {
            return self.push(Tok::Imag(text), line, col);
        }
        if is_float {
            return self.push(Tok::Float(text), line, col);
        }
        if legacy_octal {
            if text.bytes().any(|b| b == b'8' || b == b'9') {
                return self.err(line, col, "invalid digit in octal literal");
            }
            // normalise legacy octal 0777 to 0o777
            let t = format!("0o{}", &text[1..]);
            return self.push(Tok::Int(t), line, col);
        }
        self.push(Tok::Int(text), line, col)
    }

    /// Parses an escape after the backslash has been consumed. `quote` is the
    /// delimiter of the literal. Returns the decoded value: Ok(Byte(b)) for
    /// \x and octal escapes, Ok(Rune(r)) for the rest.
    fn escape(&mut self, quote: u8, line: u32, col: u32) -> Result<Esc, LexError> {
        let c = match self.bump() {
            None => return self.err(line, col, "escape sequence not terminated"),
            Some(c) => c,
        };
        let simple = |r: u32| Ok(Esc::Rune(r));
        match c {
            b'a' => simple(7),
            b'b' => simple(8),
            b'f' => simple(12),
            b'n' => simple(10),
            b'r' => simple(13),
            b't' => simple(9),
            b'v' => simple(11),
            b'\\' => simple(b'\\' as u32),
            b'\'' if quote == b'\'' => simple(b'\'' as u32),
            b'"' if quote == b'"' => simple(b'"' as u32),
            b'0'..=b'7' => {
                let mut v = (c - b'0') as u32;
                for _ in 0..2 {
                    match self.peek() {
                        Some(d @ b'0'..=b'7') => {
                            v = v * 8 + (d - b'0') as u32;
                            self.bump();
                        }
                        _ => return self.err(line, col, "invalid character in octal escape"),
                    }
                }
                if v > 255 {
                    return self.err(line, col, "octal escape value > 255");
                }
                Ok(Esc::Byte(v as u8))
            }
            b'x' | b'u' | b'U' => {
                let n = match c {
                    b'x' => 2,
                    b'u' => 4,
                    _ => 8,
                };
                let mut v: u32 = 0;
                for _ in 0..n {
                    match self.peek().and_then(|d| (d as char).to_digit(16)) {
                        Some(d) => {
                            v = v.wrapping_mul(16).wrapping_add(d);
                            self.bump();
                        }
                        None => return self.err(line, col, "invalid character in hexadecimal escape"),
                    }
                }
                if c == b'x' {
                    Ok(Esc::Byte(v as u8))
                } else {
                    if v > 0x10FFFF || (0xD800..0xE000).contains(&v) {
                        return self.err(line, col, "escape is invalid Unicode code point");
                    }
                    Ok(Esc::Rune(v))
                }
            }
            _ => self.err(line, col, "unknown escape sequence"),
        }
    }

    fn string(&mut self, line: u32, col: u32) -> Result<(), LexError> {
        self.bump();
        let mut out: Vec<u8> = Vec::new();
        loop {
            let c = match self.peek() {
                None | Some(b'\n') => return self.err(line, col, "string literal not terminated"),
                Some(c) => c,
            };
            if c == b'"' {
                self.bump();
                break;
            }
            if c == b'\\' {
                self.bump();
                match self.escape(b'"', line, col)? {
                    Esc::Byte(b) => out.push(b),
                    Esc::Rune(r) => push_rune(&mut out, r),
                }
                continue;
            }
            if c == 0 {
                return self.err(line, col, "invalid NUL character");
            }
            out.push(c);
            self.bump();
        }
        self.push(Tok::Str(out), line, col)
    }

    fn raw_string(&mut self, line: u32, col: u32) -> Result<(), LexError> {
        self.bump();
        let mut out: Vec<u8> = Vec::new();
        loop {
            match self.bump() {
                None => return self.err(line, col, "raw string literal not terminated"),
                Some(b'`') => break,
                Some(b'\r') => {}
                Some(0) => return self.err(line, col, "invalid NUL character"),
                Some(c) => out.push(c),
            }
        }
        self.push(Tok::Str(out), line, col)
    }

    fn rune(&mut self, line: u32, col: u32) -> Result<(), LexError> {
        self.bump();
        let c = match self.peek() {
            None | Some(b'\n') => return self.err(line, col, "rune literal not terminated"),
            Some(c) => c,
        };
        let value: u32;
        if c == b'\'' {
            return self.err(line, col, "empty rune literal or unescaped ' in rune literal");
        } else if c == b'\\' {
            self.bump();
            value = match self.escape(b'\'', line, col)? {
                Esc::Byte(b) => b as u32,
                Esc::Rune(r) => r,
            };
        } else {
            let ch = self.text[self.pos..].chars().next().unwrap_or('\u{FFFD}');
            for _ in 0..ch.len_utf8() {
                self.bump();
            }
            value = ch as u32;
        }
        if self.peek() != Some(b'\'') {
            // more than one character, or unterminated
            return self.err(line, col, "more than one character in rune literal");
        }
        self.bump();
        self.push(Tok::Char(value), line, col)
    }
}

enum Esc {
    Byte(u8),
    Rune(u32),
}

pub fn push_rune(out: &mut Vec<u8>, r: u32) {
    let ch = char::from_u32(r).unwrap_or('\u{FFFD}');
    let mut buf = [0u8; 4];
    out.extend_from_slice(ch.encode_utf8(&mut buf).as_bytes());
}

#[cfg(test)]
mod tests {
    use super::*;

    fn kinds(src: &str) -> Vec<Tok> {
        lex(src).unwrap().into_iter().map(|t| t.tok).collect()
    }

    #[test]
    fn semicolons() {
        let t = kinds("x := 1\nreturn\n}\nfoo(\n)\n");
        assert_eq!(t.iter().filter(|t| matches!(t, Tok::Semi { .. })).count(), 4);
        let t = kinds("a /* x\n y */ b");
        assert!(matches!(t[1], Tok::Semi { auto: true }));
        let t = kinds("a // c");
        assert!(matches!(t[1], Tok::Semi { auto: true }));
    }

    #[test]
    fn strings() {
        let t = kinds(r#""a\tb\x41\101é\U0001F600\\\"""#);
        assert_eq!(t[0], Tok::Str("a\tbAA\u{e9}\u{1F600}\\\"".as_bytes().to_vec()));
        assert_eq!(kinds(r#""\xff""#)[0], Tok::Str(vec![0xff]));
        assert!(lex(r#""\'""#).is_err());
        assert!(lex(r#""\q""#).is_err());
        assert!(lex("\"abc").is_err());
        assert!(lex(r#""\400""#).is_err());
        assert_eq!(kinds("`a\\n\r\nb`")[0], Tok::Str(b"a\\n\nb".to_vec()));
        assert_eq!(kinds(r"'\''")[0], Tok::Char(39));
        assert_eq!(kinds(r"'\xff'")[0], Tok::Char(255));
        assert_eq!(kinds("'é'")[0], Tok::Char(0xe9));
        assert!(lex("''").is_err());
        assert!(lex("'ab'").is_err());
        assert!(lex(r"'\ud800'").is_err());
    }

    #[test]
    fn numbers() {
        assert_eq!(kinds("0x_FF")[0], Tok::Int("0xFF".into()));
        assert_eq!(kinds("1_000")[0], Tok::Int("1000".into()));
        assert_eq!(kinds("0777")[0], Tok::Int("0o777".into()));
        assert_eq!(kinds("0")[0], Tok::Int("0".into()));
        assert_eq!(kinds("1e3")[0], Tok::Float("1e3".into()));
        assert_eq!(kinds(".5")[0], Tok::Float("0.5".into()));
        assert_eq!(kinds("5.")[0], Tok::Float("5.0".into()));
        assert_eq!(kinds("08.5")[0], Tok::Float("08.5".into()));
        assert!(lex("089").is_err());
        assert!(lex("1__0").is_err());
        assert!(lex("1_").is_err());
        assert!(lex("0x").is_err());
        assert!(lex("0b12").is_err());
        assert!(lex("1e").is_err());
        assert!(matches!(kinds("2i")[0], Tok::Imag(_)));
    }

    #[test]
    fn operators() {
        let t = kinds("a &^= b <<= c ... <- :=");
        assert_eq!(t[1], Tok::Op(Op::AndNotAssign));
        assert_eq!(t[3], Tok::Op(Op::ShlAssign));
        assert_eq!(t[5], Tok::Op(Op::Ellipsis));
        assert_eq!(t[6], Tok::Op(Op::Arrow));
        assert_eq!(t[7], Tok::Op(Op::Define));
        assert!(lex("a # b").is_err());
        assert!(lex("a ? b").is_err());
    }
}
