//! Go's slice growth policy (runtime.growslice, Go 1.18 and later) on amd64.

/// runtime/sizeclasses.go (unchanged since Go 1.16)
const SIZE_CLASSES: [u64; 68] = [
    0, 8, 16, 24, 32, 48, 64, 80, 96, 112, 128, 144, 160, 176, 192, 208, 224, 240, 256, 288, 320, 352, 384, 416, 448, 480, 512, 576, 640, 704, 768,
    896, 1024, 1152, 1280, 1408, 1536, 1792, 2048, 2304, 2688, 3072, 3200, 3456, 4096, 4864, 5376, 6144, 6528, 6784, 6912, 8192, 9472, 9728, 10240,
    10880, 12288, 13568, 14336, 16384, 18432, 19072, 20480, 21760, 24576, 27264, 28672, 32768,
];

const MAX_SMALL: u64 = 32768;
const PAGE: u64 = 8192;
const MALLOC_HEADER: u64 = 8;
const MIN_SIZE_FOR_HEADER: u64 = 512;

fn class_round(size: u64) -> u64 {
    for c in SIZE_CLASSES.iter() {
        if *c >= size {
            return *c;
        }
    }
    size
}

fn page_round(size: u64) -> u64 {
    size.checked_add(PAGE - 1).map(|s| s & !(PAGE - 1)).unwrap_or(size)
}

/// roundupsize of Go <= 1.21
fn roundupsize_old(size: u64) -> u64 {
    if size < MAX_SMALL {
        class_round(size)
    } else {
        page_round(size)
    }
}

/// roundupsize of Go >= 1.22 (malloc headers for pointerful objects > 512 B)
fn roundupsize_new(size: u64, noscan: bool) -> u64 {
    if size <= MAX_SMALL - MALLOC_HEADER {
        let mut req = size;
        if !noscan && req > MIN_SIZE_FOR_HEADER {
            req += MALLOC_HEADER;
        }
        return class_round(req) - (req - size);
    }
    page_round(size)
}

fn next_slice_cap(new_len: u64, old_cap: u64) -> u64 {
    let mut newcap = old_cap;
    let doublecap = newcap + newcap;
    if new_len > doublecap {
        return new_len;
    }
    const THRESHOLD: u64 = 256;
    if old_cap < THRESHOLD {
        return doublecap;
    }
    loop {
        newcap += (newcap + 3 * THRESHOLD) >> 2;
        if newcap >= new_len {
            break;
        }
    }
    newcap
}

fn cap_from_mem(newcap: u64, elem_size: u64, round: impl Fn(u64) -> u64) -> u64 {
    // all four cases of growslice compute floor(roundupsize(newcap*size)/size)
    let mem = newcap.saturating_mul(elem_size);
    round(mem) / elem_size
}

/// New capacity after growing a slice with `old_cap` to hold `new_len`
/// elements of `elem_size` bytes. Returns (capacity for Go >= 1.22,
/// capacity for Go 1.18..1.21).
pub fn grow_cap(new_len: u64, old_cap: u64, elem_size: u64, has_pointers: bool) -> (u64, u64) {
    if elem_size == 0 {
        return (new_len, new_len);
    }
    let newcap = next_slice_cap(new_len, old_cap);
    let noscan = !has_pointers;
    let a = cap_from_mem(newcap, elem_size, |m| roundupsize_new(m, noscan));
    let b = cap_from_mem(newcap, elem_size, roundupsize_old);
    (a, b)
}

#[cfg(test)]
mod tests {
    use super::*;

    #[test]
    fn small_appends() {
        // append one element to a nil slice
        assert_eq!(grow_cap(1, 0, 4, false), (2, 2)); // int32
        assert_eq!(grow_cap(1, 0, 8, false), (1, 1)); // int64
        assert_eq!(grow_cap(1, 0, 1, false), (8, 8)); // byte
        assert_eq!(grow_cap(1, 0, 16, true), (1, 1)); // string
        assert_eq!(grow_cap(1, 0, 2, false), (4, 4)); // int16
        assert_eq!(grow_cap(1, 0, 24, true), (1, 1)); // slice header
        // classic int sequence 1,2,4,8,...
        assert_eq!(grow_cap(2, 1, 8, false), (2, 2));
        assert_eq!(grow_cap(3, 2, 8, false), (4, 4));
        assert_eq!(grow_cap(5, 4, 8, false), (8, 8));
        // int32: 2 -> 4 -> 8
        assert_eq!(grow_cap(3, 2, 4, false), (4, 4));
        assert_eq!(grow_cap(5, 4, 4, false), (8, 8));
        // odd sizes: 12-byte struct, cap 0 -> 1 elem needs 12 -> class 16 -> cap 1
        assert_eq!(grow_cap(1, 0, 12, false), (1, 1));
        // 5 ints appended at once to nil: newcap=5 -> 40 bytes -> class 48 -> cap 6
        assert_eq!(grow_cap(5, 0, 8, false), (6, 6));
        // growth beyond 256: 256 -> 256 + (256+768)/4 = 512
        assert_eq!(grow_cap(257, 256, 8, false), (512, 512));
        // 512 -> 512 + (512+768)/4 = 832 -> 6656 bytes -> class 6784 -> 848
        assert_eq!(grow_cap(513, 512, 8, false), (848, 848));
        // zero size
        assert_eq!(grow_cap(3, 2, 0, false), (3, 3));
    }

    #[test]
    fn pointerful_above_512() {
        // 64 strings (1024 B) -> 128 strings = 2048 B; with header 2056 -> class 2304 -> 2296/16 = 143
        let (new, old) = grow_cap(65, 64, 16, true);
        assert_eq!(old, 128);
        assert_eq!(new, 143);
    }
}
