//! Developer aid: `goml-verif debug-gen <seed> <count> [class-substring]` prints one generated program per reject / inconclusive class.
use crate::capi;
use crate::gl::ast::{PrintOpts, print_program};
use crate::gl::pgen::{Features, generate};
use crate::util::Rng;
use std::collections::BTreeMap;

pub fn main(args: &[String]) -> i32 {
    let seed: u64 = args.get(0).and_then(|s| s.parse().ok()).unwrap_or(1);
    let n: u64 = args.get(1).and_then(|s| s.parse().ok()).unwrap_or(100);
    let filter = args.get(2).cloned();
    crate::runner::install_panic_hook();
    let mut classes: BTreeMap<String, (u64, String, String)> = BTreeMap::new();
    let mut ok = 0;
    for i in 0..n {
        let mut rng = Rng::keyed(seed, "dbg", 0, i);
        let mut f = Features::base();
        f.n_fns = std::env::var("DBG_NFNS").ok().and_then(|v| v.parse().ok()).unwrap_or(1);
        f.max_depth = std::env::var("DBG_DEPTH").ok().and_then(|v| v.parse().ok()).unwrap_or(2);
        f.ticks = false;
        f.ident_mode = std::env::var("DBG_IDENT").ok().and_then(|v| v.parse().ok()).unwrap_or(0);
        let (prog, _tags) = generate(&mut rng, f);
        let src = print_program(&prog, PrintOpts::default());
        let exp = crate::gl::eval::run_program(&prog, 400_000);
        if let Some(crate::gl::eval::Stop::Unmodelled(m)) = &exp.stop {
            let e = classes.entry(format!("refsem: {}", crate::diff::msg_class(m))).or_insert((0, src.clone(), m.clone()));
            e.0 += 1;
            continue;
        }
        match crate::runner::guard(|| capi::compile_single(&src).map(|c| capi::go_text(&c))) {
            Ok(Ok(_)) => ok += 1,
            Ok(Err(e)) => {
                let msgs = capi::err_messages(&e);
                let k = format!("{}: {}", capi::err_stage(&e), crate::diff::msg_class(&msgs[0]));
                let en = classes.entry(k).or_insert((0, src.clone(), msgs.join("\n")));
                en.0 += 1;
                if src.len() < en.1.len() {
                    en.1 = src.clone();
                    en.2 = msgs.join("\n");
                }
            }
            Err(p) => {
                let en = classes.entry(format!("panic: {}", p.site)).or_insert((0, src.clone(), p.message.clone()));
                en.0 += 1;
                if src.len() < en.1.len() {
                    en.1 = src.clone();
                    en.2 = p.message.clone();
                }
            }
        }
    }
    println!("accepted {} of {}", ok, n);
    for (k, (c, src, msg)) in &classes {
        println!("=== x{} {}", c, k);
        if filter.as_ref().map(|f| k.contains(f.as_str())).unwrap_or(false) {
            println!("--- messages:\n{}\n--- source:\n{}", msg, src);
        }
    }
    0
}
