//! Values and bytecode of the interpreter.

use crate::ast::BinOp;
use crate::types::{IntK, TypeId};
use crate::vet::PkgFn;
use std::rc::Rc;

pub const NIL_IDX: u32 = u32::MAX;

#[derive(Clone, Debug)]
pub enum Value {
    /// uninitialised slot (never observable by a checked program)
    Undef,
    Bool(bool),
    /// all integer kinds: signed kinds sign extended, unsigned zero extended
    Int(i64),
    F32(f32),
    F64(f64),
    Str(Rc<[u8]>),
    /// struct and array values (value semantics by copy-on-write)
    Tuple(Rc<Vec<Value>>),
    /// arr == NIL_IDX => nil slice
    Slice { arr: u32, off: u32, len: u32, cap: u32 },
    /// heap cell index, NIL_IDX => nil
    Ptr(u32),
    /// function index, NIL_IDX => nil
    Func(u32),
    /// dynamic type and heap cell holding the (immutable) payload
    Iface(TypeId, u32),
    NilIface,
}

#[derive(Clone, Copy, Debug, PartialEq)]
pub enum NumK {
    Int(IntK),
    F32,
    F64,
    Str,
}

#[derive(Clone, Copy, Debug, PartialEq)]
pub enum CmpK {
    Signed,
    Unsigned,
    F32,
    F64,
    Str,
    Bool,
    /// general equality (structs, arrays, pointers, interfaces ...): Eq/Ne only
    Deep,
}

#[derive(Clone, Copy, Debug, PartialEq)]
pub enum Root {
    Local(u32),
    Global(u32),
    /// pointer popped from the stack
    Ptr,
    /// slice and index popped from the stack
    SliceElem,
}

#[derive(Clone, Copy, Debug, PartialEq)]
pub enum Step {
    Field(u32),
    /// array index taken from the stack; `unsigned` tells how to read it
    ArrIndex { len: u32, unsigned: bool },
}

#[derive(Clone, Debug)]
pub struct StorePath {
    pub root: Root,
    /// for Root::SliceElem: the index is of an unsigned kind
    pub root_index_unsigned: bool,
    pub steps: Vec<Step>,
    pub line: u32,
}

/// Element layout information needed by append.
#[derive(Clone, Copy, Debug)]
pub struct ElemInfo {
    pub size: u64,
    pub has_pointers: bool,
    /// constant pool index of the element zero value
    pub zero: u32,
}

#[derive(Clone, Debug)]
pub enum Ins {
    /// statement boundary: counts a step and records the line
    Step(u32),
    /// records the line only (used inside expressions before calls)
    Line(u32),
    Const(u32),
    LoadLocal(u32),
    StoreLocal(u32),
    LoadGlobal(u32),
    StoreGlobal(u32),
    Pop,
    Field(u32),
    FieldPtr(u32),
    Deref,
    IndexArray { unsigned: bool },
    IndexSlice { unsigned: bool },
    IndexStr { unsigned: bool },
    MakeTuple(u32),
    /// pops n values, pads with the zero constant up to total
    MakeArray { n: u32, total: u32, zero: u32 },
    /// slice literal: pops n values
    MakeSliceLit { n: u32 },
    /// make([]T, len[, cap]); pops cap (if has_cap) and len
    MakeSlice { has_cap: bool, zero: u32, len_unsigned: bool, cap_unsigned: bool },
    /// pops a value, allocates a heap cell, pushes the pointer
    NewCell,
    Neg(NumK),
    Not,
    BitNot(IntK),
    Bin(BinOp, NumK),
    Cmp(BinOp, CmpK),
    Shift { left: bool, kind: IntK, count_signed: bool },
    Conv { from: NumK, to: NumK },
    /// string(integer)
    IntToStr { unsigned: bool },
    /// []rune(s) / []int32(s): the code points of the string (invalid UTF-8 bytes give U+FFFD)
    StrToRunes,
    ToIface(TypeId),
    /// x.(T)
    Assert { target: TypeId, target_iface: bool, src: TypeId },
    /// pops an interface, pushes bool: dynamic type is T (NIL_IDX: is nil)
    TypeTest { target: TypeId, target_iface: bool },
    /// pops an interface, pushes its payload
    Unwrap,
    Jump(u32),
    JumpIfFalse(u32),
    JumpIfTrue(u32),
    /// backward jump of a loop: yield point
    LoopBack(u32),
    Call { func: u32, nargs: u32 },
    CallValue { nargs: u32 },
    CallIface { name: u32, nargs: u32 },
    Len(u8),
    Cap,
    Append { n: u32, elem: ElemInfo },
    Panic,
    /// builtin print/println to stderr; kinds of the n operands are in the table
    Print { n: u32, newline: bool, kinds: u32 },
    Fmt { f: PkgFn, nargs: u32 },
    Return(bool),
    Go { func: u32, nargs: u32 },
    GoValue { nargs: u32 },
    Store(u32),
    Unsupported(u32),
}

#[derive(Clone, Copy, Debug, PartialEq)]
pub enum RefKind {
    None,
    New,
    Get,
    Set,
}

#[derive(Clone, Debug)]
pub struct FuncCode {
    pub name: String,
    pub qual_name: String,
    pub code: Vec<Ins>,
    pub nparams: u32,
    pub nlocals: u32,
    pub has_result: bool,
    pub ref_kind: RefKind,
    pub line: u32,
}

#[derive(Clone, Debug)]
pub struct Program {
    pub funcs: Vec<FuncCode>,
    pub consts: Vec<Value>,
    pub paths: Vec<StorePath>,
    pub strings: Vec<String>,
    /// kinds for builtin print operands
    pub print_kinds: Vec<Vec<NumKOrBool>>,
    pub globals: Vec<Value>,
    pub main: u32,
    pub inits: Vec<u32>,
}

#[derive(Clone, Copy, Debug, PartialEq)]
pub enum NumKOrBool {
    Num(NumK),
    Bool,
}
