//! Expression checking: identifiers, literals, unary and binary operators,
//! untyped constant conversion, assignability.

use super::*;
use crate::num::{BigInt, Rat};

impl<'a> Checker<'a> {
    pub(crate) fn record(&mut self, op: &Operand) {
        if (op.id as usize) < self.info.expr_ty.len() {
            self.info.expr_ty[op.id as usize] = op.ty;
        }
        if op.mode == Mode::Const {
            if let Some(v) = &op.val {
                self.info.consts.insert(op.id, v.clone());
            }
        } else {
            self.info.consts.remove(&op.id);
        }
    }

    pub(crate) fn tstr(&self, t: TypeId) -> String {
        self.info.types.type_string(t)
    }

    pub(crate) fn describe(&self, op: &Operand) -> String {
        match op.mode {
            Mode::Const => format!("constant {} of type {}", op.val.as_ref().map(|v| v.display()).unwrap_or_default(), self.tstr(op.ty)),
            Mode::Nil => "untyped nil".to_string(),
            Mode::Var => format!("variable of type {}", self.tstr(op.ty)),
            _ => format!("value of type {}", self.tstr(op.ty)),
        }
    }

    /// Checks an expression; the result may be a type, builtin, package...
    pub(crate) fn check_expr(&mut self, e: &Expr) -> Operand {
        let mut op = self.check_expr_inner(e);
        op.id = e.id;
        op.line = e.line;
        if op.is_value() && op.ty == T_INVALID {
            op.mode = Mode::Invalid;
        }
        if op.is_value() || op.mode == Mode::NoValue || op.mode == Mode::Multi {
            self.record(&op);
        }
        if op.mode == Mode::Type {
            self.info.type_exprs.insert(e.id, op.ty);
        }
        op
    }

    /// Checks an expression that must denote a single value.
    pub(crate) fn check_value(&mut self, e: &Expr) -> Operand {
        let op = self.check_expr(e);
        self.single_value(op, e)
    }

    pub(crate) fn single_value(&mut self, op: Operand, e: &Expr) -> Operand {
        match op.mode {
            Mode::Invalid | Mode::Const | Mode::Var | Mode::Value | Mode::Nil => op,
            Mode::NoValue => {
                self.err("type-mismatch", e.line, "expression (no value) used as value");
                Operand::invalid(e.id, e.line)
            }
            Mode::Type => {
                self.err("not-an-expr", e.line, format!("{} (type) is not an expression", self.tstr(op.ty)));
                Operand::invalid(e.id, e.line)
            }
            Mode::Builtin(_) => {
                self.err("not-an-expr", e.line, "builtin function must be called");
                Operand::invalid(e.id, e.line)
            }
            Mode::Pkg => {
                self.err("not-an-expr", e.line, "use of package without selector");
                Operand::invalid(e.id, e.line)
            }
            Mode::PkgFn(_) => {
                self.unsup(e.line, "package function used as a value");
                Operand::invalid(e.id, e.line)
            }
            Mode::Multi => {
                self.unsup(e.line, "multi-value expression in single-value context");
                Operand::invalid(e.id, e.line)
            }
        }
    }

    fn check_expr_inner(&mut self, e: &Expr) -> Operand {
        let inv = Operand::invalid(e.id, e.line);
        match &e.kind {
            ExprKind::Ident(name) => self.check_ident(e, name, true),
            ExprKind::IntLit(text) => match parse_int_lit(text) {
                Some(v) => Operand { mode: Mode::Const, ty: T_UINT_C, val: Some(ConstVal::Int(v)), id: e.id, line: e.line },
                None => {
                    self.err("syntax", e.line, format!("invalid integer literal {}", text));
                    inv
                }
            },
            ExprKind::FloatLit(text) => match parse_float_lit(text) {
                Ok(r) => Operand { mode: Mode::Const, ty: T_UFLOAT, val: Some(ConstVal::Float(r)), id: e.id, line: e.line },
                Err(_) => {
                    self.unsup(e.line, format!("floating-point literal {} too large for exact evaluation", text));
                    inv
                }
            },
            ExprKind::RuneLit(r) => Operand { mode: Mode::Const, ty: T_URUNE, val: Some(ConstVal::Int(BigInt::from_u64(*r as u64))), id: e.id, line: e.line },
            ExprKind::StrLit(s) => Operand { mode: Mode::Const, ty: T_USTR, val: Some(ConstVal::Str(s.clone())), id: e.id, line: e.line },
            ExprKind::Paren(x) => self.check_expr(x),
            ExprKind::Unary { op, x } => self.check_unary(e, *op, x),
            ExprKind::Star(x) => {
                let xo = self.check_expr(x);
                match xo.mode {
                    Mode::Invalid => inv,
                    Mode::Type => {
                        let t = self.info.types.mk(Ty::Pointer(xo.ty));
                        Operand { mode: Mode::Type, ty: t, val: None, id: e.id, line: e.line }
                    }
                    Mode::Nil => {
                        self.err("invalid-op", e.line, "invalid operation: cannot indirect nil");
                        inv
                    }
                    _ => {
                        let xo = self.single_value(xo, x);
                        if xo.is_invalid() {
                            return inv;
                        }
                        match self.info.types.under(xo.ty).clone() {
                            Ty::Pointer(elem) => Operand { mode: Mode::Var, ty: elem, val: None, id: e.id, line: e.line },
                            _ => {
                                self.err("invalid-op", e.line, format!("invalid operation: cannot indirect {}", self.describe(&xo)));
                                inv
                            }
                        }
                    }
                }
            }
            ExprKind::Binary { op, x, y } => self.check_binary(e, *op, x, y),
            ExprKind::Call { fun, args } => self.check_call(e, fun, args),
            ExprKind::Selector { x, sel } => self.check_selector(e, x, sel, false),
            ExprKind::Index { x, index } => self.check_index(e, x, index),
            ExprKind::TypeAssert { x, ty } => self.check_assert(e, x, ty),
            ExprKind::Composite { ty, elems } => match ty {
                Some(t) => {
                    let tid = self.resolve_type(t);
                    if tid == T_INVALID {
                        // still look at the elements for name errors
                        for el in elems {
                            if !matches!(el.value.kind, ExprKind::Composite { ty: None, .. }) {
                                let _ = self.check_expr(&el.value);
                            }
                        }
                        return inv;
                    }
                    self.check_composite(e, tid, elems)
                }
                None => {
                    self.err("syntax", e.line, "missing type in composite literal");
                    inv
                }
            },
            ExprKind::Type(t) => {
                let tid = self.resolve_type(t);
                if tid == T_INVALID {
                    return inv;
                }
                Operand { mode: Mode::Type, ty: tid, val: None, id: e.id, line: e.line }
            }
            ExprKind::TypeSwitchGuard(_) => {
                self.err("syntax", e.line, "use of .(type) outside type switch");
                inv
            }
        }
    }

    /// `mark_used` is false when the identifier is the target of a plain assignment.
    pub(crate) fn check_ident(&mut self, e: &Expr, name: &str, mark_used: bool) -> Operand {
        let inv = Operand::invalid(e.id, e.line);
        if name == "_" {
            self.err("blank-value", e.line, "cannot use _ as value");
            return inv;
        }
        let o = match self.lookup(name) {
            Some(o) => o,
            None => {
                let later = self.fctx.as_ref().map_or(false, |f| f.declared_names.contains(name));
                if later {
                    self.err("use-before-decl", e.line, format!("undefined: {} (declared later in this function)", name));
                } else {
                    self.err("undefined", e.line, format!("undefined: {}", name));
                }
                return inv;
            }
        };
        match self.objs[o].clone() {
            Obj::Var { ty, res, .. } => {
                if mark_used {
                    self.used[o] = true;
                }
                self.info.res.insert(e.id, res);
                if ty == T_INVALID {
                    return inv;
                }
                Operand { mode: Mode::Var, ty, val: None, id: e.id, line: e.line }
            }
            Obj::Func { idx } => {
                self.info.res.insert(e.id, Res::Func(idx));
                let sig = self.info.funcs[idx as usize].sig;
                if sig == T_INVALID {
                    return inv;
                }
                Operand { mode: Mode::Value, ty: sig, val: None, id: e.id, line: e.line }
            }
            Obj::TypeName { ty } => {
                if ty == T_INVALID {
                    return inv;
                }
                self.info.res.insert(e.id, Res::Type(ty));
                Operand { mode: Mode::Type, ty, val: None, id: e.id, line: e.line }
            }
            Obj::LazyType { .. } => {
                let ty = self.resolve_lazy(o);
                if ty == T_INVALID {
                    return inv;
                }
                self.info.res.insert(e.id, Res::Type(ty));
                Operand { mode: Mode::Type, ty, val: None, id: e.id, line: e.line }
            }
            Obj::Const { val, ty } => {
                self.info.res.insert(e.id, Res::Const);
                Operand { mode: Mode::Const, ty, val: Some(val), id: e.id, line: e.line }
            }
            Obj::Nil => {
                self.info.res.insert(e.id, Res::Nil);
                Operand { mode: Mode::Nil, ty: T_UNIL, val: None, id: e.id, line: e.line }
            }
            Obj::Builtin(b) => {
                self.info.res.insert(e.id, Res::Builtin(b));
                Operand { mode: Mode::Builtin(b), ty: T_INVALID, val: None, id: e.id, line: e.line }
            }
            Obj::Package { import_idx, .. } => {
                self.import_used[import_idx] = true;
                self.info.res.insert(e.id, Res::Package);
                Operand { mode: Mode::Pkg, ty: T_INVALID, val: None, id: e.id, line: e.line }
            }
            Obj::Iota => {
                self.err("invalid-op", e.line, "cannot use iota outside constant declaration");
                inv
            }
        }
    }

    // ------------------------------------------------ untyped conversion

    fn const_err(&mut self, err: ConstErr, op: &Operand, target: TypeId, ctx: &str) {
        let v = op.val.as_ref().map(|v| v.display()).unwrap_or_default();
        let t = self.tstr(target);
        match err {
            ConstErr::Overflow => self.err("const-overflow", op.line, format!("cannot use {} (constant) as {} value in {} (overflows): constant {} overflows {}", v, t, ctx, v, t)),
            ConstErr::Truncated => self.err("const-truncated", op.line, format!("cannot use {} (constant) as {} value in {} (truncated)", v, t, ctx)),
            ConstErr::TooBig => self.unsup(op.line, "constant too large for exact evaluation"),
            _ => self.err("type-mismatch", op.line, format!("cannot use {} ({} constant) as {} value in {}", v, self.tstr(op.ty), t, ctx)),
        }
    }

    /// Converts an untyped operand to `target` (a typed type). Reports
    /// errors with context `ctx`. Returns false (and invalidates the operand)
    /// on failure. Typed operands are left alone.
    pub(crate) fn convert_untyped(&mut self, op: &mut Operand, target: TypeId, ctx: &str) -> bool {
        if op.is_invalid() || target == T_INVALID {
            op.mode = Mode::Invalid;
            return false;
        }
        if !self.info.types.is_untyped(op.ty) {
            return true;
        }
        let under = self.info.types.under(target).clone();
        match under {
            Ty::Bool | Ty::Int(_) | Ty::F32 | Ty::F64 | Ty::Str => {
                if op.mode == Mode::Const {
                    let v = op.val.clone().unwrap();
                    // kinds must be compatible: numeric to numeric etc.
                    let ok_kind = match (&v, &under) {
                        (ConstVal::Bool(_), Ty::Bool) => true,
                        (ConstVal::Str(_), Ty::Str) => true,
                        (ConstVal::Int(_) | ConstVal::Float(_), Ty::Int(_) | Ty::F32 | Ty::F64) => true,
                        _ => false,
                    };
                    if !ok_kind {
                        self.const_err(ConstErr::Mismatch, op, target, ctx);
                        op.mode = Mode::Invalid;
                        return false;
                    }
                    match representable(&self.info.types, &v, target) {
                        Ok(nv) => {
                            op.val = Some(nv);
                            op.ty = target;
                            self.record(op);
                            true
                        }
                        Err(er) => {
                            self.const_err(er, op, target, ctx);
                            op.mode = Mode::Invalid;
                            false
                        }
                    }
                } else if op.mode == Mode::Nil {
                    self.err("type-mismatch", op.line, format!("cannot use nil as {} value in {}", self.tstr(target), ctx));
                    op.mode = Mode::Invalid;
                    false
                } else {
                    // untyped non-constant: only booleans (comparison results)
                    if self.info.types.is_boolean(op.ty) && matches!(under, Ty::Bool) {
                        op.ty = target;
                        self.record(op);
                        true
                    } else {
                        self.err("type-mismatch", op.line, format!("cannot use {} as {} value in {}", self.describe(op), self.tstr(target), ctx));
                        op.mode = Mode::Invalid;
                        false
                    }
                }
            }
            Ty::Interface(ms) => {
                if op.mode == Mode::Nil {
                    // stays a nil operand, now typed
                    op.ty = target;
                    self.record(op);
                    return true;
                }
                if !ms.is_empty() {
                    // basic types have no methods
                    self.err("type-mismatch", op.line, format!("cannot use {} as {} value in {} (missing method {})", self.describe(op), self.tstr(target), ctx, ms[0].0));
                    op.mode = Mode::Invalid;
                    return false;
                }
                self.default_operand(op, ctx)
            }
            Ty::Pointer(_) | Ty::Slice(_) | Ty::Func(..) => {
                if op.mode == Mode::Nil {
                    op.ty = target;
                    self.record(op);
                    true
                } else {
                    self.err("type-mismatch", op.line, format!("cannot use {} as {} value in {}", self.describe(op), self.tstr(target), ctx));
                    op.mode = Mode::Invalid;
                    false
                }
            }
            _ => {
                if op.mode == Mode::Nil {
                    self.err("type-mismatch", op.line, format!("cannot use nil as {} value in {}", self.tstr(target), ctx));
                } else {
                    self.err("type-mismatch", op.line, format!("cannot use {} as {} value in {}", self.describe(op), self.tstr(target), ctx));
                }
                op.mode = Mode::Invalid;
                false
            }
        }
    }

    /// Gives an untyped operand its default type.
    pub(crate) fn default_operand(&mut self, op: &mut Operand, ctx: &str) -> bool {
        if op.is_invalid() {
            return false;
        }
        if !self.info.types.is_untyped(op.ty) {
            return true;
        }
        if op.mode == Mode::Nil {
            self.err("type-mismatch", op.line, format!("use of untyped nil in {}", ctx));
            op.mode = Mode::Invalid;
            return false;
        }
        let d = self.info.types.default_type(op.ty);
        self.convert_untyped(op, d, ctx)
    }

    /// Pure assignability test of a (possibly untyped) operand to type `t`.
    pub(crate) fn assignable(&self, op: &Operand, t: TypeId) -> bool {
        let tt = &self.info.types;
        if op.is_invalid() || t == T_INVALID {
            return true;
        }
        if op.ty == t {
            return true;
        }
        if tt.is_untyped(op.ty) {
            if op.mode == Mode::Nil {
                return tt.has_nil(t);
            }
            if tt.is_interface(t) {
                return matches!(tt.under(t), Ty::Interface(ms) if ms.is_empty());
            }
            if op.mode == Mode::Const {
                let v = op.val.as_ref().unwrap();
                let under = tt.under(t);
                let ok_kind = match (v, under) {
                    (ConstVal::Bool(_), Ty::Bool) => true,
                    (ConstVal::Str(_), Ty::Str) => true,
                    (ConstVal::Int(_) | ConstVal::Float(_), Ty::Int(_) | Ty::F32 | Ty::F64) => true,
                    _ => false,
                };
                return ok_kind && representable(tt, v, t).is_ok();
            }
            return tt.is_boolean(op.ty) && tt.is_boolean(t);
        }
        // identical underlying types and at least one is not a named type
        let vu = tt.underlying(op.ty);
        let tu = tt.underlying(t);
        if vu == tu && (!tt.is_named_for_assign(op.ty) || !tt.is_named_for_assign(t)) && !matches!(tt.get(vu), Ty::Opaque(_)) {
            return true;
        }
        if tt.is_interface(t) {
            return tt.missing_method(op.ty, t).is_none();
        }
        false
    }

    /// Checks assignability of `op` to `t` (reporting an error) and converts
    /// untyped operands. Returns false on failure.
    pub(crate) fn assign_to(&mut self, op: &mut Operand, t: TypeId, ctx: &str) -> bool {
        if op.is_invalid() || t == T_INVALID {
            return false;
        }
        if self.info.types.is_untyped(op.ty) {
            return self.convert_untyped(op, t, ctx);
        }
        if self.assignable(op, t) {
            return true;
        }
        let extra = if self.info.types.is_interface(t) {
            match self.info.types.missing_method(op.ty, t) {
                Some(m) => format!(" ({} does not implement {}: missing method {})", self.tstr(op.ty), self.tstr(t), m),
                None => String::new(),
            }
        } else {
            String::new()
        };
        self.err("type-mismatch", op.line, format!("cannot use {} as {} value in {}{}", self.describe(op), self.tstr(t), ctx, extra));
        false
    }

    // ------------------------------------------------------------- unary

    fn check_unary(&mut self, e: &Expr, op: UnOp, x: &Expr) -> Operand {
        let inv = Operand::invalid(e.id, e.line);
        if op == UnOp::Addr {
            // &T{...} or &addressable
            let inner = strip_parens(x);
            if let ExprKind::Composite { .. } = &inner.kind {
                let xo = self.check_value(x);
                if xo.is_invalid() {
                    return inv;
                }
                let pt = self.info.types.mk(Ty::Pointer(xo.ty));
                return Operand { mode: Mode::Value, ty: pt, val: None, id: e.id, line: e.line };
            }
            let xo = self.check_value(x);
            if xo.is_invalid() {
                return inv;
            }
            if xo.mode != Mode::Var {
                self.err("invalid-op", e.line, format!("invalid operation: cannot take address of {}", self.describe(&xo)));
                return inv;
            }
            self.run_unsup(e.line, "address of a variable (&x)");
            let pt = self.info.types.mk(Ty::Pointer(xo.ty));
            return Operand { mode: Mode::Value, ty: pt, val: None, id: e.id, line: e.line };
        }
        let xo = self.check_value(x);
        if xo.is_invalid() {
            return inv;
        }
        let tt = &self.info.types;
        let ok = match op {
            UnOp::Neg | UnOp::Pos => tt.is_numeric(xo.ty),
            UnOp::Not => tt.is_boolean(xo.ty),
            UnOp::BitNot => tt.is_integer(xo.ty),
            UnOp::Addr => unreachable!(),
        };
        if xo.mode == Mode::Nil || !ok {
            let sym = match op {
                UnOp::Neg => "-",
                UnOp::Pos => "+",
                UnOp::Not => "!",
                _ => "^",
            };
            self.err("invalid-op", e.line, format!("invalid operation: operator {} not defined on {}", sym, self.describe(&xo)));
            return inv;
        }
        if tt.is_complex(xo.ty) {
            self.unsup(e.line, "complex numbers");
            return inv;
        }
        if xo.mode == Mode::Const {
            let v = xo.val.clone().unwrap();
            let nv = match (op, &v) {
                (UnOp::Pos, _) => v.clone(),
                (UnOp::Neg, ConstVal::Int(i)) => ConstVal::Int(i.neg()),
                (UnOp::Neg, ConstVal::Float(r)) => ConstVal::Float(r.neg()),
                (UnOp::Not, ConstVal::Bool(b)) => ConstVal::Bool(!b),
                (UnOp::BitNot, ConstVal::Int(i)) => {
                    // ^x = -x-1 for signed/untyped; for unsigned typed: mask
                    match self.info.types.int_kind(xo.ty) {
                        Some(k) if !k.signed() => {
                            let (_, max) = k.min_max();
                            ConstVal::Int(from_i128(max).sub(i))
                        }
                        _ => ConstVal::Int(i.neg().sub(&BigInt::one())),
                    }
                }
                _ => return inv,
            };
            let mut r = Operand { mode: Mode::Const, ty: xo.ty, val: Some(nv), id: e.id, line: e.line };
            if !self.info.types.is_untyped(r.ty) {
                if !self.check_typed_const(&mut r) {
                    return inv;
                }
            }
            return r;
        }
        Operand { mode: Mode::Value, ty: xo.ty, val: None, id: e.id, line: e.line }
    }

    /// After an operation on typed constants: the result must be
    /// representable in the type (and floats are rounded to it).
    fn check_typed_const(&mut self, op: &mut Operand) -> bool {
        let v = op.val.clone().unwrap();
        match representable(&self.info.types, &v, op.ty) {
            Ok(nv) => {
                op.val = Some(nv);
                true
            }
            Err(ConstErr::TooBig) => {
                self.unsup(op.line, "constant too large for exact evaluation");
                false
            }
            Err(_) => {
                self.err("const-overflow", op.line, format!("constant {} overflows {}", v.display(), self.tstr(op.ty)));
                false
            }
        }
    }

    fn check_untyped_const_size(&mut self, op: &Operand) -> bool {
        if let Some(ConstVal::Int(i)) = &op.val {
            if i.bit_len() > 512 {
                self.err("const-overflow", op.line, "constant overflow (more than 512 bits)");
                return false;
            }
        }
        true
    }

    // ------------------------------------------------------------ binary

    /// Implements matchTypes of go/types: implicit conversion of untyped
    /// operands of a binary operation.
    fn match_types(&mut self, x: &mut Operand, y: &mut Operand, opname: &str) -> bool {
        let tt = &self.info.types;
        let xu = tt.is_untyped(x.ty);
        let yu = tt.is_untyped(y.ty);
        if !xu && !yu {
            return true;
        }
        let may_convert = {
            if tt.is_interface(x.ty) || tt.is_interface(y.ty) {
                true
            } else if tt.is_boolean(x.ty) != tt.is_boolean(y.ty) {
                false
            } else if tt.is_string(x.ty) != tt.is_string(y.ty) {
                false
            } else if x.mode == Mode::Nil {
                tt.has_nil(y.ty)
            } else if y.mode == Mode::Nil {
                tt.has_nil(x.ty)
            } else if matches!(tt.under(x.ty), Ty::Pointer(_)) || matches!(tt.under(y.ty), Ty::Pointer(_)) {
                false
            } else {
                true
            }
        };
        if !may_convert {
            return true; // mismatch is diagnosed by the caller
        }
        if xu && yu {
            // both untyped
            if x.mode == Mode::Nil || y.mode == Mode::Nil {
                return true;
            }
            let rank = |t: &Ty| match t {
                Ty::UInt => 1,
                Ty::URune => 2,
                Ty::UFloat => 3,
                _ => 0,
            };
            let rx = rank(tt.get(x.ty));
            let ry = rank(tt.get(y.ty));
            if rx > 0 && ry > 0 {
                let target = if rx >= ry { x.ty } else { y.ty };
                if target == T_UFLOAT {
                    for o in [&mut *x, &mut *y] {
                        if o.mode == Mode::Const {
                            if let Some(ConstVal::Int(i)) = &o.val {
                                o.val = Some(ConstVal::Float(Rat::from_int(i.clone())));
                            }
                        }
                    }
                }
                x.ty = target;
                y.ty = target;
            }
            return true;
        }
        let ctx = format!("operation {}", opname);
        if xu {
            let target = y.ty;
            if tt.is_interface(target) && x.mode != Mode::Nil {
                return self.default_operand(x, &ctx);
            }
            return self.convert_untyped(x, target, &ctx);
        }
        let target = x.ty;
        if tt.is_interface(target) && y.mode != Mode::Nil {
            return self.default_operand(y, &ctx);
        }
        self.convert_untyped(y, target, &ctx)
    }

    fn check_binary(&mut self, e: &Expr, op: BinOp, xe: &Expr, ye: &Expr) -> Operand {
        let inv = Operand::invalid(e.id, e.line);
        let mut x = self.check_value(xe);
        let mut y = self.check_value(ye);
        if x.is_invalid() || y.is_invalid() {
            return inv;
        }
        if matches!(op, BinOp::Shl | BinOp::Shr) {
            return self.check_shift(e, op, x, y);
        }
        if !self.match_types(&mut x, &mut y, op.as_str()) {
            return inv;
        }
        if op.is_comparison() {
            return self.comparison(e, op, x, y);
        }
        if x.mode == Mode::Nil || y.mode == Mode::Nil {
            self.err("invalid-op", e.line, format!("invalid operation: operator {} not defined on nil", op.as_str()));
            return inv;
        }
        if x.ty != y.ty {
            self.err(
                "type-mismatch",
                e.line,
                format!("invalid operation: {} (mismatched types {} and {})", op.as_str(), self.tstr(x.ty), self.tstr(y.ty)),
            );
            return inv;
        }
        let tt = &self.info.types;
        let t = x.ty;
        let defined = match op {
            BinOp::Add => tt.is_numeric(t) || tt.is_string(t),
            BinOp::Sub | BinOp::Mul | BinOp::Div => tt.is_numeric(t),
            BinOp::Rem | BinOp::And | BinOp::Or | BinOp::Xor | BinOp::AndNot => tt.is_integer(t),
            BinOp::LAnd | BinOp::LOr => tt.is_boolean(t),
            _ => false,
        };
        if !defined {
            self.err("invalid-op", e.line, format!("invalid operation: operator {} not defined on {}", op.as_str(), self.describe(&x)));
            return inv;
        }
        if tt.is_complex(t) {
            self.unsup(e.line, "complex numbers");
            return inv;
        }
        // division by constant zero
        if matches!(op, BinOp::Div | BinOp::Rem) && y.mode == Mode::Const && (x.mode == Mode::Const || tt.is_integer(x.ty)) {
            let zero = match y.val.as_ref().unwrap() {
                ConstVal::Int(i) => i.is_zero(),
                ConstVal::Float(r) => r.is_zero(),
                _ => false,
            };
            if zero {
                self.err("const-div-zero", e.line, "invalid operation: division by zero");
                return inv;
            }
        }
        if x.mode == Mode::Const && y.mode == Mode::Const {
            let int_div = self.info.types.is_integer(t);
            let xv = x.val.as_ref().unwrap();
            let yv = y.val.as_ref().unwrap();
            match binary(op, xv, yv, int_div) {
                Ok(v) => {
                    // integer typed/untyped results stay Int; `/` on untyped
                    // floats yields Float
                    let v = match (&v, int_div) {
                        (ConstVal::Float(r), true) => ConstVal::Int(r.trunc()),
                        _ => v,
                    };
                    let mut r = Operand { mode: Mode::Const, ty: t, val: Some(v), id: e.id, line: e.line };
                    if self.info.types.is_untyped(t) {
                        if !self.check_untyped_const_size(&r) {
                            return inv;
                        }
                    } else if !self.check_typed_const(&mut r) {
                        return inv;
                    }
                    return r;
                }
                Err(ConstErr::DivZero) => {
                    self.err("const-div-zero", e.line, "invalid operation: division by zero");
                    return inv;
                }
                Err(ConstErr::TooBig) => {
                    self.unsup(e.line, "constant too large for exact evaluation");
                    return inv;
                }
                Err(_) => {
                    self.err("invalid-op", e.line, format!("invalid constant operation {}", op.as_str()));
                    return inv;
                }
            }
        }
        Operand { mode: Mode::Value, ty: t, val: None, id: e.id, line: e.line }
    }

    fn comparison(&mut self, e: &Expr, op: BinOp, mut x: Operand, mut y: Operand) -> Operand {
        let inv = Operand::invalid(e.id, e.line);
        let ok = self.assignable(&x, y.ty) || self.assignable(&y, x.ty);
        if !ok || (x.mode == Mode::Nil && y.mode == Mode::Nil) {
            if x.mode == Mode::Nil && y.mode == Mode::Nil {
                self.err("invalid-op", e.line, format!("invalid operation: operator {} not defined on nil", op.as_str()));
            } else {
                self.err(
                    "type-mismatch",
                    e.line,
                    format!("invalid operation: {} (mismatched types {} and {})", op.as_str(), self.tstr(x.ty), self.tstr(y.ty)),
                );
            }
            return inv;
        }
        let tt = &self.info.types;
        match op {
            BinOp::Eq | BinOp::Ne => {
                if x.mode == Mode::Nil || y.mode == Mode::Nil {
                    let t = if x.mode == Mode::Nil { y.ty } else { x.ty };
                    if !tt.has_nil(t) {
                        self.err("type-mismatch", e.line, format!("invalid operation: mismatched types {} and untyped nil", self.tstr(t)));
                        return inv;
                    }
                } else if !tt.comparable(x.ty) || !tt.comparable(y.ty) {
                    let bad = if !tt.comparable(x.ty) { x.ty } else { y.ty };
                    self.err("not-comparable", e.line, format!("invalid operation: {} cannot be compared ({})", self.tstr(bad), self.incomparable_cause(bad)));
                    return inv;
                }
            }
            _ => {
                if x.mode == Mode::Nil || y.mode == Mode::Nil || !tt.is_ordered(x.ty) || !tt.is_ordered(y.ty) {
                    let bad = if !tt.is_ordered(x.ty) { &x } else { &y };
                    self.err("invalid-op", e.line, format!("invalid operation: operator {} not defined on {}", op.as_str(), self.describe(bad)));
                    return inv;
                }
            }
        }
        if x.mode == Mode::Const && y.mode == Mode::Const {
            match compare(op, x.val.as_ref().unwrap(), y.val.as_ref().unwrap()) {
                Some(b) => return Operand { mode: Mode::Const, ty: T_UBOOL, val: Some(ConstVal::Bool(b)), id: e.id, line: e.line },
                None => return inv,
            }
        }
        // operands keep (or get) concrete types
        if x.mode == Mode::Nil {
            let t = y.ty;
            self.convert_untyped(&mut x, t, "comparison");
        } else {
            self.default_operand(&mut x, "comparison");
        }
        if y.mode == Mode::Nil {
            let t = x.ty;
            self.convert_untyped(&mut y, t, "comparison");
        } else {
            self.default_operand(&mut y, "comparison");
        }
        Operand { mode: Mode::Value, ty: T_UBOOL, val: None, id: e.id, line: e.line }
    }

    fn incomparable_cause(&self, t: TypeId) -> String {
        match self.info.types.under(t) {
            Ty::Slice(_) => "slice can only be compared to nil".to_string(),
            Ty::Func(..) => "func can only be compared to nil".to_string(),
            Ty::Struct(_) => "struct containing uncomparable field".to_string(),
            Ty::Array(..) => "array of uncomparable elements".to_string(),
            _ => "not comparable".to_string(),
        }
    }

    fn check_shift(&mut self, e: &Expr, op: BinOp, mut x: Operand, mut y: Operand) -> Operand {
        let inv = Operand::invalid(e.id, e.line);
        if x.mode == Mode::Nil || y.mode == Mode::Nil {
            self.err("invalid-op", e.line, "invalid operation: shift of nil");
            return inv;
        }
        // shift count
        let tt = &self.info.types;
        if y.mode == Mode::Const {
            let v = y.val.clone().unwrap();
            let iv = match (&v, tt.is_numeric(y.ty)) {
                (_, true) => to_int(&v).ok(),
                _ => None,
            };
            match iv {
                None => {
                    self.err("invalid-op", e.line, format!("invalid operation: shift count {} must be integer", self.describe(&y)));
                    return inv;
                }
                Some(i) => {
                    if i.is_neg() {
                        self.err("invalid-op", e.line, format!("invalid operation: negative shift count {}", i.to_decimal()));
                        return inv;
                    }
                    if self.info.types.is_untyped(y.ty) {
                        y.val = Some(ConstVal::Int(i));
                        if !self.convert_untyped(&mut y, T_UINT, "shift count") {
                            return inv;
                        }
                    }
                }
            }
        } else if !tt.is_integer(y.ty) || tt.is_untyped(y.ty) {
            self.err("invalid-op", e.line, format!("invalid operation: shift count {} must be integer", self.describe(&y)));
            return inv;
        }
        // shifted operand
        if x.mode == Mode::Const {
            let xv = x.val.clone().unwrap();
            if self.info.types.is_untyped(x.ty) {
                // must be representable as an integer
                let xi = match (self.info.types.is_numeric(x.ty), to_int(&xv)) {
                    (true, Ok(i)) => i,
                    _ => {
                        self.err("invalid-op", e.line, format!("invalid operation: shifted operand {} must be integer", self.describe(&x)));
                        return inv;
                    }
                };
                if y.mode != Mode::Const {
                    self.unsup(e.line, "non-constant shift of an untyped constant");
                    return inv;
                }
                let cnt = match y.val.as_ref().unwrap() {
                    ConstVal::Int(i) => i.clone(),
                    _ => return inv,
                };
                if cnt.to_u64().map_or(true, |c| c > 1074) {
                    self.err("invalid-op", e.line, format!("invalid shift count {}", cnt.to_decimal()));
                    return inv;
                }
                let rty = if x.ty == T_URUNE { T_URUNE } else { T_UINT_C };
                match shift(op == BinOp::Shl, &xi, &cnt) {
                    Ok(r) => {
                        let res = Operand { mode: Mode::Const, ty: rty, val: Some(ConstVal::Int(r)), id: e.id, line: e.line };
                        if !self.check_untyped_const_size(&res) {
                            return inv;
                        }
                        return res;
                    }
                    Err(_) => {
                        self.unsup(e.line, "constant shift too large for exact evaluation");
                        return inv;
                    }
                }
            }
            if !self.info.types.is_integer(x.ty) {
                self.err("invalid-op", e.line, format!("invalid operation: shifted operand {} must be integer", self.describe(&x)));
                return inv;
            }
            if y.mode == Mode::Const {
                let xi = match &xv {
                    ConstVal::Int(i) => i.clone(),
                    _ => return inv,
                };
                let cnt = match y.val.as_ref().unwrap() {
                    ConstVal::Int(i) => i.clone(),
                    _ => return inv,
                };
                if cnt.to_u64().map_or(true, |c| c > 1074) {
                    self.err("invalid-op", e.line, format!("invalid shift count {}", cnt.to_decimal()));
                    return inv;
                }
                match shift(op == BinOp::Shl, &xi, &cnt) {
                    Ok(r) => {
                        let mut res = Operand { mode: Mode::Const, ty: x.ty, val: Some(ConstVal::Int(r)), id: e.id, line: e.line };
                        if !self.check_typed_const(&mut res) {
                            return inv;
                        }
                        return res;
                    }
                    Err(_) => {
                        self.unsup(e.line, "constant shift too large for exact evaluation");
                        return inv;
                    }
                }
            }
            // typed constant shifted by a variable count: ordinary value
            return Operand { mode: Mode::Value, ty: x.ty, val: None, id: e.id, line: e.line };
        }
        if self.info.types.is_untyped(x.ty) {
            // untyped non-constant (cannot be integer)
            self.err("invalid-op", e.line, format!("invalid operation: shifted operand {} must be integer", self.describe(&x)));
            return inv;
        }
        if !self.info.types.is_integer(x.ty) {
            self.err("invalid-op", e.line, format!("invalid operation: shifted operand {} must be integer", self.describe(&x)));
            return inv;
        }
        let _ = &mut x;
        Operand { mode: Mode::Value, ty: x.ty, val: None, id: e.id, line: e.line }
    }
}

pub(crate) fn strip_parens(e: &Expr) -> &Expr {
    let mut cur = e;
    while let ExprKind::Paren(inner) = &cur.kind {
        cur = inner;
    }
    cur
}
