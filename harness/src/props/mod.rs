use crate::runner::PropSpec;

pub mod c12;

pub fn all() -> Vec<&'static PropSpec> {
    vec![&c12::SPEC]
}
