//! C15: linking never combines packages built against different interfaces.
//!
//! Part A (history checker): histories of {edit, check, build, link} are driven against the real
//! separate-compilation entry points with artifacts on disk; every call/return is logged and
//! checked against a small model (which interface state each artifact was built from / against).
//! Part B (fault enumeration): every scalar leaf of valid .interface / .core files is corrupted
//! (change value, delete key, retype) and offered to every read path; version-bump re-hash attacks.

use crate::projgen::{self, Project};
use crate::runner::{self, Case, Ctx, PropSpec, Tier};
use crate::util::{self, Rng, hash_str};
use compiler::artifact::{CoreUnit, InterfaceUnit};
use compiler::pipeline::separate;
use serde_json::{Value, json};
use std::collections::BTreeMap;
use std::path::{Path, PathBuf};

pub static SPEC: PropSpec = PropSpec {
    id: "C15",
    level: "fault_enumeration",
    rule: "histories: exhaustive op sequences up to length L (L=3 quick, 5 thorough) over an 8-op alphabet {edit body Lib, edit iface Lib (2 kinds), edit body Main, check Lib, build Lib, build Main, link} on a 2-package graph, plus random histories (length <= 30) on 2-5 package DAGs with 8 edit kinds; every history ends with a link; a history is non-trivial when it contains an interface-visible edit followed (later) by a link. Faults: every scalar leaf of valid .interface/.core files x {change, delete key, retype} x every read path, plus version-bump re-hash attacks; distinct by (history ops) / (artifact kind, JSON path, corruption)",
    eval_counter: "evaluations",
    assumptions: &[
        "model: an artifact's interface state = the package's interface-visible source knobs at build time plus, transitively, the states of the dependency interface files it was built against; link must succeed iff every core's recorded dependency state equals the dependency core's own state",
        "a corrupted file that is accepted counts as altered only if re-serialising what was read differs from the original (void corruptions such as deleting a defaulted null are not violations)",
        "forgeries that alter content and recompute interface_hash are out of scope except for the format_version/compiler_abi bump named in the property",
    ],
    crash_is_violation: false,
    stack_mib: 64,
    case_cpu_s: 120,
    shards: 0,
    run,
    floors: &[("histories", 500, 30_000), ("links_expected_ok", 50, 2_000), ("links_expected_fail", 50, 2_000), ("faults_injected", 500, 10_000), ("faults_rejected", 300, 5_000)],
    finish: None,
};

#[derive(Clone, Debug, PartialEq)]
pub enum Op {
    EditBody(usize),       // package index: 0..libs.len() = libs, libs.len() = Main
    EditIface(usize, u8),  // knob id
    Check(usize),
    Build(usize),
    Link,
}

fn op_str(p: &Project, op: &Op) -> String {
    let name = |k: &usize| if *k == p.libs.len() { "Main".to_string() } else { p.libs[*k].name.clone() };
    match op {
        Op::EditBody(k) => format!("edit-body({})", name(k)),
        Op::EditIface(k, kn) => format!("edit-iface({},{})", name(k), kn),
        Op::Check(k) => format!("check({})", name(k)),
        Op::Build(k) => format!("build({})", name(k)),
        Op::Link => "link".to_string(),
    }
}

/// Interface-visible knobs of one package as a canonical string.
fn own_iface(p: &Project, k: usize) -> String {
    if k == p.libs.len() {
        return format!("main_extra_fn={}", p.main_extra_fn);
    }
    let l = &p.libs[k];
    format!(
        "fn={} field={} variant={} param={} tmethod={} impl={}",
        l.extra_fn, l.extra_field, l.extra_variant, l.extra_param, l.extra_trait_method, l.extra_impl
    )
}

fn apply_iface_knob(p: &mut Project, k: usize, knob: u8) -> bool {
    if k == p.libs.len() {
        p.main_extra_fn = !p.main_extra_fn;
        return true;
    }
    let targeted_by_foreign_impl = p.libs.iter().any(|l| l.foreign_impl.contains(&k));
    let l = &mut p.libs[k];
    match knob % 6 {
        0 => l.extra_fn = !l.extra_fn,
        1 => l.extra_field = !l.extra_field,
        2 => {
            if !l.has_enum {
                return false;
            }
            l.extra_variant = !l.extra_variant
        }
        3 => l.extra_param = !l.extra_param,
        4 => {
            if !l.has_trait || targeted_by_foreign_impl {
                return false;
            }
            l.extra_trait_method = !l.extra_trait_method
        }
        _ => {
            if !l.has_trait {
                return false;
            }
            l.extra_impl = !l.extra_impl
        }
    }
    true
}

struct World {
    root: PathBuf,
    art: PathBuf,
    proj: Project,
    /// model: state string of the interface file / core file on disk per package index
    iface_file: Vec<Option<String>>,
    core_file: Vec<Option<(String, BTreeMap<usize, String>)>>, // (own state string, dep -> state string it was built against)
    log: Vec<Value>,
    state_to_hash: BTreeMap<String, String>,
    hash_to_state: BTreeMap<String, String>,
}

fn pkg_name(p: &Project, k: usize) -> String {
    if k == p.libs.len() { "Main".into() } else { p.libs[k].name.clone() }
}
fn pkg_deps(p: &Project, k: usize) -> Vec<usize> {
    if k == p.libs.len() { p.main_imports.clone() } else { p.libs[k].imports.clone() }
}
fn pkg_dir(root: &Path, p: &Project, k: usize) -> PathBuf {
    if k == p.libs.len() { root.to_path_buf() } else { root.join(&p.libs[k].name) }
}

impl World {
    fn write_sources(&self, only: Option<usize>) {
        let files = self.proj.render();
        for (rel, text) in files {
            let k = match rel.parent().and_then(|d| d.to_str()) {
                Some("") | None => self.proj.libs.len(),
                Some(d) => self.proj.libs.iter().position(|l| l.name == d).unwrap_or(self.proj.libs.len()),
            };
            if only.map(|o| o == k).unwrap_or(true) {
                let p = self.root.join(&rel);
                if let Some(parent) = p.parent() {
                    let _ = std::fs::create_dir_all(parent);
                }
                let _ = std::fs::write(p, text);
            }
        }
    }

    fn model_state_for_build(&self, k: usize) -> Option<(String, BTreeMap<usize, String>)> {
        let mut deps = BTreeMap::new();
        for d in pkg_deps(&self.proj, k) {
            deps.insert(d, self.iface_file[d].clone()?);
        }
        let own = own_iface(&self.proj, k);
        let full = format!("{}:{{{}}}|{}", pkg_name(&self.proj, k), own, deps.iter().map(|(d, s)| format!("{}=>[{}]", d, s)).collect::<Vec<_>>().join(";"));
        Some((full, deps))
    }

    fn record_hash(&mut self, case: &mut Case, state: &str, hash: &str, what: &str) {
        if let Some(h) = self.state_to_hash.get(state) {
            if h != hash {
                case.violation(
                    "hash-changed-without-interface-change",
                    format!("{}: the same interface state produced two different interface hashes (a body-only edit or a rebuild changed the hash)", what),
                    json!({"state": state, "hash_a": h, "hash_b": hash, "history": self.log, "project": self.files_json()}),
                );
            }
        } else {
            self.state_to_hash.insert(state.to_string(), hash.to_string());
        }
        if let Some(s) = self.hash_to_state.get(hash) {
            if s != state {
                case.violation(
                    "interface-change-kept-hash",
                    format!("{}: two different interface states share one interface hash (an interface-visible change did not change the hash)", what),
                    json!({"state_a": s, "state_b": state, "hash": hash, "history": self.log, "project": self.files_json()}),
                );
            }
        } else {
            self.hash_to_state.insert(hash.to_string(), state.to_string());
        }
    }

    fn files_json(&self) -> Value {
        json!(self.proj.render().iter().map(|(p, t)| json!({"path": p.display().to_string(), "text": t})).collect::<Vec<_>>())
    }

    fn inputs(&self, k: usize) -> separate::PackageInputs {
        separate::PackageInputs {
            package: pkg_name(&self.proj, k),
            input_files: crate::projdrv::gom_files(&pkg_dir(&self.root, &self.proj, k)),
            interface_paths: vec![self.art.clone()],
        }
    }

    fn step(&mut self, case: &mut Case, op: &Op, rng: &mut Rng) {
        let n = self.proj.libs.len();
        let ops = op_str(&self.proj, op);
        match op {
            Op::EditBody(k) => {
                if *k == n {
                    self.proj.main_body_knob += 1 + rng.below(3) as i32;
                } else if rng.bool() {
                    self.proj.libs[*k].body_knob += 1 + rng.below(5) as i32;
                } else {
                    self.proj.libs[*k].body_shape = (self.proj.libs[*k].body_shape + 1) % 3;
                }
                self.write_sources(Some(*k));
                self.log.push(json!({"op": ops}));
                case.count("edits_body", 1);
            }
            Op::EditIface(k, kn) => {
                let ok = apply_iface_knob(&mut self.proj, *k, *kn);
                if ok {
                    self.write_sources(Some(*k));
                    case.count("edits_iface", 1);
                }
                self.log.push(json!({"op": ops, "applied": ok}));
            }
            Op::Check(k) => {
                let expect = self.model_state_for_build(*k);
                let res = runner::guard(|| separate::check_package(self.inputs(*k)));
                case.count("checks", 1);
                match res {
                    Ok(Ok(unit)) => {
                        let json_text = serde_json::to_string_pretty(&unit).unwrap_or_default();
                        let _ = std::fs::write(self.art.join(format!("{}.interface", pkg_name(&self.proj, *k))), json_text);
                        self.log.push(json!({"op": ops, "result": "ok", "hash": unit.interface_hash}));
                        match expect {
                            Some((state, _)) => {
                                self.record_hash(case, &state, &unit.interface_hash, &ops);
                                self.iface_file[*k] = Some(state);
                            }
                            None => {
                                case.violation("check-ok-without-dep-interface", format!("{} succeeded although a dependency has no interface file", ops), json!({"history": self.log}));
                            }
                        }
                    }
                    Ok(Err(e)) => {
                        self.log.push(json!({"op": ops, "result": "err", "messages": crate::capi::err_messages(&e)}));
                        if expect.is_some() {
                            case.violation(
                                "check-rejected-valid-package",
                                format!("{} failed although sources are well-typed and all dependency interfaces are present: {}", ops, util::truncate(&crate::capi::err_messages(&e).join("; "), 200)),
                                json!({"history": self.log, "project": self.files_json()}),
                            );
                        }
                    }
                    Err(p) => {
                        self.log.push(json!({"op": ops, "result": "panic", "site": p.site}));
                        case.inconclusive(format!("compiler panic at {} (a C04 event)", p.site));
                    }
                }
            }
            Op::Build(k) => {
                let expect = self.model_state_for_build(*k);
                let res = runner::guard(|| separate::build_package(self.inputs(*k)));
                case.count("builds", 1);
                match res {
                    Ok(Ok(unit)) => {
                        let name = pkg_name(&self.proj, *k);
                        let _ = std::fs::write(self.art.join(format!("{}.interface", name)), serde_json::to_string_pretty(&unit.interface).unwrap_or_default());
                        let _ = std::fs::write(self.art.join(format!("{}.core", name)), serde_json::to_string_pretty(&unit).unwrap_or_default());
                        self.log.push(json!({"op": ops, "result": "ok", "hash": unit.interface.interface_hash, "deps": unit.deps}));
                        match expect {
                            Some((state, deps)) => {
                                self.record_hash(case, &state, &unit.interface.interface_hash, &ops);
                                self.iface_file[*k] = Some(state.clone());
                                self.core_file[*k] = Some((state, deps));
                            }
                            None => {
                                case.violation("build-ok-without-dep-interface", format!("{} succeeded although a dependency has no interface file", ops), json!({"history": self.log}));
                            }
                        }
                    }
                    Ok(Err(e)) => {
                        self.log.push(json!({"op": ops, "result": "err", "messages": crate::capi::err_messages(&e)}));
                        if expect.is_some() {
                            case.violation(
                                "build-rejected-valid-package",
                                format!("{} failed although sources are well-typed and all dependency interfaces are present: {}", ops, util::truncate(&crate::capi::err_messages(&e).join("; "), 200)),
                                json!({"history": self.log, "project": self.files_json()}),
                            );
                        }
                    }
                    Err(p) => {
                        self.log.push(json!({"op": ops, "result": "panic", "site": p.site}));
                        case.inconclusive(format!("compiler panic at {} (a C04 event)", p.site));
                    }
                }
            }
            Op::Link => {
                // model verdict
                let mut expect_ok = true;
                let mut why = String::new();
                for k in 0..=n {
                    match &self.core_file[k] {
                        None => {
                            expect_ok = false;
                            why = format!("{} has no core", pkg_name(&self.proj, k));
                        }
                        Some((_, deps)) => {
                            for (d, built_against) in deps {
                                match &self.core_file[*d] {
                                    Some((dstate, _)) if dstate == built_against => {}
                                    _ => {
                                        expect_ok = false;
                                        why = format!("{} was built against another interface of {}", pkg_name(&self.proj, k), pkg_name(&self.proj, *d));
                                    }
                                }
                            }
                        }
                    }
                }
                let art = self.art.clone();
                let names: Vec<String> = (0..=n).map(|k| pkg_name(&self.proj, k)).collect();
                let res = runner::guard(|| {
                    let mut cores = Vec::new();
                    for name in &names {
                        match separate::read_core(&art.join(format!("{}.core", name))) {
                            Ok(u) => cores.push(u),
                            Err(e) => return Err(crate::capi::err_messages(&e)),
                        }
                    }
                    match separate::link_cores(cores) {
                        Ok(l) => Ok(l.go.to_pretty(&l.goenv, 120).len()),
                        Err(e) => Err(crate::capi::err_messages(&e)),
                    }
                });
                case.count("links", 1);
                match res {
                    Ok(Ok(_)) => {
                        self.log.push(json!({"op": "link", "result": "ok", "model": expect_ok}));
                        if expect_ok {
                            case.count("links_expected_ok", 1);
                        } else {
                            case.violation(
                                "stale-link-accepted",
                                format!("link succeeded although {}", why),
                                json!({"history": self.log, "project": self.files_json(), "why": why}),
                            );
                        }
                    }
                    Ok(Err(msgs)) => {
                        self.log.push(json!({"op": "link", "result": "err", "messages": msgs, "model": expect_ok}));
                        if expect_ok {
                            case.violation(
                                "consistent-link-rejected",
                                format!("link failed although every package was built against the interfaces its dependencies export: {}", util::truncate(&msgs.join("; "), 200)),
                                json!({"history": self.log, "project": self.files_json()}),
                            );
                        } else {
                            case.count("links_expected_fail", 1);
                        }
                    }
                    Err(p) => {
                        self.log.push(json!({"op": "link", "result": "panic", "site": p.site}));
                        case.inconclusive(format!("compiler panic at {} (a C04 event)", p.site));
                    }
                }
            }
        }
    }
}

fn run_history(case: &mut Case, proj: Project, ops: &[Op], rng: &mut Rng, scratch: &Path, tag: &str) {
    let root = scratch.join(format!("c15-{}", tag));
    let _ = std::fs::remove_dir_all(&root);
    let art = root.join(".artifacts");
    let _ = std::fs::create_dir_all(&art);
    let n = proj.libs.len();
    let mut w = World {
        root: root.clone(),
        art,
        proj,
        iface_file: vec![None; n + 1],
        core_file: vec![None; n + 1],
        log: Vec::new(),
        state_to_hash: BTreeMap::new(),
        hash_to_state: BTreeMap::new(),
    };
    w.write_sources(None);
    // initial full build in dependency order (highest lib index first, Main last)
    for k in (0..n).rev() {
        w.step(case, &Op::Build(k), rng);
    }
    w.step(case, &Op::Build(n), rng);
    for op in ops {
        w.step(case, op, rng);
    }
    w.step(case, &Op::Link, rng);
    case.count("histories", 1);
    case.count("evaluations", 1);
    let opstrs: Vec<String> = ops.iter().map(|o| op_str(&w.proj, o)).collect();
    let mut seen_iface = false;
    let mut nontrivial = false;
    for o in ops.iter().chain(std::iter::once(&Op::Link)) {
        match o {
            Op::EditIface(..) => seen_iface = true,
            Op::Link if seen_iface => nontrivial = true,
            _ => {}
        }
    }
    if nontrivial {
        case.nontrivial(hash_str(&format!("{:?}|{}", opstrs, w.proj.libs.len())));
    }
    case.sample(json!({"workload": tag.split('-').next().unwrap_or("history"), "packages": (0..=n).map(|k| pkg_name(&w.proj, k)).collect::<Vec<_>>(), "ops": opstrs, "log_tail": w.log.iter().rev().take(3).collect::<Vec<_>>()}));
    let _ = std::fs::remove_dir_all(&root);
}

fn two_package_project() -> Project {
    let mut rng = Rng::new(7);
    let mut p = Project::generate(&mut rng, 1);
    p.libs[0].has_enum = true;
    p.libs[0].has_trait = true;
    p.libs[0].has_generic = true;
    p.libs[0].n_files = 2;
    p.main_imports = vec![0];
    p.regen_calls(&mut rng);
    p
}

fn exhaustive_alphabet() -> Vec<Op> {
    vec![Op::EditBody(0), Op::EditIface(0, 0), Op::EditIface(0, 1), Op::EditBody(1), Op::Check(0), Op::Build(0), Op::Build(1), Op::Link]
}

// ---------- Part B: artifact corruption ----------

fn leaf_paths(v: &Value, prefix: &mut Vec<String>, out: &mut Vec<Vec<String>>) {
    match v {
        Value::Object(m) => {
            for (k, x) in m {
                prefix.push(k.clone());
                leaf_paths(x, prefix, out);
                prefix.pop();
            }
        }
        Value::Array(a) => {
            for (i, x) in a.iter().enumerate() {
                prefix.push(i.to_string());
                leaf_paths(x, prefix, out);
                prefix.pop();
            }
        }
        _ => out.push(prefix.clone()),
    }
}

fn get_mut<'a>(v: &'a mut Value, path: &[String]) -> Option<&'a mut Value> {
    let mut cur = v;
    for seg in path {
        cur = match cur {
            Value::Object(m) => m.get_mut(seg)?,
            Value::Array(a) => a.get_mut(seg.parse::<usize>().ok()?)?,
            _ => return None,
        };
    }
    Some(cur)
}

fn corrupt(orig: &Value, path: &[String], kind: u8) -> Option<Value> {
    let mut v = orig.clone();
    match kind {
        0 => {
            let leaf = get_mut(&mut v, path)?;
            *leaf = match &*leaf {
                Value::String(s) => Value::String(format!("{}x", s)),
                Value::Number(n) => {
                    if let Some(u) = n.as_u64() {
                        json!(u.wrapping_add(1))
                    } else if let Some(i) = n.as_i64() {
                        json!(i.wrapping_add(1))
                    } else {
                        json!(n.as_f64().unwrap_or(0.0) + 1.5)
                    }
                }
                Value::Bool(b) => Value::Bool(!*b),
                Value::Null => json!(0),
                _ => return None,
            };
        }
        1 => {
            // delete the key / element
            let (last, parent_path) = path.split_last()?;
            let parent = get_mut(&mut v, parent_path)?;
            match parent {
                Value::Object(m) => {
                    m.remove(last)?;
                }
                Value::Array(a) => {
                    let i = last.parse::<usize>().ok()?;
                    if i < a.len() {
                        a.remove(i);
                    }
                }
                _ => return None,
            }
        }
        _ => {
            let leaf = get_mut(&mut v, path)?;
            *leaf = match &*leaf {
                Value::String(_) => json!(12345),
                Value::Number(_) => json!("12345"),
                Value::Bool(_) => json!("true"),
                Value::Null => json!("null"),
                _ => return None,
            };
        }
    }
    Some(v)
}

fn path_class(path: &[String]) -> String {
    // top-level key, plus the second level when the top is `interface`
    let mut segs: Vec<&str> = Vec::new();
    for s in path {
        if s.parse::<usize>().is_ok() {
            continue;
        }
        segs.push(s);
        if segs.len() >= if segs[0] == "interface" { 2 } else { 1 } {
            break;
        }
    }
    segs.join(".")
}

struct Built {
    root: PathBuf,
    art: PathBuf,
    proj: Project,
}

fn build_all(proj: Project, scratch: &Path, tag: &str) -> Option<Built> {
    let root = scratch.join(format!("c15f-{}", tag));
    let _ = std::fs::remove_dir_all(&root);
    let art = root.join(".artifacts");
    std::fs::create_dir_all(&art).ok()?;
    let files = proj.render();
    let order: Vec<usize> = (0..files.len()).collect();
    projgen::materialize(&root, &files, &order).ok()?;
    let n = proj.libs.len();
    for k in (0..=n).rev().map(|k| if k == n { n } else { k }).collect::<Vec<_>>().into_iter().rev().rev() {
        let _ = k;
    }
    let mut ks: Vec<usize> = (0..n).rev().collect();
    ks.push(n);
    for k in ks {
        let name = pkg_name(&proj, k);
        let unit = separate::build_package(separate::PackageInputs {
            package: name.clone(),
            input_files: crate::projdrv::gom_files(&pkg_dir(&root, &proj, k)),
            interface_paths: vec![art.clone()],
        })
        .ok()?;
        std::fs::write(art.join(format!("{}.interface", name)), serde_json::to_string_pretty(&unit.interface).ok()?).ok()?;
        std::fs::write(art.join(format!("{}.core", name)), serde_json::to_string_pretty(&unit).ok()?).ok()?;
    }
    Some(Built { root, art, proj })
}

/// Offer a (possibly corrupted) interface file of `dep` to check/build of a dependent package.
fn interface_accepted(b: &Built, dependent: usize, alt_art: &Path) -> Result<bool, String> {
    let mk = || separate::PackageInputs {
        package: pkg_name(&b.proj, dependent),
        input_files: crate::projdrv::gom_files(&pkg_dir(&b.root, &b.proj, dependent)),
        interface_paths: vec![alt_art.to_path_buf()],
    };
    let r1 = runner::guard(|| separate::check_package(mk()).is_ok()).map_err(|p| p.site)?;
    let r2 = runner::guard(|| separate::build_package(mk()).is_ok()).map_err(|p| p.site)?;
    Ok(r1 || r2)
}

fn fault_enumeration(case: &mut Case, b: &Built, rng: &mut Rng, max_leaves: usize) {
    let n = b.proj.libs.len();
    // choose a dependency edge dependent -> dep
    let mut edges: Vec<(usize, usize)> = Vec::new();
    for k in 0..=n {
        for d in pkg_deps(&b.proj, k) {
            edges.push((k, d));
        }
    }
    if edges.is_empty() {
        return;
    }
    let (dependent, dep) = rng.pick(&edges);
    let dep_name = pkg_name(&b.proj, dep);
    let alt = b.root.join(".alt");
    // ----- interface file of dep, read by check/build of dependent -----
    let orig_text = std::fs::read_to_string(b.art.join(format!("{}.interface", dep_name))).unwrap_or_default();
    let orig: Value = serde_json::from_str(&orig_text).unwrap_or(Value::Null);
    let mut paths = Vec::new();
    leaf_paths(&orig, &mut Vec::new(), &mut paths);
    rng.shuffle(&mut paths);
    // always include the top-level scalar fields
    paths.sort_by_key(|p| p.len() > 1);
    let prepare_alt = |text: &str| {
        let _ = std::fs::remove_dir_all(&alt);
        let _ = std::fs::create_dir_all(&alt);
        // copy the other interfaces unchanged
        if let Ok(rd) = std::fs::read_dir(&b.art) {
            for e in rd.filter_map(|e| e.ok()) {
                let p = e.path();
                if p.extension().is_some_and(|x| x == "interface") {
                    let _ = std::fs::copy(&p, alt.join(p.file_name().unwrap()));
                }
            }
        }
        let _ = std::fs::write(alt.join(format!("{}.interface", dep_name)), text);
    };
    // sanity: the unmodified file is accepted
    prepare_alt(&orig_text);
    match interface_accepted(b, dependent, &alt) {
        Ok(true) => {}
        _ => {
            case.inconclusive("baseline interface not accepted");
            return;
        }
    }
    for path in paths.iter().take(max_leaves) {
        for kind in 0..3u8 {
            let Some(mutated) = corrupt(&orig, path, kind) else { continue };
            let text = serde_json::to_string_pretty(&mutated).unwrap_or_default();
            if text == orig_text {
                continue;
            }
            prepare_alt(&text);
            case.count("faults_injected", 1);
            case.count("evaluations", 1);
            case.count("faults_interface", 1);
            case.nontrivial(hash_str(&format!("iface|{}|{}", path.join("/"), kind)));
            match interface_accepted(b, dependent, &alt) {
                Ok(false) => case.count("faults_rejected", 1),
                Ok(true) => {
                    // void corruption? re-serialise what a reader gets
                    let reread = serde_json::from_str::<InterfaceUnit>(&text).ok().and_then(|u| serde_json::to_string_pretty(&u).ok());
                    if reread.as_deref() == Some(orig_text.as_str()) {
                        case.count("faults_void", 1);
                    } else {
                        case.violation(
                            format!("altered-interface-accepted:{}", path_class(path)),
                            format!("an interface file with `{}` {} was accepted by check/build of a dependent package", path.join("."), ["changed", "deleted", "retyped"][kind as usize]),
                            json!({"artifact": "interface", "path": path, "corruption": kind, "package": dep_name}),
                        );
                    }
                }
                Err(site) => case.inconclusive(format!("compiler panic at {} (a C04 event)", site)),
            }
        }
    }
    // version-bump + consistent re-hash
    for (fv, abi) in [(2u32, 1u32), (1, 2), (0, 1), (7, 9)] {
        if let Ok(mut unit) = serde_json::from_str::<InterfaceUnit>(&orig_text) {
            unit.format_version = fv;
            unit.compiler_abi = abi;
            unit.interface_hash = unit.compute_hash();
            let text = serde_json::to_string_pretty(&unit).unwrap_or_default();
            prepare_alt(&text);
            case.count("faults_injected", 1);
            case.count("evaluations", 1);
            case.count("faults_version_rehash", 1);
            case.nontrivial(hash_str(&format!("iface-version|{}|{}", fv, abi)));
            match interface_accepted(b, dependent, &alt) {
                Ok(false) => case.count("faults_rejected", 1),
                Ok(true) => case.violation(
                    "other-version-interface-accepted",
                    format!("an interface file written with format_version={} compiler_abi={} (hash consistent) was accepted by check/build of a dependent package", fv, abi),
                    json!({"artifact": "interface", "format_version": fv, "compiler_abi": abi, "package": dep_name}),
                ),
                Err(site) => case.inconclusive(format!("compiler panic at {} (a C04 event)", site)),
            }
        }
    }
    // ----- core file, read by read_core (+ link) -----
    let which = if rng.bool() { dep } else { dependent };
    let cname = pkg_name(&b.proj, which);
    let corig_text = std::fs::read_to_string(b.art.join(format!("{}.core", cname))).unwrap_or_default();
    let corig: Value = serde_json::from_str(&corig_text).unwrap_or(Value::Null);
    let mut cpaths = Vec::new();
    leaf_paths(&corig, &mut Vec::new(), &mut cpaths);
    rng.shuffle(&mut cpaths);
    cpaths.sort_by_key(|p| p.len() > 1);
    let cpath = alt.join("mut.core");
    let _ = std::fs::create_dir_all(&alt);
    // sanity: the unmodified core is accepted through the same path
    let _ = std::fs::write(&cpath, &corig_text);
    match runner::guard(|| separate::read_core(&cpath)) {
        Ok(Ok(_)) => {}
        Ok(Err(e)) => {
            case.inconclusive(format!("baseline core not accepted: {:?}", crate::capi::err_messages(&e)));
            return;
        }
        Err(p) => {
            case.inconclusive(format!("compiler panic at {} (a C04 event)", p.site));
            return;
        }
    }
    for path in cpaths.iter().take(max_leaves) {
        for kind in 0..3u8 {
            let Some(mutated) = corrupt(&corig, path, kind) else { continue };
            let text = serde_json::to_string_pretty(&mutated).unwrap_or_default();
            if text == corig_text {
                continue;
            }
            let _ = std::fs::write(&cpath, &text);
            case.count("faults_injected", 1);
            case.count("evaluations", 1);
            case.count("faults_core", 1);
            case.nontrivial(hash_str(&format!("core|{}|{}", path.join("/"), kind)));
            match runner::guard(|| separate::read_core(&cpath)) {
                Ok(Err(_)) => case.count("faults_rejected", 1),
                Ok(Ok(unit)) => {
                    let re = serde_json::to_string_pretty(&unit).unwrap_or_default();
                    if re == corig_text {
                        case.count("faults_void", 1);
                    } else {
                        // read_core accepted altered content; does link reject it?
                        let mut cores: Vec<CoreUnit> = Vec::new();
                        let mut ok = true;
                        for k in 0..=n {
                            let nm = pkg_name(&b.proj, k);
                            if nm == cname {
                                cores.push(unit.clone());
                            } else {
                                match separate::read_core(&b.art.join(format!("{}.core", nm))) {
                                    Ok(u) => cores.push(u),
                                    Err(_) => ok = false,
                                }
                            }
                        }
                        let linked = ok && runner::guard(|| separate::link_cores(cores).is_ok()).unwrap_or(false);
                        if linked {
                            case.violation(
                                format!("altered-core-accepted:{}", path_class(path)),
                                format!("a core file with `{}` {} was accepted by read_core and linked", path.join("."), ["changed", "deleted", "retyped"][kind as usize]),
                                json!({"artifact": "core", "path": path, "corruption": kind, "package": cname}),
                            );
                        } else {
                            case.count("faults_rejected", 1);
                            case.count("faults_rejected_only_by_link", 1);
                        }
                    }
                }
                Err(p) => case.inconclusive(format!("compiler panic at {} (a C04 event)", p.site)),
            }
        }
    }
    for (fv, abi) in [(2u32, 1u32), (1, 2)] {
        if let Ok(mut unit) = serde_json::from_str::<CoreUnit>(&corig_text) {
            unit.format_version = fv;
            unit.compiler_abi = abi;
            unit.interface.format_version = fv;
            unit.interface.compiler_abi = abi;
            unit.interface.interface_hash = unit.interface.compute_hash();
            let _ = std::fs::write(&cpath, serde_json::to_string_pretty(&unit).unwrap_or_default());
            case.count("faults_injected", 1);
            case.count("evaluations", 1);
            case.count("faults_version_rehash", 1);
            match runner::guard(|| separate::read_core(&cpath).is_ok()) {
                Ok(false) => case.count("faults_rejected", 1),
                Ok(true) => case.violation(
                    "other-version-core-accepted",
                    format!("a core file written with format_version={} compiler_abi={} was accepted by read_core", fv, abi),
                    json!({"artifact": "core", "format_version": fv, "compiler_abi": abi}),
                ),
                Err(p) => case.inconclusive(format!("compiler panic at {} (a C04 event)", p.site)),
            }
        }
    }
    case.sample(json!({"workload": "artifact_faults", "interface_of": dep_name, "read_by": pkg_name(&b.proj, dependent), "core_of": cname,
        "example_paths": paths.iter().take(3).map(|p| p.join(".")).collect::<Vec<_>>()}));
}

/// A core that Main does not reach, handed to link next to the others (what `goml link out/*.core` picks up): package
/// Extra imports Lib, Main imports Lib only. After an interface-visible edit of Lib, with Lib and Main rebuilt and
/// Extra not, `link [Main, Lib, Extra]` combines Extra with an interface of Lib it was not built against and must
/// be rejected; `link [Main, Lib]` and the link after rebuilding Extra must succeed. (Added after a seeded change that
/// checked only the cores reachable from Main.)
fn extra_core_scenario(case: &mut Case, scratch: &Path, variant: usize) {
    let root = scratch.join(format!("c15-extra-{}-{}", std::process::id(), variant));
    let _ = std::fs::remove_dir_all(&root);
    let art = root.join(".artifacts");
    let lib_v1 = "package Lib\n\nstruct Pt { x: int32 }\n\nfn mk() -> Pt { Pt { x: 1 } }\n";
    // interface-visible edits of Lib that keep Main and Extra compiling against the new interface
    let lib_v2 = match variant {
        0 => "package Lib\n\nstruct Pt { x: int32 }\n\nfn mk() -> Pt { Pt { x: 1 } }\n\nfn added() -> int32 { 2 }\n",
        1 => "package Lib\n\nstruct Pt { x: int32, y: int32 }\n\nfn mk() -> Pt { Pt { x: 1, y: 2 } }\n",
        _ => "package Lib\n\nstruct Pt { x: int32 }\n\nenum Kind { A }\n\nfn mk() -> Pt { Pt { x: 1 } }\n",
    };
    let extra = "package Extra\nimport Lib\n\nstruct Wrap { p: Lib::Pt }\n\nfn wrapped() -> int32 { Lib::mk().x }\n";
    let main = "package Main\nimport Lib\n\nfn main() -> unit {\n    let _ = string_println(int32_to_string(Lib::mk().x));\n    ()\n}\n";
    let write = |rel: &str, text: &str| -> bool {
        let p = root.join(rel);
        if let Some(d) = p.parent() {
            let _ = std::fs::create_dir_all(d);
        }
        std::fs::write(&p, text).is_ok()
    };
    if std::fs::create_dir_all(&art).is_err() || !write("Lib/lib.gom", lib_v1) || !write("Extra/lib.gom", extra) || !write("main.gom", main) {
        case.inconclusive("cannot materialise the extra-core project");
        return;
    }
    let build = |pkg: &str, file: &str| -> Result<(), String> {
        let unit = separate::build_package(separate::PackageInputs { package: pkg.to_string(), input_files: vec![root.join(file)], interface_paths: vec![art.clone()] }).map_err(|e| crate::capi::err_messages(&e).join("; "))?;
        std::fs::write(art.join(format!("{}.interface", pkg)), serde_json::to_string_pretty(&unit.interface).map_err(|e| e.to_string())?).map_err(|e| e.to_string())?;
        std::fs::write(art.join(format!("{}.core", pkg)), serde_json::to_string_pretty(&unit).map_err(|e| e.to_string())?).map_err(|e| e.to_string())?;
        Ok(())
    };
    let link = |pkgs: &[&str]| -> Result<(), String> {
        let mut cores = Vec::new();
        for p in pkgs {
            cores.push(separate::read_core(&art.join(format!("{}.core", p))).map_err(|e| crate::capi::err_messages(&e).join("; "))?);
        }
        separate::link_cores(cores).map(|_| ()).map_err(|e| crate::capi::err_messages(&e).join("; "))
    };
    let mut log: Vec<Value> = Vec::new();
    let res = runner::guard(|| -> Result<(), String> {
        build("Lib", "Lib/lib.gom")?;
        build("Extra", "Extra/lib.gom")?;
        build("Main", "main.gom")?;
        Ok(())
    });
    match res {
        Ok(Ok(())) => {}
        Ok(Err(e)) => {
            case.violation("extra-core:consistent-build-rejected".to_string(), format!("a three-package project does not build: {}", util::truncate(&e, 200)), json!({"variant": variant}));
            let _ = std::fs::remove_dir_all(&root);
            return;
        }
        Err(p) => {
            case.inconclusive(format!("compiler panic at {} (a C04 event)", p.site));
            let _ = std::fs::remove_dir_all(&root);
            return;
        }
    }
    case.count("extra_core_scenarios", 1);
    let mut step = |what: &str, pkgs: &[&str], expect_ok: bool, log: &mut Vec<Value>, case: &mut Case| {
        let r = runner::guard(|| link(pkgs));
        case.count("links", 1);
        let got = match &r {
            Ok(Ok(())) => "ok".to_string(),
            Ok(Err(e)) => format!("err: {}", util::truncate(e, 160)),
            Err(p) => format!("panic at {}", p.site),
        };
        log.push(json!({"op": what, "link": pkgs, "result": got, "model": expect_ok}));
        match r {
            Ok(Ok(())) if !expect_ok => case.violation("stale-link-accepted:core-not-reachable-from-main".to_string(), format!("{}: link of {:?} succeeded although Extra was built against another interface of Lib", what, pkgs), json!({"history": log.clone(), "variant": variant})),
            Ok(Err(e)) if expect_ok => case.violation("consistent-link-rejected:extra-core".to_string(), format!("{}: link of {:?} failed although every package was built against the current interfaces: {}", what, pkgs, util::truncate(&e, 160)), json!({"history": log.clone(), "variant": variant})),
            Err(p) => case.inconclusive(format!("compiler panic at {} (a C04 event)", p.site)),
            _ => case.count(if expect_ok { "links_expected_ok" } else { "links_expected_fail" }, 1),
        }
    };
    step("fresh build of all three", &["Main", "Lib", "Extra"], true, &mut log, case);
    if !write("Lib/lib.gom", lib_v2) {
        let _ = std::fs::remove_dir_all(&root);
        return;
    }
    let rebuilt = runner::guard(|| -> Result<(), String> {
        build("Lib", "Lib/lib.gom")?;
        build("Main", "main.gom")
    });
    if !matches!(rebuilt, Ok(Ok(()))) {
        case.count("extra_core_rebuild_failed", 1);
        let _ = std::fs::remove_dir_all(&root);
        return;
    }
    log.push(json!({"op": "edit Lib (interface-visible), rebuild Lib and Main, not Extra"}));
    step("stale Extra linked along", &["Main", "Lib", "Extra"], false, &mut log, case);
    step("stale Extra listed first", &["Extra", "Main", "Lib"], false, &mut log, case);
    step("without Extra", &["Main", "Lib"], true, &mut log, case);
    if matches!(runner::guard(|| build("Extra", "Extra/lib.gom")), Ok(Ok(()))) {
        log.push(json!({"op": "rebuild Extra"}));
        step("after rebuilding Extra", &["Main", "Lib", "Extra"], true, &mut log, case);
    }
    let _ = std::fs::remove_dir_all(&root);
}

fn run(ctx: &mut Ctx) {
    let tier = ctx.tier;
    let seed = ctx.seed;
    let scratch = crate::capi::scratch_dir().clone();
    if ctx.replay_input.is_some() {
        // histories are deterministic from (seed, id); replay re-runs the quick tier of this shard layout
        println!("replay: re-run `./check C15 quick` with the seed stored in the replay file");
        return;
    }
    // Part A1: exhaustive histories on the 2-package project
    let alpha = exhaustive_alphabet();
    let maxlen = tier.pick(3usize, 5usize);
    let mut idx = 0u64;
    for len in 0..=maxlen {
        let total = (alpha.len() as u64).pow(len as u32);
        for code in 0..total {
            idx += 1;
            if !ctx.mine(idx) {
                continue;
            }
            let mut ops = Vec::new();
            let mut x = code;
            for _ in 0..len {
                ops.push(alpha[(x % alpha.len() as u64) as usize].clone());
                x /= alpha.len() as u64;
            }
            let mut rng = Rng::keyed(seed, "c15-exh", len as u64, code);
            let tag = format!("exhaustive-{}-{}-{}", ctx.shard, len, code);
            ctx.case(&tag.clone(), |c| run_history(c, two_package_project(), &ops, &mut rng, &scratch, &tag));
        }
    }
    if ctx.shard == 0 {
        ctx.add_stat("exhaustive_history_max_len", maxlen as u64);
    }
    // Part A2: random histories on larger graphs
    let nh = tier.pickn(300u64, 12_000u64) / ctx.nshards as u64 + 1;
    for i in 0..nh {
        let mut rng = Rng::keyed(seed, "c15-rand", ctx.shard as u64, i);
        let proj = Project::generate(&mut rng, 4);
        let n = proj.libs.len();
        let len = 1 + rng.below(30);
        let mut ops = Vec::new();
        for _ in 0..len {
            let k = rng.below(n + 1);
            ops.push(match rng.below(10) {
                0 | 1 => Op::EditBody(k),
                2 | 3 | 4 => Op::EditIface(k, rng.below(6) as u8),
                5 => Op::Check(k),
                6 | 7 | 8 => Op::Build(k),
                _ => Op::Link,
            });
        }
        let tag = format!("random-{}-{}", ctx.shard, i);
        ctx.case(&tag.clone(), |c| run_history(c, proj, &ops, &mut rng, &scratch, &tag));
    }
    // Part B: artifact fault enumeration
    let nf = tier.pickn(16u64, 160u64) / ctx.nshards as u64 + 1;
    let max_leaves = tier.pick(60usize, 100_000usize);
    for i in 0..nf {
        let mut rng = Rng::keyed(seed, "c15-fault", ctx.shard as u64, i);
        let proj = if i == 0 { two_package_project() } else { Project::generate(&mut rng, 3) };
        let tag = format!("{}-{}", ctx.shard, i);
        ctx.case(&format!("faults/{}", tag), |c| {
            match build_all(proj, &scratch, &tag) {
                Some(b) => {
                    fault_enumeration(c, &b, &mut rng, max_leaves);
                    let _ = std::fs::remove_dir_all(&b.root);
                }
                None => c.inconclusive("could not build the project used for fault enumeration"),
            }
        });
    }
    for variant in 0..3usize {
        if ctx.mine(950_000 + variant as u64) {
            let scratch = crate::capi::scratch_dir().clone();
            ctx.case(&format!("extra-core/{}", variant), |c| extra_core_scenario(c, &scratch, variant));
        }
    }
    let _ = Tier::Quick;
    crate::capi::cleanup_scratch();
}
