//! C20: editor queries are crash-free and agree with the compiler.
//!
//! Part A (crash monitor): hover / dot / colon-colon queries at many positions of
//! corpus files, their prefixes and mutations, and positions outside the text.
//! Part B (agreement monitor): templated programs whose types and members are
//! known by construction; hover must report the annotated type, completions must
//! name members that exist, and inserting a completion must type-check.

use crate::capi;
use crate::mutators;
use crate::props::c12::corpus_files;
use crate::runner::{self, Case, Ctx, PropSpec};
use crate::util::{self, Rng, hash_str};
use compiler::query;
use serde_json::json;
use std::path::Path;

pub static SPEC: PropSpec = PropSpec {
    id: "C20",
    level: "exploration",
    rule: "queries = (text, line, col, kind) with kind in {hover, dot, colon-colon}; texts: corpus files, prefixes cut at token boundaries, 1-3-edit token/char mutations, templated programs with known types/members, and a two-package project in which Main and the imported package define equally named types with different members (completion after paths of 1-3 qualifiers); positions: token boundaries, after every '.' and '::', byte columns inside multi-byte characters (every byte column of four texts with non-ASCII strings and comments), one past line ends, past EOF, u32::MAX; a query is non-trivial when its text differs from every corpus file or it is an agreement query; distinct by hash of (text, position, kind)",
    eval_counter: "queries",
    assumptions: &[
        "hover agreement is checked against the type written in an annotation (binder, later use, and an unannotated alias) and, for 32 expression positions (callee paths of UFCS / inherent / dot / generic calls, field names, constructors, literals, arguments), against the declared signature with Self and type parameters instantiated",
        "completion soundness is judged against the member sets of the templated declarations; completeness is recorded, not required",
        "line/col use the line-index crate's convention (0-based line, UTF-8 byte column)",
    ],
    crash_is_violation: true,
    stack_mib: 8,
    case_cpu_s: 20,
    shards: 0,
    run,
    floors: &[("queries", 20_000, 1_000_000), ("hover_agreement_checked", 200, 5_000), ("dot_items_checked", 50, 1_000), ("colon_items_checked", 50, 1_000), ("insertions_typechecked", 50, 1_000), ("qualified_path_nonempty_answers", 100, 3_000), ("queries_inside_a_character", 60, 60), ("hover_pattern_binders_checked", 1_000, 30_000)],
    finish: None,
};

fn line_col(src: &str, offset: usize) -> (u32, u32) {
    let mut line = 0u32;
    let mut last = 0usize;
    for (i, b) in src.bytes().enumerate() {
        if i >= offset {
            break;
        }
        if b == b'\n' {
            line += 1;
            last = i + 1;
        }
    }
    (line, (offset - last) as u32)
}

fn p() -> &'static Path {
    Path::new("dummy")
}

/// Run the three queries at one position; any panic is a finding.
fn query_all(case: &mut Case, wl: &str, src: &str, line: u32, col: u32) {
    case.count("queries", 3);
    case.count(&format!("queries_{}", wl), 3);
    case.nontrivial(hash_str(src) ^ ((line as u64) << 32 | col as u64).wrapping_mul(0x9E3779B97F4A7C15));
    let r = runner::guard(|| {
        let h = query::hover_type(p(), src, line, col);
        let d = query::dot_completions(p(), src, line, col);
        let c = query::colon_colon_completions(p(), src, line, col);
        (h.is_ok(), d.map(|v| v.len()), c.map(|v| v.len()))
    });
    match r {
        Ok((h, d, c)) => {
            if h {
                case.count("hover_ok", 1);
            }
            if d.is_some() {
                case.count("dot_some", 1);
            }
            if c.is_some() {
                case.count("colon_some", 1);
            }
        }
        Err(pn) => {
            let sig = runner::panic_signature(&pn);
            case.violation(
                sig,
                format!("query panicked at {}: {}", pn.site, util::truncate(&pn.message, 160)),
                json!({"input": src, "line": line, "col": col, "workload": wl}),
            );
        }
    }
}

fn crash_queries(case: &mut Case, wl: &str, src: &str, rng: &mut Rng, max_pos: usize) {
    runner::note_input(src);
    // candidate offsets: token boundaries
    let toks = lexer::lex(src);
    let mut offs: Vec<usize> = Vec::new();
    for t in &toks {
        let en: usize = t.range.end().into();
        let st: usize = t.range.start().into();
        if t.text == "." || t.text == "::" {
            offs.push(en);
            offs.push(en);
        }
        offs.push(st);
        offs.push(en);
        if en > st + 1 {
            offs.push(st + 1);
        }
    }
    drop(toks);
    offs.push(src.len());
    offs.retain(|o| *o <= src.len());
    rng.shuffle(&mut offs);
    offs.truncate(max_pos);
    // columns that fall inside a multi-byte character (a column is a byte count: an editor may send any)
    let mut inside: Vec<usize> = src.char_indices().filter(|(_, ch)| ch.len_utf8() > 1).flat_map(|(i, ch)| (1..ch.len_utf8()).map(move |k| i + k)).collect();
    rng.shuffle(&mut inside);
    inside.truncate(max_pos.max(4));
    offs.extend(inside);
    for o in offs {
        let (l, c) = line_col(src, o);
        query_all(case, wl, src, l, c);
    }
    // positions outside the text
    let nlines = src.matches('\n').count() as u32;
    for (l, c) in [
        (0, u32::MAX),
        (u32::MAX, 0),
        (u32::MAX, u32::MAX),
        (nlines + 1, 0),
        (nlines + 5, 7),
        (nlines, 100_000),
        (0, 1 + src.lines().next().map(|x| x.len()).unwrap_or(0) as u32),
    ] {
        query_all(case, "outside", src, l, c);
    }
}

// ---------- Part B: templated agreement ----------

const DECLS: &str = "struct S { a: int32, b: string }\nstruct P[A, B] { x: A, y: B }\nenum E { Ea, Eb(int32) }\nenum Opt[T] { Some(T), None }\ntrait Tr { fn tm(Self) -> int32; fn tn(Self, int32) -> string; }\nimpl Tr for S { fn tm(self: S) -> int32 { self.a } fn tn(self: S, k: int32) -> string { self.b } }\nimpl S { fn get(self: S) -> int32 { self.a } fn label(self: S, p: string) -> string { p + self.b } fn gone(self: S) -> S { self } }\nimpl[A, B] P[A, B] { fn first(self: P[A, B]) -> A { self.x } }\n";

/// (type text, value expression)
const TYPED_VALUES: &[(&str, &str)] = &[
    ("int8", "1i8"),
    ("int16", "2i16"),
    ("int32", "3"),
    ("int64", "4i64"),
    ("uint8", "5u8"),
    ("uint16", "6u16"),
    ("uint32", "7u32"),
    ("uint64", "8u64"),
    ("float32", "1.5f32"),
    ("float64", "2.5"),
    ("bool", "true"),
    ("string", "\"s\""),
    ("unit", "()"),
    ("(int32, bool)", "(1, true)"),
    ("(string, (int32, unit))", "(\"a\", (1, ()))"),
    ("[int32; 2]", "[1, 2]"),
    ("[bool; 1]", "[true]"),
    ("Vec[int32]", "vec_new()"),
    ("Vec[(int32, bool)]", "vec_new()"),
    ("Ref[int32]", "ref(1)"),
    ("Ref[string]", "ref(\"x\")"),
    ("S", "S { a: 1, b: \"x\" }"),
    ("E", "Eb(1)"),
    ("Opt[int32]", "Some(1)"),
    ("Opt[string]", "None"),
    ("P[int32, bool]", "P { x: 1, y: true }"),
    ("(int32) -> int32", "|q: int32| q + 1"),
    ("() -> unit", "|| ()"),
    ("(int32, bool) -> string", "|q: int32, w: bool| \"r\""),
    ("Ref[S]", "ref(S { a: 1, b: \"x\" })"),
    ("[Opt[int32]; 1]", "[Some(1)]"),
    ("(S, E)", "(S { a: 1, b: \"x\" }, Ea)"),
    ("Vec[S]", "vec_new()"),
];

fn norm(s: &str) -> String {
    s.chars().filter(|c| !c.is_whitespace()).collect()
}

struct Member {
    recv_ty: &'static str,
    recv_val: &'static str,
    fields: &'static [&'static str],
    methods: &'static [&'static str],
}

const RECEIVERS: &[Member] = &[
    Member { recv_ty: "S", recv_val: "S { a: 1, b: \"x\" }", fields: &["a", "b"], methods: &["get", "label", "gone", "tm", "tn"] },
    Member { recv_ty: "P[int32, bool]", recv_val: "P { x: 1, y: true }", fields: &["x", "y"], methods: &["first"] },
    Member { recv_ty: "E", recv_val: "Ea", fields: &[], methods: &[] },
    Member { recv_ty: "int32", recv_val: "1", fields: &[], methods: &["to_string"] },
    Member { recv_ty: "(int32, bool)", recv_val: "(1, true)", fields: &["0", "1"], methods: &[] },
    Member { recv_ty: "Ref[S]", recv_val: "ref(S { a: 1, b: \"x\" })", fields: &["a", "b"], methods: &["get", "label", "gone", "tm", "tn"] },
];

struct Namespace {
    ns: &'static str,
    members: &'static [&'static str],
    nullary_values: &'static [&'static str],
}

const NAMESPACES: &[Namespace] = &[
    Namespace { ns: "E", members: &["Ea", "Eb"], nullary_values: &["Ea"] },
    Namespace { ns: "Opt", members: &["Some", "None"], nullary_values: &[] },
    Namespace { ns: "S", members: &["get", "label", "gone", "tm", "tn"], nullary_values: &[] },
    Namespace { ns: "Tr", members: &["tm", "tn"], nullary_values: &[] },
    Namespace { ns: "P", members: &["first"], nullary_values: &[] },
];

fn typecheck_errors(src: &str) -> Result<Vec<String>, String> {
    let path = capi::single_root().join("main.gom");
    match compiler::pipeline::pipeline::typecheck_with_packages(&path, src) {
        Ok((_t, _g, d)) => Ok(d
            .iter()
            .filter(|x| x.severity() == diagnostics::Severity::Error)
            .map(|x| x.message().to_string())
            .collect()),
        Err(e) => Ok(capi::err_messages(&e)),
    }
}

fn agreement_hover(case: &mut Case, rng: &mut Rng) {
    // build a program with a random subset of typed values
    let mut idx: Vec<usize> = (0..TYPED_VALUES.len()).collect();
    rng.shuffle(&mut idx);
    idx.truncate(3 + rng.below(6));
    let mut src = String::from(DECLS);
    src.push_str("fn main() {\n");
    let mut probes: Vec<(usize, &'static str, &'static str)> = Vec::new(); // (offset, expected type, what)
    for (k, i) in idx.iter().enumerate() {
        let (ty, val) = TYPED_VALUES[*i];
        let pad = " ".repeat(rng.below(3));
        src.push_str("    let ");
        probes.push((src.len(), ty, "annotated binder"));
        src.push_str(&format!("v{}{}: {} = {};\n", k, pad, ty, val));
        src.push_str("    let ");
        probes.push((src.len(), ty, "alias binder"));
        src.push_str(&format!("u{} = ", k));
        probes.push((src.len(), ty, "use"));
        src.push_str(&format!("v{};\n", k));
    }
    src.push_str("    ()\n}\n");
    runner::note_input(&src);
    // the template must type-check, else the agreement check is meaningless
    match runner::guard(|| typecheck_errors(&src)) {
        Ok(Ok(errs)) if errs.is_empty() => {}
        Ok(Ok(errs)) => {
            case.count("template_rejected", 1);
            case.inconclusive(format!("hover template rejected by the typer: {}", util::truncate(&errs.join("; "), 200)));
            return;
        }
        _ => {
            case.count("template_rejected", 1);
            return;
        }
    }
    for (off, ty, what) in probes {
        let (l, c) = line_col(&src, off);
        case.count("queries", 1);
        case.count("queries_agreement", 1);
        case.nontrivial(hash_str(&src) ^ (off as u64).wrapping_mul(0x9E3779B97F4A7C15));
        match runner::guard(|| query::hover_type(p(), &src, l, c)) {
            Ok(Ok(got)) => {
                case.count("hover_agreement_checked", 1);
                if norm(&got) != norm(ty) {
                    case.violation(
                        format!("hover-disagrees:{}:{}", what, norm(ty)),
                        format!("hover on {} of type `{}` reports `{}`", what, ty, got),
                        json!({"input": src, "line": l, "col": c, "expected": ty, "got": got, "what": what}),
                    );
                }
            }
            Ok(Err(e)) => {
                case.count("hover_agreement_checked", 1);
                case.violation(
                    format!("hover-missing:{}:{}", what, norm(ty)),
                    format!("hover on {} of type `{}` returns an error: {}", what, ty, e),
                    json!({"input": src, "line": l, "col": c, "expected": ty, "error": e, "what": what}),
                );
            }
            Err(pn) => {
                case.violation(
                    runner::panic_signature(&pn),
                    format!("hover panicked at {}", pn.site),
                    json!({"input": src, "line": l, "col": c}),
                );
            }
        }
    }
    case.sample(json!({"workload":"hover_agreement","text": util::truncate(&src[DECLS.len()..], 400)}));
}

/// hover on pattern binders of programs that have MORE patterns than expressions (nested tuple / struct / constructor
/// patterns, arm bodies that are single literals), in functions placed first, in the middle and last in the file
fn agreement_hover_patterns(case: &mut Case, rng: &mut Rng) {
    let decls = "struct Px { r: int32, g: bool, name: string }\nenum Col { Rgb(int32, int32, int32), Named(string), Gray(bool) }\n";
    // one match function: `@name:type@` marks a binder and its type
    let nfn = 2 + rng.below(3);
    let mut src = String::from(decls);
    let mut probes: Vec<(usize, &'static str, String)> = Vec::new();
    let mut uniq = 0usize;
    let mut binder = |src: &mut String, probes: &mut Vec<(usize, &'static str, String)>, ty: &'static str| {
        uniq += 1;
        let n = format!("b{}", uniq);
        probes.push((src.len(), ty, n.clone()));
        src.push_str(&n);
    };
    for k in 0..nfn {
        src.push_str(&format!("fn pick{}(c: Col, p: Px, t: (int32, (bool, string))) -> int32 {{\n    match (c, p, t) {{\n", k));
        let arms = 2 + rng.below(3);
        for a in 0..arms {
            src.push_str("        (");
            match (a + k) % 3 {
                0 => {
                    src.push_str("Col::Rgb(");
                    binder(&mut src, &mut probes, "int32");
                    src.push_str(", ");
                    binder(&mut src, &mut probes, "int32");
                    src.push_str(", ");
                    binder(&mut src, &mut probes, "int32");
                    src.push(')');
                }
                1 => {
                    src.push_str("Col::Named(");
                    binder(&mut src, &mut probes, "string");
                    src.push(')');
                }
                _ => {
                    src.push_str("Col::Gray(");
                    binder(&mut src, &mut probes, "bool");
                    src.push(')');
                }
            }
            src.push_str(", Px { r: ");
            binder(&mut src, &mut probes, "int32");
            src.push_str(", g: ");
            binder(&mut src, &mut probes, "bool");
            src.push_str(", name: ");
            binder(&mut src, &mut probes, "string");
            src.push_str(" }, (");
            binder(&mut src, &mut probes, "int32");
            src.push_str(", (");
            binder(&mut src, &mut probes, "bool");
            src.push_str(", ");
            binder(&mut src, &mut probes, "string");
            src.push_str(&format!("))) => {},\n", a + 1));
        }
        src.push_str("        (");
        binder(&mut src, &mut probes, "Col");
        src.push_str(", ");
        binder(&mut src, &mut probes, "Px");
        src.push_str(", ");
        binder(&mut src, &mut probes, "(int32, (bool, string))");
        src.push_str(") => 0,\n    }\n}\n");
    }
    src.push_str("fn main() -> unit {\n    let ");
    probes.push((src.len(), "Px", "px".into()));
    src.push_str("px: Px = Px { r: 1, g: true, name: \"n\" };\n");
    // destructuring lets, annotated and not: each inner binder has its component's type, not the annotation's
    // (added after a seeded change that answered the whole annotation for binders of an annotated destructuring let)
    src.push_str("    let (");
    binder(&mut src, &mut probes, "int32");
    src.push_str(", ");
    binder(&mut src, &mut probes, "string");
    src.push_str("): (int32, string) = (1, \"s\");\n    let Px { r: ");
    binder(&mut src, &mut probes, "int32");
    src.push_str(", g: ");
    binder(&mut src, &mut probes, "bool");
    src.push_str(", name: ");
    binder(&mut src, &mut probes, "string");
    src.push_str(" }: Px = Px { r: 2, g: false, name: \"m\" };\n    let ((");
    binder(&mut src, &mut probes, "int32");
    src.push_str(", ");
    binder(&mut src, &mut probes, "bool");
    src.push_str("), ");
    binder(&mut src, &mut probes, "string");
    src.push_str("): ((int32, bool), string) = ((1, true), \"s\");\n    let (");
    binder(&mut src, &mut probes, "int32");
    src.push_str(", (");
    binder(&mut src, &mut probes, "bool");
    src.push_str(", ");
    binder(&mut src, &mut probes, "string");
    src.push_str(")) = (3, (true, \"u\"));\n");
    src.push_str("    let _ = pick0(Col::Gray(true), px, (1, (true, \"s\")));\n    ()\n}\n");
    runner::note_input(&src);
    match runner::guard(|| typecheck_errors(&src)) {
        Ok(Ok(errs)) if errs.is_empty() => {}
        Ok(Ok(errs)) => {
            case.count("template_rejected", 1);
            case.inconclusive(format!("pattern hover template rejected by the typer: {}", util::truncate(&errs.join("; "), 200)));
            return;
        }
        _ => {
            case.count("template_rejected", 1);
            return;
        }
    }
    for (off, ty, name) in probes {
        let (l, c) = line_col(&src, off);
        case.count("queries", 1);
        case.count("queries_agreement", 1);
        case.nontrivial(hash_str(&src) ^ (off as u64).wrapping_mul(0x9E3779B97F4A7C15));
        match runner::guard(|| query::hover_type(p(), &src, l, c)) {
            Ok(Ok(got)) => {
                case.count("hover_agreement_checked", 1);
                case.count("hover_pattern_binders_checked", 1);
                if norm(&got) != norm(ty) {
                    case.violation(
                        format!("hover-disagrees:pattern-binder:{}", norm(ty)),
                        format!("hover on the pattern binder {} of type `{}` reports `{}`", name, ty, got),
                        json!({"input": src, "line": l, "col": c, "expected": ty, "got": got, "what": "pattern binder in a pattern-dense program"}),
                    );
                    return;
                }
            }
            Ok(Err(e)) => {
                case.violation(
                    format!("hover-missing:pattern-binder:{}", norm(ty)),
                    format!("hover on the pattern binder {} of type `{}` returns an error: {}", name, ty, e),
                    json!({"input": src, "line": l, "col": c, "expected": ty, "error": e}),
                );
                return;
            }
            Err(pn) => {
                case.violation(runner::panic_signature(&pn), format!("hover panicked at {}", pn.site), json!({"input": src, "line": l, "col": c}));
                return;
            }
        }
    }
}

/// (statement text with `@` marking the hover position, expected type, what)
const EXPR_PROBES: &[(&str, &str, &str)] = &[
    ("let e = @Tr::tm(sv);", "(S) -> int32", "trait path of a UFCS call"),
    ("let e = Tr::@tm(sv);", "(S) -> int32", "method of a UFCS call"),
    ("let e = Tr::@tn(sv, 2);", "(S, int32) -> string", "method of a UFCS call"),
    ("let e = Tr::@tm(5);", "(int32) -> int32", "method of a UFCS call on a primitive"),
    ("let e = Tr::@tn(7, 2);", "(int32, int32) -> string", "method of a UFCS call on a primitive"),
    ("let e = Tr::@tm(dv);", "(dyn Tr) -> int32", "method of a UFCS call on a dyn value"),
    ("let e = Tr::tm(@sv);", "S", "receiver argument"),
    ("let e = S::@get(sv);", "(S) -> int32", "inherent method path"),
    ("let e = S::@label(sv, \"p\");", "(S, string) -> string", "inherent method path"),
    ("let e = sv.@get();", "(S) -> int32", "method name of a dot call"),
    ("let e = sv.@gone();", "(S) -> S", "method name of a dot call"),
    ("let e = sv.@a;", "int32", "field name"),
    ("let e = sv.@b;", "string", "field name"),
    ("let e = @inc(3);", "(int32) -> int32", "function name in a call"),
    ("let e = @idg(true);", "(bool) -> bool", "generic function name in a call"),
    ("let e = @idg(sv);", "(S) -> S", "generic function name in a call"),
    ("let e = @idg(3);", "(int32) -> int32", "generic function name in a call"),
    ("let e = pv.@first();", "(P[int32, bool]) -> int32", "generic inherent method"),
    ("let e = P::@first(pv);", "(P[int32, bool]) -> int32", "generic inherent method path"),
    ("let e = @gb(sv);", "(S) -> int32", "bounded generic function name"),
    ("let e = @Eb(1);", "E", "constructor"),
    ("let e = @Some(1);", "Opt[int32]", "generic constructor"),
    ("let e = (1, @\"lit\");", "string", "literal"),
    ("let e = inc(@3);", "int32", "literal argument"),
    // types that are only fixed by a later use
    ("let @lva = vec_new(); let lvb = vec_push(lva, 3);", "Vec[int32]", "binder whose type a later use fixes"),
    ("let lvc = @vec_new(); let lvd = vec_push(lvc, \"s\");", "() -> Vec[string]", "builtin call whose type a later use fixes"),
    ("let @loa = None; let lob = if true { loa } else { Some(1) };", "Opt[int32]", "binder whose type a later use fixes"),
    ("let loc = @None; let lod = if true { loc } else { Some(true) };", "Opt[bool]", "constructor whose type a later use fixes"),
    ("let @lra = ref(None); let lrb = ref_set(lra, Some(2));", "Ref[Opt[int32]]", "binder whose type a later use fixes"),
    ("let @looa = Some(None); let loob = match looa { Some(Some(z)) => z + 1, _ => 0 };", "Opt[Opt[int32]]", "binder whose type a later match fixes"),
    ("let looc = Some(@None); let lood = match looc { Some(Some(z)) => z + 1, _ => 0 };", "Opt[int32]", "nested constructor whose type a later match fixes"),
    ("let lq: Vec[int32] = @vec_new();", "() -> Vec[int32]", "builtin call under an annotation"),
];

fn agreement_hover_exprs(case: &mut Case, rng: &mut Rng) {
    let mut src = String::from(DECLS);
    src.push_str("impl Tr for int32 { fn tm(self: int32) -> int32 { self } fn tn(self: int32, k: int32) -> string { \"i\" } }\nfn inc(x: int32) -> int32 { x + 1 }\nfn idg[T](x: T) -> T { x }\nfn gb[T: Tr](t: T) -> int32 { t.tm() }\n");
    src.push_str("fn main() {\n    let sv = S { a: 1, b: \"x\" };\n    let dv: dyn Tr = sv;\n    let pv = P { x: 1, y: true };\n");
    let mut idx: Vec<usize> = (0..EXPR_PROBES.len()).collect();
    rng.shuffle(&mut idx);
    idx.truncate(6 + rng.below(8));
    let mut probes: Vec<(usize, &'static str, &'static str)> = Vec::new();
    for (k, i) in idx.iter().enumerate() {
        let (text, ty, what) = EXPR_PROBES[*i];
        let text = text.replacen("let e", &format!("let e{}", k), 1);
        let at = text.find('@').unwrap();
        src.push_str(&" ".repeat(4 + rng.below(3)));
        probes.push((src.len() + at, ty, what));
        src.push_str(&text.replace('@', ""));
        src.push('\n');
    }
    src.push_str("    ()\n}\n");
    runner::note_input(&src);
    match runner::guard(|| typecheck_errors(&src)) {
        Ok(Ok(errs)) if errs.is_empty() => {}
        Ok(Ok(errs)) => {
            case.count("template_rejected", 1);
            case.inconclusive(format!("hover template rejected by the typer: {}", util::truncate(&errs.join("; "), 200)));
            return;
        }
        _ => {
            case.count("template_rejected", 1);
            return;
        }
    }
    for (off, ty, what) in probes {
        let (l, c) = line_col(&src, off);
        case.count("queries", 1);
        case.count("queries_agreement", 1);
        case.nontrivial(hash_str(&src) ^ (off as u64).wrapping_mul(0x9E3779B97F4A7C15));
        match runner::guard(|| query::hover_type(p(), &src, l, c)) {
            Ok(Ok(got)) => {
                case.count("hover_agreement_checked", 1);
                case.count("hover_expression_probes", 1);
                if norm(&got) != norm(ty) {
                    case.violation(
                        format!("hover-disagrees:{}:{}", what, norm(ty)),
                        format!("hover on {} of type `{}` reports `{}`", what, ty, got),
                        json!({"input": src, "line": l, "col": c, "expected": ty, "got": got, "what": what}),
                    );
                }
            }
            Ok(Err(e)) => {
                case.count("hover_agreement_checked", 1);
                case.violation(
                    format!("hover-missing:{}:{}", what, norm(ty)),
                    format!("hover on {} of type `{}` returns an error: {}", what, ty, e),
                    json!({"input": src, "line": l, "col": c, "expected": ty, "error": e, "what": what}),
                );
            }
            Err(pn) => {
                case.violation(runner::panic_signature(&pn), format!("hover panicked at {}", pn.site), json!({"input": src, "line": l, "col": c}));
            }
        }
    }
    case.sample(json!({"workload":"hover_agreement_expressions","probes": EXPR_PROBES.len()}));
}

fn agreement_dot(case: &mut Case, rng: &mut Rng) {
    let m = &RECEIVERS[rng.below(RECEIVERS.len())];
    // choose a prefix of one of the members (or empty)
    let all: Vec<&str> = m.fields.iter().chain(m.methods.iter()).copied().collect();
    let prefix: String = if all.is_empty() || rng.chance(1, 2) {
        String::new()
    } else {
        let w = rng.pick(&all);
        w[..1 + rng.below(w.len())].to_string()
    };
    let mut src = String::from(DECLS);
    src.push_str(&format!("fn main() {{\n    let r: {} = {};\n    let z = r.", m.recv_ty, m.recv_val));
    let head_len = src.len();
    src.push_str(&prefix);
    let cursor = src.len();
    let tail = ";\n    ()\n}\n";
    src.push_str(tail);
    runner::note_input(&src);
    let (l, c) = line_col(&src, cursor);
    case.count("queries", 1);
    case.count("queries_agreement", 1);
    case.nontrivial(hash_str(&src));
    let items = match runner::guard(|| query::dot_completions(p(), &src, l, c)) {
        Ok(v) => v.unwrap_or_default(),
        Err(pn) => {
            case.violation(runner::panic_signature(&pn), format!("dot_completions panicked at {}", pn.site), json!({"input": src, "line": l, "col": c}));
            return;
        }
    };
    case.count("dot_queries_answered", 1);
    if items.is_empty() {
        case.count("dot_empty_answers", 1);
    }
    for it in &items {
        case.count("dot_items_checked", 1);
        let is_field = it.kind == query::DotCompletionKind::Field;
        let known = if is_field { m.fields.contains(&it.name.as_str()) } else { m.methods.contains(&it.name.as_str()) };
        if !known {
            case.violation(
                format!("dot-offers-nonmember:{}:{}", norm(m.recv_ty), it.name),
                format!("completion after a value of type `{}` offers {} `{}` which that type does not have", m.recv_ty, if is_field { "field" } else { "method" }, it.name),
                json!({"input": src, "line": l, "col": c, "item": it.name}),
            );
            continue;
        }
        if !it.name.starts_with(&prefix) {
            case.violation(
                format!("dot-ignores-prefix:{}", norm(m.recv_ty)),
                format!("completion `{}` does not start with the typed prefix `{}`", it.name, prefix),
                json!({"input": src, "line": l, "col": c, "item": it.name}),
            );
        }
        // insertion must type-check: fields as a projection; self-only methods as a call
        let inserted = if is_field {
            Some(format!("{}{}{}", &src[..head_len], it.name, tail))
        } else if matches!(it.name.as_str(), "get" | "gone" | "first" | "to_string") {
            Some(format!("{}{}(){}", &src[..head_len], it.name, tail))
        } else {
            None
        };
        if let Some(text) = inserted {
            case.count("insertions_typechecked", 1);
            match runner::guard(|| typecheck_errors(&text)) {
                Ok(Ok(errs)) => {
                    if !errs.is_empty() {
                        case.violation(
                            format!("dot-insertion-ill-typed:{}:{}", norm(m.recv_ty), it.name),
                            format!("inserting offered completion `{}` after a value of type `{}` does not type-check: {}", it.name, m.recv_ty, util::truncate(&errs.join("; "), 200)),
                            json!({"input": src, "line": l, "col": c, "item": it.name, "inserted": text, "errors": errs}),
                        );
                    }
                }
                Ok(Err(_)) => {}
                Err(pn) => {
                    case.violation(runner::panic_signature(&pn), format!("typecheck panicked at {}", pn.site), json!({"input": text}));
                }
            }
        }
    }
    // completeness is an observation only
    for f in m.fields.iter().chain(m.methods.iter()) {
        if f.starts_with(&prefix) && !items.iter().any(|i| i.name == *f) {
            case.count("dot_members_not_offered", 1);
        }
    }
    case.sample(json!({"workload":"dot_agreement","receiver": m.recv_ty, "prefix": prefix, "offered": items.iter().map(|i| i.name.clone()).collect::<Vec<_>>()}));
}

/// `Ty::` completion on generic types that have a generic inherent block and blocks written for single instances
/// (`impl[T] Bx[T]`, `impl Bx[int32]`, `impl Bx[string]`): whatever is offered after the bare constructor must be
/// callable through that path - `Bx::<item>(receiver)` has to type-check for a receiver of the block's type (added after
/// a seeded change that offered the methods of every block of the constructor).
fn agreement_colon_instance_blocks(case: &mut Case, rng: &mut Rng) {
    // (type name, declarations, [(method, call arguments that fit the method's block)])
    let shapes: [(&str, &str, &[(&str, &str)]); 3] = [
        (
            "Bx",
            "struct Bx[T] { v: T }\nimpl[T] Bx[T] { fn get(self: Bx[T]) -> T { self.v } fn wrap(v: T) -> Bx[T] { Bx { v: v } } }\nimpl Bx[int32] { fn only_int(self: Bx[int32]) -> int32 { self.v + 1 } fn zero() -> Bx[int32] { Bx { v: 0 } } }\nimpl Bx[string] { fn only_str(self: Bx[string]) -> string { self.v } }\n",
            &[("get", "(Bx { v: 1 })"), ("wrap", "(true)"), ("only_int", "(Bx { v: 1 })"), ("zero", "()"), ("only_str", "(Bx { v: \"s\" })")],
        ),
        (
            "Opn",
            "enum Opn[T] { Sm(T), Nn }\nimpl Opn[int32] { fn oi(self: Opn[int32]) -> int32 { 1 } }\nimpl Opn[bool] { fn ob(self: Opn[bool]) -> bool { true } }\n",
            &[("oi", "(Opn::Sm(1))"), ("ob", "(Opn::Sm(true))"), ("Sm", "-"), ("Nn", "-")],
        ),
        (
            "Pr2",
            "struct Pr2[A, B] { a: A, b: B }\nimpl[A] Pr2[A, int32] { fn second_int(self: Pr2[A, int32]) -> int32 { self.b } }\nimpl[A, B] Pr2[A, B] { fn first(self: Pr2[A, B]) -> A { self.a } }\n",
            &[("second_int", "(Pr2 { a: true, b: 1 })"), ("first", "(Pr2 { a: true, b: 1 })")],
        ),
    ];
    let (ty, decls, methods) = shapes[rng.below(shapes.len())];
    let prefix: String = if rng.chance(1, 2) {
        String::new()
    } else {
        let w = methods[rng.below(methods.len())].0;
        w[..1 + rng.below(w.len())].to_string()
    };
    let mut src = String::from(decls);
    src.push_str(&format!("fn main() {{\n    let z = {}::", ty));
    let head_len = src.len();
    src.push_str(&prefix);
    let cursor = src.len();
    let tail = ";\n    ()\n}\n";
    src.push_str(tail);
    runner::note_input(&src);
    let (l, c) = line_col(&src, cursor);
    case.count("queries", 1);
    case.count("queries_agreement", 1);
    case.nontrivial(hash_str(&src));
    let items = match runner::guard(|| query::colon_colon_completions(p(), &src, l, c)) {
        Ok(v) => v.unwrap_or_default(),
        Err(pn) => {
            case.violation(runner::panic_signature(&pn), format!("colon_colon_completions panicked at {}", pn.site), json!({"input": src, "line": l, "col": c}));
            return;
        }
    };
    case.count("colon_instance_block_queries", 1);
    for it in &items {
        case.count("colon_items_checked", 1);
        let Some((_, args)) = methods.iter().find(|(m, _)| *m == it.name.as_str()) else {
            case.violation(format!("colon-offers-nonmember:{}:{}", ty, it.name), format!("completion after `{}::` offers `{}` which does not exist there", ty, it.name), json!({"input": src, "line": l, "col": c, "item": it.name}));
            continue;
        };
        if !it.name.starts_with(&prefix) {
            case.violation(format!("colon-ignores-prefix:{}", ty), format!("completion `{}` does not start with the typed prefix `{}`", it.name, prefix), json!({"input": src, "line": l, "col": c, "item": it.name}));
        }
        if *args == "-" {
            // a variant: the constructor path is covered by agreement_colon
            continue;
        }
        let text = format!("{}{}{}{}", &src[..head_len], it.name, args, tail);
        case.count("insertions_typechecked", 1);
        case.count("colon_instance_block_insertions", 1);
        if let Ok(Ok(errs)) = runner::guard(|| typecheck_errors(&text)) {
            if !errs.is_empty() {
                case.violation(
                    format!("colon-insertion-ill-typed:{}:{}", ty, it.name),
                    format!("`{}::` offers `{}`, but `{}::{}{}` does not type-check: {}", ty, it.name, ty, it.name, args, util::truncate(&errs.join("; "), 200)),
                    json!({"input": src, "inserted": text, "errors": errs}),
                );
            }
        }
    }
}

fn agreement_colon(case: &mut Case, rng: &mut Rng) {
    let ns = &NAMESPACES[rng.below(NAMESPACES.len())];
    let prefix: String = if rng.chance(1, 2) {
        String::new()
    } else {
        let w = rng.pick(ns.members);
        w[..1 + rng.below(w.len())].to_string()
    };
    let mut src = String::from(DECLS);
    src.push_str(&format!("fn main() {{\n    let z = {}::", ns.ns));
    let head_len = src.len();
    src.push_str(&prefix);
    let cursor = src.len();
    let tail = ";\n    ()\n}\n";
    src.push_str(tail);
    runner::note_input(&src);
    let (l, c) = line_col(&src, cursor);
    case.count("queries", 1);
    case.count("queries_agreement", 1);
    case.nontrivial(hash_str(&src));
    let items = match runner::guard(|| query::colon_colon_completions(p(), &src, l, c)) {
        Ok(v) => v.unwrap_or_default(),
        Err(pn) => {
            case.violation(runner::panic_signature(&pn), format!("colon_colon_completions panicked at {}", pn.site), json!({"input": src, "line": l, "col": c}));
            return;
        }
    };
    if items.is_empty() {
        case.count("colon_empty_answers", 1);
    }
    for it in &items {
        case.count("colon_items_checked", 1);
        if !ns.members.contains(&it.name.as_str()) {
            case.violation(
                format!("colon-offers-nonmember:{}:{}", ns.ns, it.name),
                format!("completion after `{}::` offers `{}` which does not exist there", ns.ns, it.name),
                json!({"input": src, "line": l, "col": c, "item": it.name}),
            );
            continue;
        }
        if !it.name.starts_with(&prefix) {
            case.violation(
                format!("colon-ignores-prefix:{}", ns.ns),
                format!("completion `{}` does not start with the typed prefix `{}`", it.name, prefix),
                json!({"input": src, "line": l, "col": c, "item": it.name}),
            );
        }
        if ns.nullary_values.contains(&it.name.as_str()) {
            let text = format!("{}{}{}", &src[..head_len], it.name, tail);
            case.count("insertions_typechecked", 1);
            if let Ok(Ok(errs)) = runner::guard(|| typecheck_errors(&text)) {
                if !errs.is_empty() {
                    case.violation(
                        format!("colon-insertion-ill-typed:{}:{}", ns.ns, it.name),
                        format!("inserting offered completion `{}::{}` does not type-check: {}", ns.ns, it.name, util::truncate(&errs.join("; "), 200)),
                        json!({"input": src, "inserted": text, "errors": errs}),
                    );
                }
            }
        }
    }
    for f in ns.members {
        if f.starts_with(&prefix) && !items.iter().any(|i| i.name == *f) {
            case.count("colon_members_not_offered", 1);
        }
    }
    case.sample(json!({"workload":"colon_agreement","namespace": ns.ns, "prefix": prefix, "offered": items.iter().map(|i| i.name.clone()).collect::<Vec<_>>()}));
}

/// completion after a path of TWO or more qualifiers (`Lib::Color::`, `Shape::Circle::`): Main and the imported
/// package define equally named types with different members, so an answer computed from part of the path shows
struct QNamespace {
    path: &'static str,
    members: &'static [&'static str],
    nullary_values: &'static [&'static str],
}
const Q_LIB: &str = "package Lib\n\nenum Color { Red, Green(int32) }\n\nstruct Pt { x: int32 }\n\nimpl Pt {\n    fn libget(self: Pt) -> int32 { self.x }\n}\n\ntrait Show {\n    fn libshow(Self) -> int32;\n}\n\nenum Shape { Round(int32), Sq }\n\nstruct Round { r: int32 }\n\nimpl Round {\n    fn librad(self: Round) -> int32 { self.r }\n}\n";
const Q_MAIN_DECLS: &str = "package Main\nimport Lib\n\nenum Color { Cyan, Magenta }\n\nimpl Color {\n    fn code(self: Color) -> int32 { 1 }\n}\n\nstruct Pt { y: int32 }\n\nimpl Pt {\n    fn mainget(self: Pt) -> int32 { self.y }\n}\n\ntrait Show {\n    fn mainshow(Self) -> int32;\n}\n\nstruct Sq { side: int32 }\n\nimpl Sq {\n    fn area(self: Sq) -> int32 { self.side }\n}\n\nenum Fig { Sq(int32), Dot }\n\n";
const Q_NAMESPACES: &[QNamespace] = &[
    QNamespace { path: "Lib::Color", members: &["Red", "Green"], nullary_values: &["Red"] },
    QNamespace { path: "Lib::Pt", members: &["libget"], nullary_values: &[] },
    QNamespace { path: "Lib::Show", members: &["libshow"], nullary_values: &[] },
    QNamespace { path: "Lib::Shape", members: &["Round", "Sq"], nullary_values: &["Sq"] },
    // nothing lives under a variant, whatever else is called like it
    QNamespace { path: "Lib::Shape::Round", members: &[], nullary_values: &[] },
    QNamespace { path: "Lib::Shape::Sq", members: &[], nullary_values: &[] },
    QNamespace { path: "Fig::Sq", members: &[], nullary_values: &[] },
    QNamespace { path: "Lib::Round", members: &["librad"], nullary_values: &[] },
    QNamespace { path: "Color", members: &["Cyan", "Magenta", "code"], nullary_values: &["Cyan"] },
    QNamespace { path: "Main::Color", members: &["Cyan", "Magenta", "code"], nullary_values: &["Cyan"] },
    QNamespace { path: "Pt", members: &["mainget"], nullary_values: &[] },
    QNamespace { path: "Sq", members: &["area"], nullary_values: &[] },
];

fn q_root() -> std::path::PathBuf {
    let root = capi::scratch_dir().join("c20-qualified");
    if !root.join("Lib/lib.gom").is_file() {
        let _ = std::fs::create_dir_all(root.join("Lib"));
        let _ = std::fs::write(root.join("Lib/lib.gom"), Q_LIB);
    }
    root
}

fn agreement_colon_qualified(case: &mut Case, rng: &mut Rng) {
    let ns = &Q_NAMESPACES[rng.below(Q_NAMESPACES.len())];
    let prefix: String = if ns.members.is_empty() || rng.chance(1, 2) {
        String::new()
    } else {
        let w = rng.pick(ns.members);
        w[..1 + rng.below(w.len())].to_string()
    };
    let main_path = q_root().join("main.gom");
    let mut src = String::from(Q_MAIN_DECLS);
    src.push_str(&format!("fn main() {{\n    let z = {}::", ns.path));
    let head_len = src.len();
    src.push_str(&prefix);
    let cursor = src.len();
    let tail = ";\n    ()\n}\n";
    src.push_str(tail);
    runner::note_input(&src);
    let (l, c) = line_col(&src, cursor);
    case.count("queries", 1);
    case.count("queries_agreement", 1);
    case.count("qualified_path_queries", 1);
    case.nontrivial(hash_str(&src));
    let items = match runner::guard(|| query::colon_colon_completions(&main_path, &src, l, c)) {
        Ok(v) => v.unwrap_or_default(),
        Err(pn) => {
            case.violation(runner::panic_signature(&pn), format!("colon_colon_completions panicked at {}", pn.site), json!({"input": src, "line": l, "col": c}));
            return;
        }
    };
    if !items.is_empty() {
        case.count("qualified_path_nonempty_answers", 1);
    }
    for it in &items {
        case.count("colon_items_checked", 1);
        if !ns.members.contains(&it.name.as_str()) {
            case.violation(
                format!("colon-offers-nonmember:{}:{}", ns.path, it.name),
                format!("completion after `{}::` offers `{}` which does not exist there", ns.path, it.name),
                json!({"input": src, "library": Q_LIB, "line": l, "col": c, "item": it.name}),
            );
            continue;
        }
        if !it.name.starts_with(&prefix) {
            case.violation(format!("colon-ignores-prefix:{}", ns.path), format!("completion `{}` does not start with the typed prefix `{}`", it.name, prefix), json!({"input": src, "line": l, "col": c, "item": it.name}));
        }
        if ns.nullary_values.contains(&it.name.as_str()) {
            let text = format!("{}{}{}", &src[..head_len], it.name, tail);
            case.count("insertions_typechecked", 1);
            let mp = main_path.clone();
            if let Ok(Ok((_t, _g, d))) = runner::guard(|| compiler::pipeline::pipeline::typecheck_with_packages(&mp, &text)) {
                let errs: Vec<String> = d.iter().filter(|x| x.severity() == diagnostics::Severity::Error).map(|x| x.message().to_string()).collect();
                if !errs.is_empty() {
                    case.violation(
                        format!("colon-insertion-ill-typed:{}:{}", ns.path, it.name),
                        format!("inserting offered completion `{}::{}` does not type-check: {}", ns.path, it.name, util::truncate(&errs.join("; "), 200)),
                        json!({"input": src, "library": Q_LIB, "inserted": text, "errors": errs}),
                    );
                }
            }
        }
    }
    if rng.chance(1, 8) {
        case.sample(json!({"workload":"colon_agreement_qualified","namespace": ns.path, "prefix": prefix, "offered": items.iter().map(|i| i.name.clone()).collect::<Vec<_>>()}));
    }
}

fn run(ctx: &mut Ctx) {
    if let Some(rep) = ctx.replay_input.clone() {
        let d = &rep["record"]["detail"];
        let input = d["input"].as_str().unwrap_or("").to_string();
        let l = d["line"].as_u64().unwrap_or(0) as u32;
        let c = d["col"].as_u64().unwrap_or(0) as u32;
        ctx.case("replay", |cs| query_all(cs, "replay", &input, l, c));
        return;
    }
    let tier = ctx.tier;
    let seed = ctx.seed;
    let corpus = corpus_files();
    // Part B first (cheap, deterministic count)
    let nb = tier.pickn(600u64, 20_000u64) / ctx.nshards as u64 + 1;
    for i in 0..nb {
        let mut rng = Rng::keyed(seed, "c20-agree", ctx.shard as u64, i);
        ctx.case(&format!("hover_agree/{}/{}", ctx.shard, i), |c| agreement_hover(c, &mut rng));
        ctx.case(&format!("hover_agree_expr/{}/{}", ctx.shard, i), |c| agreement_hover_exprs(c, &mut rng));
        ctx.case(&format!("dot_agree/{}/{}", ctx.shard, i), |c| agreement_dot(c, &mut rng));
        ctx.case(&format!("colon_agree/{}/{}", ctx.shard, i), |c| agreement_colon(c, &mut rng));
        ctx.case(&format!("colon_agree_qualified/{}/{}", ctx.shard, i), |c| agreement_colon_qualified(c, &mut rng));
        if i % 4 == 0 {
            ctx.case(&format!("colon_agree_instance_blocks/{}/{}", ctx.shard, i), |c| agreement_colon_instance_blocks(c, &mut rng));
        }
        if i % 8 == 0 {
            ctx.case(&format!("hover_agree_patterns/{}/{}", ctx.shard, i), |c| agreement_hover_patterns(c, &mut rng));
        }
    }
    // texts with multi-byte characters in strings, comments and next to `.` / `::`: every byte column of every line
    {
        let texts: [&str; 4] = [
            "struct P { x: int32, y: string }\nfn main() {\n    let p = P { x: 1, y: \"h\u{e9}llo \u{4e16}\u{754c}\" };\n    let s = \"\u{e9}\"; let q = p.x;\n    // caf\u{e9} \u{1F600} p.\n    let t = (p.y, \"\u{1F600}\").0;\n    ()\n}\n",
            "enum E { A, B }\nfn main() {\n    let s = \"\u{4e16}\"; let e = E::A;\n    let z = \"\u{e9}\u{e9}\u{e9}\" + s; E::\n}\n",
            "fn main() {\n    let s = \"\u{1F600}\u{1F600}\";\n    s.\n}\n",
            "// \u{4e16}\u{754c}\nfn f(x: int32) -> int32 { x } // \u{e9}\nfn main() { let _ = f(1); \u{e9} }\n",
        ];
        for (ti, text) in texts.iter().enumerate() {
            if !ctx.mine(90_000 + ti as u64) {
                continue;
            }
            ctx.case(&format!("multibyte/{}", ti), |c| {
                runner::note_input(text);
                for o in 0..=text.len() {
                    let (l, col) = line_col(text, o);
                    query_all(c, "multibyte", text, l, col);
                    if !text.is_char_boundary(o) {
                        c.count("queries_inside_a_character", 3);
                    }
                }
            });
        }
    }
    // Part A: corpus verbatim with many positions
    for (i, (name, text)) in corpus.iter().enumerate() {
        if !ctx.mine(i as u64) || text.len() > 20_000 {
            continue;
        }
        let mut rng = Rng::keyed(seed, "c20-corpus", i as u64, 0);
        let npos = tier.pick(12, 150);
        ctx.case(&format!("corpus/{}", name), |c| crash_queries(c, "corpus", text, &mut rng, npos));
    }
    // prefixes and mutations
    let pool: Vec<&str> = corpus.iter().map(|(_, t)| t.as_str()).filter(|t| t.len() < 5_000).collect();
    let n = tier.pickn(700u64, 40_000u64) / ctx.nshards as u64 + 1;
    for i in 0..n {
        let mut rng = Rng::keyed(seed, "c20-mut", ctx.shard as u64, i);
        let base = rng.pick(&pool);
        let (wl, text) = match rng.below(5) {
            0 | 1 => {
                // prefix at a token boundary (what an editor sees while typing)
                let toks = lexer::lex(base);
                let cut = if toks.is_empty() { 0 } else { usize::from(toks[rng.below(toks.len())].range.end()) };
                ("prefix", base[..cut].to_string())
            }
            2 | 3 => ("mutate_tokens", mutators::mutate_tokens(&mut rng, base)),
            _ => ("mutate_chars", crate::props::c12::mutate(&mut rng, base)),
        };
        ctx.case(&format!("{}/{}/{}", wl, ctx.shard, i), |c| {
            crash_queries(c, wl, &text, &mut rng, 6);
            if i < 2 {
                c.sample(json!({"workload": wl, "text": util::truncate(&text, 200)}));
            }
        });
    }
    capi::cleanup_scratch();
}
