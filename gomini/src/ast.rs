//! AST of the supported Go subset. Every expression, type expression and
//! statement carries a `line`; expressions, type expressions, declarations of
//! names and a few statements carry a unique node `id` used by the checker to
//! attach information in side tables.

pub type NodeId = u32;

#[derive(Clone, Debug)]
pub struct File {
    pub package: Ident,
    pub imports: Vec<Import>,
    pub decls: Vec<Decl>,
    /// number of node ids handed out (ids are 0..node_count)
    pub node_count: u32,
}

#[derive(Clone, Debug)]
pub struct Ident {
    pub name: String,
    pub line: u32,
    pub id: NodeId,
}

#[derive(Clone, Debug)]
pub struct Import {
    pub alias: Option<Ident>,
    pub path: String,
    pub line: u32,
}

#[derive(Clone, Debug)]
pub enum Decl {
    Func(FuncDecl),
    Type(TypeDecl),
    Var(VarSpec),
}

#[derive(Clone, Debug)]
pub struct Param {
    /// None for unnamed parameters (as in func types or `func f(int32)`)
    pub name: Option<Ident>,
    pub ty: TypeExpr,
}

#[derive(Clone, Debug)]
pub struct FuncDecl {
    pub name: Ident,
    pub recv: Option<Param>,
    pub params: Vec<Param>,
    pub results: Vec<Param>,
    pub body: Option<Block>,
    pub line: u32,
    /// line of the closing brace of the body
    pub end_line: u32,
}

#[derive(Clone, Debug)]
pub struct TypeDecl {
    pub name: Ident,
    pub alias: bool,
    pub ty: TypeExpr,
    pub line: u32,
}

#[derive(Clone, Debug)]
pub struct VarSpec {
    pub names: Vec<Ident>,
    pub ty: Option<TypeExpr>,
    pub values: Vec<Expr>,
    pub line: u32,
}

#[derive(Clone, Debug)]
pub struct Field {
    pub name: Ident,
    pub ty: TypeExpr,
    /// `T` or `pkg.T` written without a field name (embedded field). The
    /// checker reports `missing-field-type` when the name is not a type and
    /// Unsupported otherwise.
    pub embedded: bool,
}

#[derive(Clone, Debug)]
pub struct MethodSpec {
    pub name: Ident,
    pub params: Vec<Param>,
    pub results: Vec<Param>,
}

#[derive(Clone, Debug)]
pub struct TypeExpr {
    pub kind: TypeExprKind,
    pub line: u32,
    pub id: NodeId,
}

#[derive(Clone, Debug)]
pub enum TypeExprKind {
    /// `T` or `pkg.T`
    Name { pkg: Option<String>, name: String },
    Pointer(Box<TypeExpr>),
    Slice(Box<TypeExpr>),
    Array { len: Box<Expr>, elem: Box<TypeExpr> },
    Struct { fields: Vec<Field> },
    Interface { methods: Vec<MethodSpec> },
    Func { params: Vec<Param>, results: Vec<Param> },
}

#[derive(Clone, Debug)]
pub struct Block {
    pub stmts: Vec<Stmt>,
    pub line: u32,
    pub end_line: u32,
}

#[derive(Clone, Debug)]
pub struct Stmt {
    pub kind: StmtKind,
    pub line: u32,
    pub id: NodeId,
}

#[derive(Clone, Debug)]
pub struct CaseClause {
    /// None => default
    pub exprs: Option<Vec<Expr>>,
    pub body: Vec<Stmt>,
    pub line: u32,
}

#[derive(Clone, Debug)]
pub enum TypeCase {
    Type(TypeExpr),
    Nil(u32),
}

#[derive(Clone, Debug)]
pub struct TypeClause {
    /// None => default
    pub types: Option<Vec<TypeCase>>,
    pub body: Vec<Stmt>,
    pub line: u32,
    /// node id under which the checker records the per-clause binding
    pub id: NodeId,
}

#[derive(Clone, Debug)]
pub enum StmtKind {
    Empty,
    Var(VarSpec),
    ShortVar { names: Vec<Ident>, values: Vec<Expr> },
    Assign { lhs: Vec<Expr>, op: Option<BinOp>, rhs: Vec<Expr> },
    IncDec { x: Expr, inc: bool },
    Expr(Expr),
    Go(Expr),
    Return(Vec<Expr>),
    If { init: Option<Box<Stmt>>, cond: Expr, then: Block, els: Option<Box<Stmt>> },
    For { init: Option<Box<Stmt>>, cond: Option<Expr>, post: Option<Box<Stmt>>, body: Block },
    Switch { init: Option<Box<Stmt>>, tag: Option<Expr>, clauses: Vec<CaseClause> },
    TypeSwitch { init: Option<Box<Stmt>>, bind: Option<Ident>, x: Expr, clauses: Vec<TypeClause> },
    Break,
    Continue,
    Block(Block),
}

#[derive(Clone, Copy, Debug, PartialEq, Eq)]
pub enum BinOp {
    LOr,
    LAnd,
    Eq,
    Ne,
    Lt,
    Le,
    Gt,
    Ge,
    Add,
    Sub,
    Or,
    Xor,
    Mul,
    Div,
    Rem,
    Shl,
    Shr,
    And,
    AndNot,
}

impl BinOp {
    pub fn as_str(self) -> &'static str {
        match self {
            BinOp::LOr => "||",
            BinOp::LAnd => "&&",
            BinOp::Eq => "==",
            BinOp::Ne => "!=",
            BinOp::Lt => "<",
            BinOp::Le => "<=",
            BinOp::Gt => ">",
            BinOp::Ge => ">=",
            BinOp::Add => "+",
            BinOp::Sub => "-",
            BinOp::Or => "|",
            BinOp::Xor => "^",
            BinOp::Mul => "*",
            BinOp::Div => "/",
            BinOp::Rem => "%",
            BinOp::Shl => "<<",
            BinOp::Shr => ">>",
            BinOp::And => "&",
            BinOp::AndNot => "&^",
        }
    }
    pub fn precedence(self) -> u8 {
        match self {
            BinOp::LOr => 1,
            BinOp::LAnd => 2,
            BinOp::Eq | BinOp::Ne | BinOp::Lt | BinOp::Le | BinOp::Gt | BinOp::Ge => 3,
            BinOp::Add | BinOp::Sub | BinOp::Or | BinOp::Xor => 4,
            BinOp::Mul | BinOp::Div | BinOp::Rem | BinOp::Shl | BinOp::Shr | BinOp::And | BinOp::AndNot => 5,
        }
    }
    pub fn is_comparison(self) -> bool {
        matches!(self, BinOp::Eq | BinOp::Ne | BinOp::Lt | BinOp::Le | BinOp::Gt | BinOp::Ge)
    }
}

#[derive(Clone, Copy, Debug, PartialEq, Eq)]
pub enum UnOp {
    Neg,
    Pos,
    Not,
    BitNot,
    Addr,
}

#[derive(Clone, Debug)]
pub struct Expr {
    pub kind: ExprKind,
    pub line: u32,
    pub id: NodeId,
}

#[derive(Clone, Debug)]
pub struct KeyedElem {
    /// field name / index key
    pub key: Option<Expr>,
    pub value: Expr,
}

#[derive(Clone, Debug)]
pub enum ExprKind {
    Ident(String),
    /// literal text with base prefix, no underscores
    IntLit(String),
    FloatLit(String),
    RuneLit(u32),
    StrLit(Vec<u8>),
    /// Composite literal. `ty` is None for elided types of nested literals.
    Composite { ty: Option<Box<TypeExpr>>, elems: Vec<KeyedElem> },
    Selector { x: Box<Expr>, sel: Ident },
    Index { x: Box<Expr>, index: Box<Expr> },
    Call { fun: Box<Expr>, args: Vec<Expr> },
    TypeAssert { x: Box<Expr>, ty: Box<TypeExpr> },
    /// `x.(type)`; only used transiently by the parser (a successfully parsed
    /// File never contains it: it is folded into StmtKind::TypeSwitch)
    TypeSwitchGuard(Box<Expr>),
    Unary { op: UnOp, x: Box<Expr> },
    /// `*x` (dereference, or pointer type when used as a type)
    Star(Box<Expr>),
    Binary { op: BinOp, x: Box<Expr>, y: Box<Expr> },
    Paren(Box<Expr>),
    /// a type used in expression position, e.g. `[]byte` in `[]byte(s)` or
    /// `struct{}` in `struct{}{}` (the latter is parsed as Composite)
    Type(Box<TypeExpr>),
}
