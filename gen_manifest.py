#!/usr/bin/env python3
"""Regenerates /verif/MANIFEST.json from the table below (kept in one place so it stays valid)."""
import json
props = [json.loads(l) for l in open('/verif/properties.jsonl')]
ids = [p['id'] for p in props]

CHECKS = {
 "C03": dict(category="exploration", technique="invariant monitor over dumped IR at quiescent points (residue, names, ANF scoping and typing) + single-point type-error injection with the typer's verdict as the observed event",
   text="After every successful compile of corpus and generated programs the Mono, Lift and ANF outputs are walked: no type parameter / inference variable / generic application / wildcard array length after monomorphisation, no duplicate function names, and in ANF every variable use has a binder of the same type, calls agree with callee types, conditions are bool, branches and bodies have the declared types. Then one type error is injected at each eligible site (call argument, struct field, annotated let, function result, if condition, tuple arity, argument count, unknown field) and the variant must be rejected by the typer - not accepted, not rejected later, not a crash.",
   design_ref="DESIGN.md 4/C03", note="ANF is the stage checked for typing (Mono/Lift are checked for residue and names); polymorphic array/ref/vec builtins are not type-checked at call sites"),
 "C10": dict(category="exploration", technique="runtime monitor with an arithmetic reference model (Rust fixed-width / IEEE) over exhaustive 8-bit operand spaces, boundary/random pairs, literal spellings and float32 rounding midpoints",
   text="int8/uint8: all 65,536 operand pairs for each of 10 binary operators and all 256 operands of unary minus, operands in variables; all ten integer types: boundary x boundary + random pairs through variables and through literals (constant path); every literal spelling 0..300 and the neighbourhoods of MIN/MAX with out-of-range spellings required to be rejected; division by zero must fail at run time (used / unused, variable / literal divisor); float32/float64 operations against correctly rounded results; float32 literals just above / below / on rounding midpoints; float*_to_string must parse back to the value.",
   design_ref="DESIGN.md 4/C10", note="quick runs a subset of the 8-bit operator spaces (7 of 20), thorough all; float results are compared through == against literals printed with Rust's shortest round-trip formatting"),
 "C06": dict(category="exploration", technique="differential runtime monitor over exhaustively enumerated pattern matrices (refsem first-match oracle vs executed Go)",
   text="For 17 scrutinee shapes all pattern matrices up to 2 (quick) / 3 (thorough) rows over the full cell alphabet (wildcard, variable, literals, constructors with sub-patterns to depth 2, struct patterns with permuted fields) are compiled - 40 matrices per program - and applied to every value of the shape; each arm prints its index and bound variables, the scrutinee carries a tick; values no row matches are executed last and must fail there; integer-literal matrices without catch-all must be rejected at compile time. Larger (4-7 row) matrices are sampled.",
   design_ref="DESIGN.md 4/C06", note="exhaustive sub-spaces are listed in the evidence counters (exhaustive:<shape>:rows<k>); beyond the cap matrices are sampled"),
 "C09": dict(category="exploration", technique="differential runtime monitor on effect-instrumented programs + schedule exploration of `go` programs on gomini's scheduler",
   text="54 expression forms x every assignment of {pure, print tick, Ref bump} to their operand positions (exhaustive, 870 tests) and every failing position (division by zero inside the operand) are compiled and executed; the ordered output, Ref digit trail and failure point must equal refsem's. Random effect-heavy programs add depth. `go` programs (spawn, interleaved Ref work, join by flag) are run deterministically, under 24 random fair schedules and under systematic enumeration of scheduling choices; every run must start exactly one activation per `go` and print the schedule-independent expected output.",
   design_ref="DESIGN.md 4/C09", note="schedules are gomini's cooperative ones (yield at Ref helpers, prints, loop back-edges); the real Go scheduler and memory model are not exercised"),
 "C15": dict(category="fault_enumeration", technique="offline history checker against an executable model + fault enumeration over artifact files",
   text="Part A drives histories of {edit body, edit interface (8 kinds), check, build, link} against the real separate-compilation entry points with artifacts on disk and checks every logged call/return against a model of which interface state each artifact was built from and against: link must succeed iff every core's recorded dependency state equals the dependency core's own state; equal interface states must hash equal and different ones differently. Exhaustive over all op sequences up to length 3 (quick) / 5 (thorough) on a 2-package graph, random histories up to length 30 on 2-5 package DAGs. Part B corrupts every scalar leaf of valid .interface/.core files (change, delete, retype) and offers the file to every read path, plus format_version/compiler_abi bumps with a recomputed hash.",
   design_ref="DESIGN.md 4/C15", note="forgeries that alter content and recompute the hash are out of scope (except the version bump the property names); void corruptions (re-serialisation identical) are not counted"),
 "C01": dict(category="exploration", technique="differential runtime monitor: real compiler output executed by an independent Go interpreter (gomini) vs an independent reference semantics (refsem) / recorded real-Go outputs",
   text="Every corpus program and project is compiled now and its Go executed; stdout must equal what real Go recorded. Type-directed generated programs (all expression, pattern, item and builtin forms of the clean lattice, effects ticked in sub-expression positions, 10% with deliberate run-time failures), their max-parenthesised twins and generated multi-package projects are compiled, statically checked and executed; stdout, termination class and failure point must equal the reference semantics. Closed programs: one execution decides one program; reach comes from measured diversity (feature tags in the evidence).",
   design_ref="DESIGN.md 4/C01", note="relative to gomini's fidelity (calibrated on 69+8 recorded real-Go runs) and refsem; feature combinations behind recorded findings are outside the generated lattice and pinned by witnesses"),
 "C02": dict(category="exploration", technique="runtime monitor: independent Go static checker (gomini vet: scopes, types, constants, unused variables/imports, returns) over every emitted Go text",
   text="Corpus goldens (oracle calibration: vet agrees with real Go on all 74, including the one real Go rejected), corpus programs compiled now, and generated programs over the feature lattice are compiled; every accepted program's Go text must pass the checker. Signatures are (error kind, shape of the offending Go line).",
   design_ref="DESIGN.md 4/C02", note="vet reports only what it is certain of; anything else is inconclusive. Closure values flowing into function-typed positions and non-exhaustive matches at non-unit types are recorded findings outside the gate"),
 "C13": dict(category="exploration", technique="runtime monitor: byte-equality of all compiler outputs across re-runs under varied directory creation order (tmpfs/ext4), fresh threads and a fresh process (hash seeds)",
   text="Corpus projects, single-file corpus programs and generated multi-package projects (well-typed, and ill-typed with several injected errors so that diagnostic order is exercised) are materialised R times with different file/directory creation orders on tmpfs plus one ext4 copy and observed in fresh threads and one fresh process: Go text, 8 stage dumps, ordered diagnostics, check/build interface and core files, interface hashes and linked Go must be byte-identical. The evidence counts the directory enumeration orders and probe-HashSet orders actually seen.",
   design_ref="DESIGN.md 4/C13", note="enumeration orders are those tmpfs/ext4 produce for the creation orders tried; hash seeds are std RandomState's per-thread/process keys"),
 "C20": dict(category="exploration", technique="runtime monitor: crash hook over hover/completion queries at hostile positions + reference-model agreement (annotated types, declared member sets, insert-and-typecheck oracle)",
   text="Part A drives hover, dot and :: completion at token boundaries, after every '.'/'::', past line ends, past EOF and at u32::MAX over corpus files, editor-like prefixes and 1-3-edit mutations under the panic hook. Part B builds templated programs whose types and member sets are known by construction and asserts: hover on an annotated binder / its alias / its use reports the annotated type; every offered completion is a declared member with the typed prefix; inserting an offered field, self-only method or nullary variant type-checks (real typer as oracle).",
   design_ref="DESIGN.md 4/C20", note="hover agreement covers let binders, aliases and variable uses of 33 type shapes (not arbitrary sub-expressions); completeness of completions is observed, not required"),
 "C04": dict(category="exploration", technique="runtime crash/hang/diagnostic monitor: every entry point run in budgeted worker processes under a panic hook, CPU/RSS watchdog with gdb stack attribution, diagnostic-range assertions",
   text="Corpus files, targeted well-formed shapes aimed at post-parser panic sites, bounded deep nesting, and seeded token/line/char mutations, splices and token soups (9k quick, 3M thorough) are driven through compile (+Go printing and all stage dumps) and typecheck_with_packages; a monitor records panics (site = file::function), aborts, stack overflows, CPU/memory blow-ups (attributed to a compiler pass by sampling the stack with gdb), Err results without error diagnostics and diagnostic ranges outside the text. Held on what was explored; known findings are pinned by witness and signature.",
   design_ref="DESIGN.md 4/C04", note="termination is the bounded form (10 CPU-s, 3 GiB per input <= 64 KiB); nesting depth <= 64 on an 8 MiB stack; CLI subprocess and artifact-file entry points are covered by C15's fault enumeration"),
 "C12": dict(category="exploration", technique="runtime monitor: lossless-CST / token-tiling / range / determinism assertions over exhaustive short strings, token soups and corpus mutations, under a panic hook and CPU watchdog",
   text="Every explored input text (exhaustive over a 27-symbol alphabet to length 3/4, token soups, multiline-string torture, prefixes and mutations of all corpus files) is lexed and parsed by the real lexer/parser; an online monitor asserts tiling, CST text == input, in-range char-boundary positions, kind-name agreement and parse determinism. Exhaustive for the short-string space, sampled beyond.",
   design_ref="DESIGN.md 4/C12", note="trusts rowan's text(); termination is the bounded form (20 CPU-s per batch)"),
}
NOT_YET = "check not built yet (work in progress; see DESIGN.md section 4)"

m = {
 "version": 1,
 "setup_cmd": "./check setup",
 "hooks": {"guard": "lijunchen_goml_verif", "enable": "none needed so far: the harness links /repo/crates/* by path and observes through existing pub items", 
           "baseline_off_cmd": "cd /repo && cargo test --workspace --no-fail-fast --offline", "source_commits": [], "add_only": True},
 "engines": [
   {"name": "runner", "path": "harness/src/runner.rs", "serves_properties": sorted(CHECKS), "kind_free_text": "sharded worker subprocesses, panic hook, per-case CPU watchdog, RLIMIT_AS, crash attribution, known-findings filter, evidence writer"},
 ],
 "checks": [],
 "notes": "All commands run from /verif; VERIF_SEED selects the random stream. Exit 0 held / 1 violation / 3 inconclusive.",
 "not_applicable": [],
}
for i in ids:
    if i in CHECKS:
        c = CHECKS[i]
        m["checks"].append({
          "property_id": i, "quick_cmd": f"./check {i} quick", "thorough_cmd": f"./check {i} thorough",
          "evidence_file": f"/verif/evidence/{i}.json", "replay_cmd_template": f"./check {i} --replay {{path}}",
          "engine": "runner", "level_claimed": {"category": c["category"], "text": c["text"], "design_ref": c["design_ref"]},
          "level_note": c["note"], "technique": c["technique"]})
    else:
        m["not_applicable"].append({"property_id": i, "reason": NOT_YET})
json.dump(m, open('/verif/MANIFEST.json', 'w'), indent=1)
print("checks:", [c["property_id"] for c in m["checks"]])
