//! gomini: lexer, parser, static checker and interpreter for the subset of Go
//! emitted by the goml compiler. See README.md.

pub mod ast;
pub mod consts;
pub mod lex;
pub mod num;
pub mod parse;
pub mod types;
pub mod vet;
pub mod fmtgo;

pub use parse::ParseError;
pub use vet::{VetError, VetReport};
