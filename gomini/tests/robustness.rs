//! parse / vet / run must never panic or hang, whatever the input text.

use gomini::{RunConfig, Sched};
use std::path::Path;

const CORPUS: &str = "/repo/crates/compiler/src/tests/pipeline";

struct Rng(u64);
impl Rng {
    fn next(&mut self) -> u64 {
        self.0 ^= self.0 << 13;
        self.0 ^= self.0 >> 7;
        self.0 ^= self.0 << 17;
        self.0
    }
    fn below(&mut self, n: usize) -> usize {
        if n == 0 {
            0
        } else {
            (self.next() % n as u64) as usize
        }
    }
}

const SNIPPETS: &[&str] = &[
    "func", "var", "type", "struct", "interface", "{", "}", "(", ")", "[", "]", ",", ";", ":=", "=", "==", "+", "-", "*", "/", "%", "<<", ">>", "&", "&^", "|",
    "^", "!", "&&", "||", "<", ">", ".", "...", "nil", "true", "0", "1", "18446744073709551615", "1e400", "0x", "'a'", "\"s\"", "`r`", "\"\\x", "go ", "for ", "if ",
    "else ", "switch ", "case ", "default:", "return ", "break", "continue", "range ", "map[", "chan ", "defer ", "select ", "goto ", "fallthrough", "const ", "package ",
    "import ", "len", "append", "panic", "string", "int32", "any", "_", ".(type)", ".(", "\n", "\t", "/*", "*/", "//", "\u{0}", "é", "\u{feff}", "<-", "++", "--", "~",
];

fn mutate(src: &str, rng: &mut Rng) -> String {
    let mut s: Vec<u8> = src.as_bytes().to_vec();
    let n_mut = 1 + rng.below(3);
    for _ in 0..n_mut {
        if s.is_empty() {
            break;
        }
        match rng.below(8) {
            0 => {
                // delete a span
                let a = rng.below(s.len());
                let l = 1 + rng.below(12);
                let b = (a + l).min(s.len());
                s.drain(a..b);
            }
            1 => {
                // insert a snippet
                let a = rng.below(s.len());
                let sn = SNIPPETS[rng.below(SNIPPETS.len())].as_bytes();
                for (i, b) in sn.iter().enumerate() {
                    s.insert(a + i, *b);
                }
            }
            2 => {
                // replace one byte by a random ASCII byte
                let a = rng.below(s.len());
                s[a] = (rng.below(95) + 32) as u8;
            }
            3 => {
                // duplicate a line
                let text = String::from_utf8_lossy(&s).into_owned();
                let lines: Vec<&str> = text.split('\n').collect();
                let k = rng.below(lines.len());
                let mut out: Vec<&str> = Vec::new();
                for (i, l) in lines.iter().enumerate() {
                    out.push(l);
                    if i == k {
                        out.push(l);
                    }
                }
                s = out.join("\n").into_bytes();
            }
            4 => {
                // swap two lines
                let text = String::from_utf8_lossy(&s).into_owned();
                let mut lines: Vec<&str> = text.split('\n').collect();
                let a = rng.below(lines.len());
                let b = rng.below(lines.len());
                lines.swap(a, b);
                s = lines.join("\n").into_bytes();
            }
            5 => {
                // truncate
                let a = rng.below(s.len());
                s.truncate(a);
            }
            6 => {
                // delete a line
                let text = String::from_utf8_lossy(&s).into_owned();
                let lines: Vec<&str> = text.split('\n').collect();
                let k = rng.below(lines.len());
                let out: Vec<&str> = lines.iter().enumerate().filter(|(i, _)| *i != k).map(|(_, l)| *l).collect();
                s = out.join("\n").into_bytes();
            }
            _ => {
                // replace an identifier-ish word by another word from the text
                let text = String::from_utf8_lossy(&s).into_owned();
                let words: Vec<&str> = text.split(|c: char| !(c.is_alphanumeric() || c == '_')).filter(|w| !w.is_empty()).collect();
                if words.len() > 2 {
                    let from = words[rng.below(words.len())].to_string();
                    let to = words[rng.below(words.len())].to_string();
                    s = text.replacen(&from, &to, 1).into_bytes();
                }
            }
        }
    }
    String::from_utf8_lossy(&s).into_owned()
}

fn exercise(src: &str) {
    let cfg = RunConfig { step_budget: 20_000, sched: Sched::Deterministic, max_output: 1 << 16, trace_calls: false };
    match gomini::parse(src) {
        Ok(file) => {
            let rep = gomini::vet(&file);
            if rep.ok() {
                let _ = gomini::run(&file, &cfg);
            } else {
                // run must also cope with unchecked programs (it re-checks)
                let r = gomini::run(&file, &cfg);
                assert!(matches!(r.exit, gomini::Exit::Unsupported(_)));
            }
        }
        Err(_) => {}
    }
}

#[test]
fn mutated_goldens_never_panic() {
    let mut goldens = Vec::new();
    let mut dirs: Vec<_> = std::fs::read_dir(Path::new(CORPUS)).unwrap().filter_map(|e| e.ok()).map(|e| e.path()).collect();
    dirs.sort();
    for d in dirs {
        if let Ok(s) = std::fs::read_to_string(d.join("main.gom.go")) {
            if s.len() < 20_000 {
                goldens.push(s);
            }
        }
    }
    assert!(goldens.len() > 60);
    let mut rng = Rng(0x1234_5678_9abc_def1);
    let mut parsed = 0;
    let mut accepted = 0;
    for i in 0..2000 {
        let g = &goldens[i % goldens.len()];
        let m = mutate(g, &mut rng);
        if let Ok(f) = gomini::parse(&m) {
            parsed += 1;
            if gomini::vet(&f).ok() {
                accepted += 1;
            }
        }
        exercise(&m);
    }
    eprintln!("fuzz: 2000 mutants, {} parsed, {} accepted by vet", parsed, accepted);
}

#[test]
fn hostile_inputs() {
    let deep_parens = format!("package main\nfunc main() {{ _ = {}1{} }}\n", "(".repeat(100_000), ")".repeat(100_000));
    let deep_unary = format!("package main\nfunc main() {{ _ = {}1 }}\n", "-".repeat(100_000).replace("--", "- -"));
    let long_chain = format!("package main\nfunc main() {{ var x int32 = 1{} \n _ = x }}\n", " + 1".repeat(100_000));
    let deep_blocks = format!("package main\nfunc main() {{ {} {} }}\n", "{".repeat(50_000), "}".repeat(50_000));
    let deep_else = format!("package main\nfunc main() {{ if true {{}} {} }}\n", "else if true {} ".repeat(50_000));
    let deep_types = format!("package main\nvar x {}int32\nfunc main() {{}}\n", "[]".repeat(100_000));
    let deep_sel = format!("package main\nfunc main() {{ _ = x{} }}\n", ".a".repeat(100_000));
    let deep_calls = format!("package main\nfunc main() {{ f{} }}\n", "()".repeat(100_000));
    let deep_lits = format!("package main\nfunc main() {{ _ = T{}{} }}\n", "{".repeat(50_000), "}".repeat(50_000));
    let huge_int = format!("package main\nfunc main() {{ _ = {} }}\n", "9".repeat(100_000));
    let huge_shift = "package main\nfunc main() { var x int32 = 1 << 1000000000\n _ = x }\n".to_string();
    let huge_exp = "package main\nfunc main() { var x float64 = 1e999999999\n _ = x }\n".to_string();
    let big_array = "package main\nfunc main() { var x [1000000000]int64\n _ = x }\n".to_string();
    let big_make = "package main\nfunc main() { var x []int64 = make([]int64, 1000000000000)\n _ = x }\n".to_string();
    let many_appends = "package main\nfunc main() { var x []int64\n for { x = append(x, 1, 2, 3, 4, 5, 6, 7, 8) } }\n".to_string();
    let string_bomb = "package main\nfunc main() { var s string = \"xxxxxxxxxxxxxxxx\"\n for { s = s + s } }\n".to_string();
    let spawn_bomb = "package main\nfunc f() { for {} }\nfunc main() { for { go f() } }\n".to_string();
    let self_type = "package main\ntype T T\nfunc main() {}\n".to_string();
    let alias_cycle = "package main\ntype A = B\ntype B = A\nfunc main() {}\n".to_string();
    let array_cycle = "package main\ntype T [2]T\nfunc main() {}\n".to_string();
    let iface_self = "package main\ntype I interface { m(I) I }\ntype T struct { i I; p *T; s []T; f func(T) T }\nfunc main() {}\n".to_string();
    let nul = "package main\nfunc main() { \u{0} }\n".to_string();
    let empty = String::new();
    let only_pkg = "package main".to_string();
    for (name, src) in [
        ("deep_parens", &deep_parens),
        ("deep_unary", &deep_unary),
        ("long_chain", &long_chain),
        ("deep_blocks", &deep_blocks),
        ("deep_else", &deep_else),
        ("deep_types", &deep_types),
        ("deep_sel", &deep_sel),
        ("deep_calls", &deep_calls),
        ("deep_lits", &deep_lits),
        ("huge_int", &huge_int),
        ("huge_shift", &huge_shift),
        ("huge_exp", &huge_exp),
        ("big_array", &big_array),
        ("big_make", &big_make),
        ("many_appends", &many_appends),
        ("string_bomb", &string_bomb),
        ("spawn_bomb", &spawn_bomb),
        ("self_type", &self_type),
        ("alias_cycle", &alias_cycle),
        ("array_cycle", &array_cycle),
        ("iface_self", &iface_self),
        ("nul", &nul),
        ("empty", &empty),
        ("only_pkg", &only_pkg),
    ] {
        let t = std::time::Instant::now();
        let cfg = RunConfig { step_budget: 2_000_000, sched: Sched::Deterministic, max_output: 1 << 16, trace_calls: false };
        if let Ok(file) = gomini::parse(src) {
            let rep = gomini::vet(&file);
            let _ = rep;
            let r = gomini::run(&file, &cfg);
            eprintln!("{}: {:?} in {:?}", name, r.exit, t.elapsed());
        } else {
            eprintln!("{}: parse error in {:?}", name, t.elapsed());
        }
        assert!(t.elapsed().as_secs() < 20, "{} too slow", name);
    }
}

#[test]
fn speed() {
    // parse + vet + run of a ~300 line golden well under 10 ms
    let src = std::fs::read_to_string(Path::new(CORPUS).join("072_trait_bounds_complex").join("main.gom.go")).unwrap();
    assert!(src.lines().count() > 250);
    let t = std::time::Instant::now();
    let n = 50;
    for _ in 0..n {
        let file = gomini::parse(&src).unwrap();
        assert!(gomini::vet(&file).ok());
        let r = gomini::run(&file, &RunConfig::default());
        assert_eq!(r.exit, gomini::Exit::Ok);
    }
    let per = t.elapsed() / n;
    eprintln!("parse+vet+run of 072 (309 lines): {:?} per iteration", per);
    assert!(per.as_millis() < 10, "{:?}", per);
    // the 1531 line lisp interpreter
    let src = std::fs::read_to_string(Path::new(CORPUS).join("068_lisp_interp").join("main.gom.go")).unwrap();
    let t = std::time::Instant::now();
    let file = gomini::parse(&src).unwrap();
    assert!(gomini::vet(&file).ok());
    let r = gomini::run(&file, &RunConfig::default());
    assert_eq!(r.exit, gomini::Exit::Ok);
    eprintln!("068_lisp_interp: {:?}, {} steps", t.elapsed(), r.steps);
}

/// Diagnostic aid (run with --ignored --nocapture): shows the mutants that
/// vet accepts, for manual review against Go's rules.
#[test]
#[ignore]
fn show_accepted_mutants() {
    let mut goldens = Vec::new();
    let mut dirs: Vec<_> = std::fs::read_dir(Path::new(CORPUS)).unwrap().filter_map(|e| e.ok()).map(|e| e.path()).collect();
    dirs.sort();
    for d in dirs {
        if let Ok(s) = std::fs::read_to_string(d.join("main.gom.go")) {
            if s.len() < 20_000 {
                goldens.push(s);
            }
        }
    }
    let mut rng = Rng(0x1234_5678_9abc_def1);
    for i in 0..2000 {
        let g = &goldens[i % goldens.len()];
        let m = mutate(g, &mut rng);
        if let Ok(f) = gomini::parse(&m) {
            if gomini::vet(&f).ok() && m != *g {
                let a: Vec<&str> = g.lines().collect();
                let b: Vec<&str> = m.lines().collect();
                println!("=== mutant {} ===", i);
                let sa: std::collections::HashSet<&str> = a.iter().copied().collect();
                let sb: std::collections::HashSet<&str> = b.iter().copied().collect();
                for l in a.iter().filter(|l| !sb.contains(*l)).take(6) {
                    println!("- {}", l);
                }
                for l in b.iter().filter(|l| !sa.contains(*l)).take(6) {
                    println!("+ {}", l);
                }
                if a.len() != b.len() {
                    println!("(lines {} -> {})", a.len(), b.len());
                }
            }
        }
    }
}
