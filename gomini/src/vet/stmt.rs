//! Statement checking and the terminating statement analysis.

use super::expr::strip_parens;
use super::*;

impl<'a> Checker<'a> {
    pub(crate) fn check_stmts(&mut self, stmts: &[Stmt]) {
        for s in stmts {
            self.check_stmt(s);
        }
    }

    fn check_block(&mut self, b: &Block) {
        self.push_scope();
        self.check_stmts(&b.stmts);
        self.pop_scope();
    }

    fn check_cond(&mut self, c: &Expr, what: &str) {
        let mut o = self.check_value(c);
        if o.is_invalid() {
            return;
        }
        if o.mode == Mode::Nil || !self.info.types.is_boolean(o.ty) {
            self.err("non-bool-cond", c.line, format!("non-boolean condition in {} statement", what));
            return;
        }
        self.default_operand(&mut o, "condition");
    }

    pub(crate) fn check_stmt(&mut self, s: &Stmt) {
        match &s.kind {
            StmtKind::Empty => {}
            StmtKind::Var(v) => self.check_var_decl(v),
            StmtKind::ShortVar { names, values } => self.check_short_var(s, names, values),
            StmtKind::Assign { lhs, op, rhs } => self.check_assign(s, lhs, *op, rhs),
            StmtKind::IncDec { x, .. } => {
                let o = self.check_value(x);
                if o.is_invalid() {
                    return;
                }
                if o.mode == Mode::Nil || !self.info.types.is_numeric(o.ty) {
                    self.err("invalid-op", s.line, format!("invalid operation: ++/-- on non-numeric {}", self.describe(&o)));
                    return;
                }
                if o.mode != Mode::Var {
                    self.err("not-assignable", s.line, format!("cannot assign to {} (neither addressable nor a map index expression)", super::call::expr_text(x)));
                }
            }
            StmtKind::Expr(e) => {
                let inner = strip_parens(e);
                let o = self.check_expr(e);
                match o.mode {
                    Mode::Invalid => {}
                    Mode::NoValue | Mode::Multi => {}
                    Mode::Value | Mode::Var | Mode::Const | Mode::Nil => {
                        // only calls (of functions, not conversions or most builtins) may be statements
                        let is_plain_call = match &inner.kind {
                            ExprKind::Call { fun, .. } => {
                                let f = strip_parens(fun);
                                let is_conv = self.info.type_exprs.contains_key(&f.id);
                                let is_builtin = matches!(self.info.res.get(&f.id), Some(Res::Builtin(_)));
                                !is_conv && !is_builtin
                            }
                            _ => false,
                        };
                        if !is_plain_call {
                            self.err("unused-result", s.line, format!("{} ({}) is not used", super::call::expr_text(inner), self.describe(&o)));
                        }
                    }
                    Mode::Type => self.err("unused-result", s.line, format!("{} (type) is not an expression", self.tstr(o.ty))),
                    Mode::Builtin(_) => self.err("unused-result", s.line, "builtin must be called"),
                    Mode::Pkg => self.err("unused-result", s.line, "use of package without selector"),
                    Mode::PkgFn(_) => self.err("unused-result", s.line, "function value is not used"),
                }
            }
            StmtKind::Go(e) => {
                let inner = strip_parens(e);
                match &inner.kind {
                    ExprKind::Call { fun, .. } => {
                        if !std::ptr::eq(inner, e) {
                            self.err("syntax", s.line, "expression in go must not be parenthesized");
                        }
                        let o = self.check_expr(e);
                        let f = strip_parens(fun);
                        if self.info.type_exprs.contains_key(&f.id) && !o.is_invalid() {
                            self.err("unused-result", s.line, "go requires function call, not conversion");
                        } else if let Some(Res::Builtin(b)) = self.info.res.get(&f.id) {
                            let b = *b;
                            if matches!(b, Builtin::Append | Builtin::Cap | Builtin::Len | Builtin::Make | Builtin::New | Builtin::Complex | Builtin::Real | Builtin::Imag | Builtin::Min | Builtin::Max) {
                                self.err("unused-result", s.line, "go discards result of builtin call");
                            } else {
                                self.run_unsup(s.line, "go statement with builtin call");
                            }
                        } else if matches!(self.info.sels.get(&f.id), Some(SelKind::PkgFunc(_))) {
                            self.run_unsup(s.line, "go statement with package function");
                        }
                    }
                    _ => {
                        let _ = self.check_expr(e);
                        self.err("syntax", s.line, "expression in go must be function call");
                    }
                }
            }
            StmtKind::Return(vals) => {
                let results = self.fctx.as_ref().map(|f| f.results.clone()).unwrap_or_default();
                let mut ops = Vec::new();
                for v in vals {
                    ops.push(self.check_expr(v));
                }
                if vals.len() == 1 && results.len() > 1 && ops[0].mode == Mode::Multi {
                    self.unsup(s.line, "return of multi-value call");
                    return;
                }
                if vals.len() != results.len() {
                    if vals.is_empty() {
                        self.err("return-count", s.line, format!("not enough return values (have 0, want {})", results.len()));
                    } else if vals.len() < results.len() {
                        self.err("return-count", s.line, format!("not enough return values (have {}, want {})", vals.len(), results.len()));
                    } else {
                        self.err("return-count", s.line, format!("too many return values (have {}, want {})", vals.len(), results.len()));
                    }
                    return;
                }
                for ((o, v), r) in ops.into_iter().zip(vals.iter()).zip(results.iter()) {
                    let mut o = self.single_value(o, v);
                    if !o.is_invalid() {
                        self.assign_to(&mut o, *r, "return statement");
                    }
                }
            }
            StmtKind::If { init, cond, then, els } => {
                self.push_scope();
                if let Some(i) = init {
                    self.check_stmt(i);
                }
                self.check_cond(cond, "if");
                self.check_block(then);
                if let Some(e) = els {
                    self.check_stmt(e);
                }
                self.pop_scope();
            }
            StmtKind::For { init, cond, post, body } => {
                self.push_scope();
                if let Some(i) = init {
                    self.check_stmt(i);
                }
                if let Some(c) = cond {
                    self.check_cond(c, "for");
                }
                if let Some(p) = post {
                    self.check_stmt(p);
                }
                if let Some(f) = self.fctx.as_mut() {
                    f.loop_depth += 1;
                    f.breakable_depth += 1;
                }
                self.check_block(body);
                if let Some(f) = self.fctx.as_mut() {
                    f.loop_depth -= 1;
                    f.breakable_depth -= 1;
                }
                self.pop_scope();
            }
            StmtKind::Switch { init, tag, clauses } => self.check_switch(s, init, tag, clauses),
            StmtKind::TypeSwitch { init, bind, x, clauses } => self.check_type_switch(s, init, bind, x, clauses),
            StmtKind::Break => {
                if self.fctx.as_ref().map_or(0, |f| f.breakable_depth) == 0 {
                    self.err("break-outside-loop", s.line, "break is not in a loop, switch, or select");
                }
            }
            StmtKind::Continue => {
                if self.fctx.as_ref().map_or(0, |f| f.loop_depth) == 0 {
                    self.err("continue-outside-loop", s.line, "continue is not in a loop");
                }
            }
            StmtKind::Block(b) => self.check_block(b),
        }
    }

    fn check_var_decl(&mut self, v: &VarSpec) {
        let declared = v.ty.as_ref().map(|t| self.resolve_type(t));
        if v.values.is_empty() {
            let t = declared.unwrap_or(T_INVALID);
            for n in &v.names {
                self.declare_local(n, t, false);
            }
            return;
        }
        if v.values.len() != v.names.len() {
            let mut multi = false;
            for e in &v.values {
                let o = self.check_expr(e);
                multi |= o.mode == Mode::Multi;
            }
            if multi && v.values.len() == 1 {
                self.unsup(v.line, "multi-value initialisation");
            } else {
                self.err("assign-count", v.line, format!("assignment mismatch: {} variables but {} values", v.names.len(), v.values.len()));
            }
            for n in &v.names {
                self.declare_local(n, declared.unwrap_or(T_INVALID), false);
            }
            return;
        }
        // the variables come into scope after the initialisers
        let mut tys = Vec::new();
        for e in &v.values {
            let mut o = self.check_value(e);
            let t = match declared {
                Some(t) => {
                    if !o.is_invalid() && t != T_INVALID {
                        self.assign_to(&mut o, t, "variable declaration");
                    }
                    t
                }
                None => {
                    if o.is_invalid() {
                        T_INVALID
                    } else if self.default_operand(&mut o, "variable declaration") {
                        o.ty
                    } else {
                        T_INVALID
                    }
                }
            };
            tys.push(t);
        }
        for (n, t) in v.names.iter().zip(tys) {
            self.declare_local(n, t, false);
        }
    }

    fn check_short_var(&mut self, s: &Stmt, names: &[Ident], values: &[Expr]) {
        if values.len() != names.len() {
            let mut multi = false;
            for e in values {
                let o = self.check_expr(e);
                multi |= o.mode == Mode::Multi;
            }
            if multi && values.len() == 1 {
                self.unsup(s.line, "multi-value short variable declaration");
            } else {
                self.err("assign-count", s.line, format!("assignment mismatch: {} variables but {} values", names.len(), values.len()));
            }
            // declare the names so that later uses do not cascade
            for n in names {
                if n.name != "_" && !self.scopes.last().map_or(false, |sc| sc.contains_key(&n.name)) {
                    self.declare_local(n, T_INVALID, false);
                }
            }
            return;
        }
        let mut ops = Vec::new();
        for e in values {
            ops.push(self.check_value(e));
        }
        // duplicate names on the left
        let mut seen: HashSet<&str> = HashSet::new();
        for n in names {
            if n.name != "_" && !seen.insert(n.name.as_str()) {
                self.err("redeclared", n.line, format!("{} repeated on left side of :=", n.name));
            }
        }
        let mut any_new = false;
        for (n, mut o) in names.iter().zip(ops.into_iter()) {
            if n.name == "_" {
                if !o.is_invalid() {
                    self.default_operand(&mut o, "assignment");
                }
                continue;
            }
            let existing = self.scopes.last().and_then(|sc| sc.get(&n.name).copied());
            match existing {
                Some(oid) => {
                    // plain assignment to the existing variable
                    if let Obj::Var { ty, res, .. } = self.objs[oid].clone() {
                        self.info.res.insert(n.id, res);
                        if (n.id as usize) < self.info.expr_ty.len() {
                            self.info.expr_ty[n.id as usize] = ty;
                        }
                        if !o.is_invalid() && ty != T_INVALID {
                            self.assign_to(&mut o, ty, "assignment");
                        }
                    }
                }
                None => {
                    any_new = true;
                    let t = if o.is_invalid() {
                        T_INVALID
                    } else if self.default_operand(&mut o, "assignment") {
                        o.ty
                    } else {
                        T_INVALID
                    };
                    self.declare_local(n, t, false);
                }
            }
        }
        if !any_new {
            self.err("no-new-vars", s.line, "no new variables on left side of :=");
        }
    }

    /// Checks an assignment target. Returns its type (T_INVALID if unusable)
    /// and whether it is the blank identifier.
    fn check_lhs(&mut self, l: &Expr) -> (TypeId, bool) {
        let inner = strip_parens(l);
        if let ExprKind::Ident(name) = &inner.kind {
            if name == "_" {
                return (T_INVALID, true);
            }
            let o = self.check_ident(inner, name, false);
            // record under both ids
            let mut o2 = o.clone();
            o2.id = inner.id;
            if o2.is_value() {
                self.record(&o2);
            }
            o2.id = l.id;
            if o2.is_value() {
                self.record(&o2);
            }
            return match o.mode {
                Mode::Invalid => (T_INVALID, false),
                Mode::Var => (o.ty, false),
                _ => {
                    self.err("not-assignable", l.line, format!("cannot assign to {} (neither addressable nor a map index expression)", name));
                    (T_INVALID, false)
                }
            };
        }
        let o = self.check_value(l);
        match o.mode {
            Mode::Invalid => (T_INVALID, false),
            Mode::Var => (o.ty, false),
            _ => {
                self.err("not-assignable", l.line, format!("cannot assign to {} (neither addressable nor a map index expression)", super::call::expr_text(inner)));
                (T_INVALID, false)
            }
        }
    }

    fn check_assign(&mut self, s: &Stmt, lhs: &[Expr], op: Option<BinOp>, rhs: &[Expr]) {
        if let Some(op) = op {
            // x op= y
            let l = &lhs[0];
            let r = &rhs[0];
            // evaluate `x op y` as a binary expression on a synthetic node:
            // reuse the statement's id for the result
            let lo = self.check_value(l);
            if lo.is_invalid() {
                let _ = self.check_value(r);
                return;
            }
            let fake = Expr { kind: ExprKind::Binary { op, x: Box::new(l.clone()), y: Box::new(r.clone()) }, line: s.line, id: s.id };
            let mut res = self.check_value(&fake);
            if lo.mode != Mode::Var {
                self.err("not-assignable", s.line, format!("cannot assign to {} (neither addressable nor a map index expression)", super::call::expr_text(strip_parens(l))));
                return;
            }
            if !res.is_invalid() {
                self.assign_to(&mut res, lo.ty, "assignment");
            }
            return;
        }
        if lhs.len() != rhs.len() {
            let mut multi = false;
            for e in rhs {
                let o = self.check_expr(e);
                multi |= o.mode == Mode::Multi;
            }
            for l in lhs {
                let _ = self.check_lhs(l);
            }
            if multi && rhs.len() == 1 {
                self.unsup(s.line, "multi-value assignment");
            } else {
                self.err("assign-count", s.line, format!("assignment mismatch: {} variables but {} values", lhs.len(), rhs.len()));
            }
            return;
        }
        if lhs.len() > 1 {
            self.run_unsup(s.line, "parallel assignment");
        }
        // go/types checks each pair lhs[i] = rhs[i] in order
        let mut pairs = Vec::new();
        for (l, r) in lhs.iter().zip(rhs.iter()) {
            let lt = self.check_lhs(l);
            let ro = self.check_value(r);
            pairs.push((lt, ro));
        }
        for ((lt, blank), mut ro) in pairs {
            if ro.is_invalid() {
                continue;
            }
            if blank {
                self.default_operand(&mut ro, "assignment");
                continue;
            }
            if lt != T_INVALID {
                self.assign_to(&mut ro, lt, "assignment");
            }
        }
    }

    fn check_switch(&mut self, s: &Stmt, init: &Option<Box<Stmt>>, tag: &Option<Expr>, clauses: &[CaseClause]) {
        self.push_scope();
        if let Some(i) = init {
            self.check_stmt(i);
        }
        let mut tag_op: Option<Operand> = None;
        let mut tag_ok = true;
        if let Some(t) = tag {
            let mut o = self.check_value(t);
            if o.is_invalid() {
                tag_ok = false;
            } else if o.mode == Mode::Nil {
                self.err("type-mismatch", t.line, "use of untyped nil in switch expression");
                tag_ok = false;
            } else {
                self.default_operand(&mut o, "switch expression");
                if o.is_invalid() {
                    tag_ok = false;
                } else if !self.info.types.comparable(o.ty) && !self.info.types.has_nil(o.ty) {
                    self.err("not-comparable", t.line, format!("cannot switch on {}", self.describe(&o)));
                    tag_ok = false;
                } else {
                    // the tag is evaluated once into a hidden temporary
                    o.mode = Mode::Value;
                    tag_op = Some(o);
                }
            }
        }
        let slot = self.hidden_slot();
        self.info.stmt_slots.insert(s.id, slot);
        let mut defaults = 0;
        let mut seen_consts: Vec<(ConstVal, TypeId)> = Vec::new();
        if let Some(f) = self.fctx.as_mut() {
            f.breakable_depth += 1;
        }
        for c in clauses {
            match &c.exprs {
                None => {
                    defaults += 1;
                    if defaults > 1 {
                        self.err("dup-default", c.line, "multiple defaults in switch");
                    }
                }
                Some(es) => {
                    for ce in es {
                        let mut co = self.check_value(ce);
                        if co.is_invalid() || !tag_ok {
                            continue;
                        }
                        match &tag_op {
                            Some(t) => {
                                // case value compared with the tag: tag == value
                                let mut tcopy = t.clone();
                                // synthetic comparison using go/types rules
                                let fake_id = ce.id;
                                let ok = self.switch_compare(&mut tcopy, &mut co, ce.line, fake_id);
                                if !ok {
                                    continue;
                                }
                            }
                            None => {
                                // `switch { case cond: }` : tag is `true`
                                if co.mode == Mode::Nil || !self.info.types.is_boolean(co.ty) {
                                    self.err(
                                        "type-mismatch",
                                        ce.line,
                                        format!("invalid case {} in switch (mismatched types {} and bool)", super::call::expr_text(ce), self.tstr(co.ty)),
                                    );
                                    continue;
                                }
                                self.default_operand(&mut co, "switch case");
                            }
                        }
                        if co.mode == Mode::Const {
                            if let Some(v) = co.val.clone() {
                                match v {
                                    ConstVal::Bool(_) => {
                                        if seen_consts.iter().any(|(pv, pt)| *pv == v && *pt == co.ty) {
                                            self.unsup(ce.line, "duplicate boolean case in expression switch");
                                        }
                                    }
                                    _ => {
                                        if seen_consts.iter().any(|(pv, pt)| consts_equal(pv, &v) && *pt == co.ty) {
                                            self.err("dup-case", ce.line, format!("duplicate case {} in expression switch", v.display()));
                                        }
                                    }
                                }
                                seen_consts.push((v, co.ty));
                            }
                        }
                    }
                }
            }
            self.push_scope();
            self.check_stmts(&c.body);
            self.pop_scope();
        }
        if let Some(f) = self.fctx.as_mut() {
            f.breakable_depth -= 1;
        }
        self.pop_scope();
    }

    /// `tag == value` check for an expression switch case. Converts the case
    /// value to the tag type when it is untyped.
    fn switch_compare(&mut self, tag: &mut Operand, val: &mut Operand, line: u32, _id: NodeId) -> bool {
        let tt = &self.info.types;
        // implicit conversion of the untyped case value
        if tt.is_untyped(val.ty) {
            let may = if tt.is_interface(tag.ty) {
                true
            } else if val.mode == Mode::Nil {
                tt.has_nil(tag.ty)
            } else if tt.is_boolean(val.ty) != tt.is_boolean(tag.ty) || tt.is_string(val.ty) != tt.is_string(tag.ty) {
                false
            } else {
                !matches!(tt.under(tag.ty), Ty::Pointer(_))
            };
            if may {
                let target = tag.ty;
                let ok = if tt.is_interface(target) && val.mode != Mode::Nil {
                    self.default_operand(val, "switch case")
                } else {
                    self.convert_untyped(val, target, "switch case")
                };
                if !ok {
                    return false;
                }
            }
        }
        let ok = self.assignable(val, tag.ty) || self.assignable(tag, val.ty);
        if !ok {
            self.err(
                "type-mismatch",
                line,
                format!("invalid case in switch (mismatched types {} and {})", self.tstr(val.ty), self.tstr(tag.ty)),
            );
            return false;
        }
        let tt = &self.info.types;
        if val.mode == Mode::Nil {
            if !tt.has_nil(tag.ty) {
                self.err("type-mismatch", line, "invalid case nil in switch");
                return false;
            }
            return true;
        }
        if !tt.comparable(val.ty) || !tt.comparable(tag.ty) {
            self.err("not-comparable", line, format!("invalid case in switch: {} cannot be compared", self.tstr(val.ty)));
            return false;
        }
        true
    }

    fn check_type_switch(&mut self, s: &Stmt, init: &Option<Box<Stmt>>, bind: &Option<Ident>, x: &Expr, clauses: &[TypeClause]) {
        self.push_scope();
        if let Some(i) = init {
            self.check_stmt(i);
        }
        let xo = self.check_value(x);
        let slot = self.hidden_slot();
        self.info.stmt_slots.insert(s.id, slot);
        let mut xt = T_INVALID;
        if !xo.is_invalid() {
            if xo.mode == Mode::Nil || !self.info.types.is_interface(xo.ty) {
                self.err("bad-assert", x.line, format!("{} is not an interface (type switch)", self.describe(&xo)));
            } else {
                xt = xo.ty;
            }
        }
        if let Some(b) = bind {
            if b.name == "_" {
                self.err("no-new-vars", b.line, "no new variable on left side of := in type switch");
            }
        }
        let mut defaults = 0;
        let mut seen_types: Vec<TypeId> = Vec::new();
        let mut seen_nil = false;
        let mut bind_objs: Vec<usize> = Vec::new();
        if let Some(f) = self.fctx.as_mut() {
            f.breakable_depth += 1;
        }
        for c in clauses {
            let mut single: Option<TypeId> = None;
            match &c.types {
                None => {
                    defaults += 1;
                    if defaults > 1 {
                        self.err("dup-default", c.line, "multiple defaults in switch");
                    }
                }
                Some(ts) => {
                    for tc in ts {
                        match tc {
                            TypeCase::Nil(line) => {
                                if seen_nil {
                                    self.err("dup-case", *line, "multiple nil cases in type switch");
                                }
                                seen_nil = true;
                            }
                            TypeCase::Type(te) => {
                                let t = self.resolve_type(te);
                                if t == T_INVALID {
                                    continue;
                                }
                                if seen_types.contains(&t) {
                                    self.err("dup-case", te.line, format!("duplicate case {} in type switch", self.tstr(t)));
                                }
                                seen_types.push(t);
                                if xt != T_INVALID && !self.info.types.is_interface(t) {
                                    if let Some(m) = self.info.types.missing_method(t, xt) {
                                        self.err(
                                            "impossible-case",
                                            te.line,
                                            format!("impossible type switch case: {} cannot have dynamic type {} (missing method {})", super::call::expr_text(x), self.tstr(t), m),
                                        );
                                    }
                                }
                                if ts.len() == 1 {
                                    single = Some(t);
                                }
                            }
                        }
                    }
                }
            }
            self.push_scope();
            if let Some(b) = bind {
                if b.name != "_" {
                    let bt = single.unwrap_or(xt);
                    // one variable per clause, all sharing the declaring identifier
                    let slot = {
                        let f = self.fctx.as_mut().unwrap();
                        let s = f.nlocals;
                        f.nlocals += 1;
                        s
                    };
                    let o = self.new_obj(Obj::Var { ty: bt, res: Res::Local(slot), line: b.line, name: b.name.clone() });
                    self.scopes.last_mut().unwrap().insert(b.name.clone(), o);
                    self.info.clause_bind.insert(c.id, (slot, bt));
                    bind_objs.push(o);
                }
            }
            self.check_stmts(&c.body);
            self.pop_scope();
        }
        if let Some(f) = self.fctx.as_mut() {
            f.breakable_depth -= 1;
        }
        if let Some(b) = bind {
            if b.name != "_" && !bind_objs.iter().any(|o| self.used[*o]) {
                self.err("unused-variable", b.line, format!("declared and not used: {}", b.name));
            }
        }
        self.pop_scope();
    }

    // ------------------------------------------- terminating statements

    pub(crate) fn terminating_list(&self, stmts: &[Stmt]) -> bool {
        // trailing empty statements are ignored (the parser drops them)
        match stmts.last() {
            Some(s) => self.terminating(s),
            None => false,
        }
    }

    fn terminating(&self, s: &Stmt) -> bool {
        match &s.kind {
            StmtKind::Return(_) => true,
            StmtKind::Expr(e) => {
                let inner = strip_parens(e);
                matches!(&inner.kind, ExprKind::Call { .. }) && self.panic_calls.contains(&inner.id)
            }
            StmtKind::Block(b) => self.terminating_list(&b.stmts),
            StmtKind::If { then, els, .. } => match els {
                Some(e) => self.terminating_list(&then.stmts) && self.terminating(e),
                None => false,
            },
            StmtKind::For { cond, body, .. } => cond.is_none() && !has_break(&body.stmts),
            StmtKind::Switch { clauses, .. } => {
                let mut has_default = false;
                for c in clauses {
                    if c.exprs.is_none() {
                        has_default = true;
                    }
                    if !self.terminating_list(&c.body) || has_break(&c.body) {
                        return false;
                    }
                }
                has_default
            }
            StmtKind::TypeSwitch { clauses, .. } => {
                let mut has_default = false;
                for c in clauses {
                    if c.types.is_none() {
                        has_default = true;
                    }
                    if !self.terminating_list(&c.body) || has_break(&c.body) {
                        return false;
                    }
                }
                has_default
            }
            _ => false,
        }
    }
}

/// Is there an unlabeled break referring to the enclosing statement?
fn has_break(stmts: &[Stmt]) -> bool {
    stmts.iter().any(|s| match &s.kind {
        StmtKind::Break => true,
        StmtKind::Block(b) => has_break(&b.stmts),
        StmtKind::If { then, els, .. } => has_break(&then.stmts) || els.as_ref().map_or(false, |e| has_break(std::slice::from_ref(e))),
        // breaks inside nested for/switch refer to those
        _ => false,
    })
}

fn consts_equal(a: &ConstVal, b: &ConstVal) -> bool {
    match (a, b) {
        (ConstVal::Str(x), ConstVal::Str(y)) => x == y,
        (ConstVal::Bool(x), ConstVal::Bool(y)) => x == y,
        _ => match (a.to_rat(), b.to_rat()) {
            (Some(x), Some(y)) => x.cmp(&y) == std::cmp::Ordering::Equal,
            _ => false,
        },
    }
}
