//! Bytecode virtual machine with cooperative goroutines.

use super::code::*;
use super::grow::grow_cap;
use super::{Event, Exit, PanicClass, RunConfig, RunResult, Sched};
use crate::ast::BinOp;
use crate::fmtgo::{self, Arg};
use crate::types::*;
use crate::vet::{Info, PkgFn};
use std::collections::HashMap;
use std::rc::Rc;

const MAX_FRAMES: usize = 100_000;
const MAX_HEAP_SLOTS: u64 = 8_000_000;
const MAX_CHOICES_RECORDED: usize = 100_000;
const MAX_GOROUTINES: usize = 256;
const MAX_STRING_BYTES: u64 = 256 << 20;

struct Frame {
    func: u32,
    pc: u32,
    base: u32,
    line: u32,
}

struct Goroutine {
    id: u32,
    stack: Vec<Value>,
    frames: Vec<Frame>,
    done: bool,
    starve: u32,
    yield_pending: bool,
}

struct Backing {
    elems: Vec<Value>,
    /// one past the highest slot ever written through append / creation
    hi_water: u32,
}

enum Stop {
    Exit(Exit),
}

#[derive(PartialEq, Clone, Copy)]
enum YieldKind {
    LoopBack,
    Other,
    GoroutineEnd,
}

struct Vm<'a> {
    prog: &'a Program,
    info: &'a Info,
    cfg: &'a RunConfig,
    cells: Vec<Value>,
    arrays: Vec<Backing>,
    globals: Vec<Value>,
    gs: Vec<Goroutine>,
    cur: usize,
    stdout: Vec<u8>,
    stderr: String,
    events: Vec<Event>,
    steps: u64,
    heap_slots: u64,
    string_bytes: u64,
    sched_choices: Vec<(u32, u32)>,
    choice_no: usize,
    rng: u64,
    ref_ids: HashMap<u32, u64>,
    next_ref: u64,
    next_gid: u32,
}

pub fn execute(prog: &Program, info: &Info, cfg: &RunConfig) -> RunResult {
    let mut vm = Vm {
        prog,
        info,
        cfg,
        cells: Vec::new(),
        arrays: Vec::new(),
        globals: prog.globals.clone(),
        gs: Vec::new(),
        cur: 0,
        stdout: Vec::new(),
        stderr: String::new(),
        events: Vec::new(),
        steps: 0,
        heap_slots: 0,
        string_bytes: 0,
        sched_choices: Vec::new(),
        choice_no: 0,
        rng: match &cfg.sched {
            Sched::Random { seed } => seed.wrapping_mul(0x9E3779B97F4A7C15) ^ 0xD1B54A32D192ED03,
            _ => 1,
        },
        ref_ids: HashMap::new(),
        next_ref: 0,
        next_gid: 2,
    };
    let exit = vm.run_all();
    RunResult { stdout: vm.stdout, stderr: vm.stderr, exit, events: vm.events, steps: vm.steps, sched_choices: vm.sched_choices }
}

fn int_of(v: &Value) -> i64 {
    match v {
        Value::Int(i) => *i,
        _ => 0,
    }
}

impl<'a> Vm<'a> {
    fn run_all(&mut self) -> Exit {
        // package initialisation: init functions in source order, then main
        let mut entry: Vec<u32> = self.prog.inits.clone();
        let _ = &entry;
        entry.push(self.prog.main);
        for (i, f) in entry.iter().enumerate() {
            let prog: &'a Program = self.prog;
            let fc = &prog.funcs[*f as usize];
            let mut stack = Vec::new();
            stack.resize(fc.nlocals as usize, Value::Undef);
            let g = Goroutine { id: 1, stack, frames: vec![Frame { func: *f, pc: 0, base: 0, line: fc.line }], done: false, starve: 0, yield_pending: false };
            if i == 0 {
                self.gs.push(g);
            } else {
                self.gs[0] = g;
            }
            self.cur = 0;
            match self.run_loop() {
                Stop::Exit(Exit::Ok) => {}
                Stop::Exit(e) => return e,
            }
        }
        Exit::Ok
    }

    fn tt(&self) -> &'a TypeTable {
        let info: &'a Info = self.info;
        &info.types
    }

    fn alloc_cell(&mut self, v: Value) -> Result<u32, Stop> {
        self.heap_slots += 1;
        if self.heap_slots > MAX_HEAP_SLOTS {
            return Err(Stop::Exit(Exit::Budget));
        }
        self.cells.push(v);
        Ok((self.cells.len() - 1) as u32)
    }

    fn alloc_array(&mut self, elems: Vec<Value>, hi: u32) -> Result<u32, Stop> {
        self.heap_slots += elems.len() as u64 + 1;
        if self.heap_slots > MAX_HEAP_SLOTS {
            return Err(Stop::Exit(Exit::Budget));
        }
        self.arrays.push(Backing { elems, hi_water: hi });
        Ok((self.arrays.len() - 1) as u32)
    }

    fn cur_line(&self) -> u32 {
        self.gs[self.cur].frames.last().map_or(0, |f| f.line)
    }

    // ------------------------------------------------------------- panics

    fn go_panic(&mut self, class: PanicClass, msg: String) -> Stop {
        let prog: &'a Program = self.prog;
        let g = &self.gs[self.cur];
        let mut text = String::new();
        text.push_str("panic: ");
        text.push_str(&msg);
        if class == PanicClass::NilDeref {
            text.push_str("\n[signal SIGSEGV: segmentation violation]");
        }
        text.push_str(&format!("\n\ngoroutine {} [running]:\n", g.id));
        let n = g.frames.len();
        for (k, f) in g.frames.iter().rev().enumerate() {
            // like Go: at most 50 innermost and 50 outermost frames
            if n > 100 && k >= 50 && k < n - 50 {
                if k == 50 {
                    text.push_str("...additional frames elided...\n");
                }
                continue;
            }
            let fc = &prog.funcs[f.func as usize];
            if fc.qual_name == "main.main" {
                text.push_str("main.main()\n");
            } else {
                text.push_str(&format!("{}(...)\n", fc.qual_name));
            }
            text.push_str(&format!("\t${{WORKDIR}}/main.go:{}\n", f.line));
        }
        let gid = g.id;
        self.stderr.push_str(&text);
        Stop::Exit(Exit::Panic { class, msg, goroutine: gid })
    }

    fn rt_error(&mut self, class: PanicClass, msg: &str) -> Stop {
        self.go_panic(class, format!("runtime error: {}", msg))
    }

    fn nil_deref(&mut self) -> Stop {
        self.rt_error(PanicClass::NilDeref, "invalid memory address or nil pointer dereference")
    }

    fn index_panic(&mut self, idx: i64, unsigned: bool, len: u64) -> Stop {
        let msg = if !unsigned && idx < 0 {
            format!("index out of range [{}]", idx)
        } else if unsigned {
            format!("index out of range [{}] with length {}", idx as u64, len)
        } else {
            format!("index out of range [{}] with length {}", idx, len)
        };
        self.rt_error(PanicClass::IndexOutOfRange, &msg)
    }

    fn unsupported(&self, what: &str) -> Stop {
        Stop::Exit(Exit::Unsupported(format!("{} (line {})", what, self.cur_line())))
    }

    // ---------------------------------------------------------- scheduler

    fn next_rand(&mut self) -> u64 {
        // splitmix64
        self.rng = self.rng.wrapping_add(0x9E3779B97F4A7C15);
        let mut z = self.rng;
        z = (z ^ (z >> 30)).wrapping_mul(0xBF58476D1CE4E5B9);
        z = (z ^ (z >> 27)).wrapping_mul(0x94D049BB133111EB);
        z ^ (z >> 31)
    }

    /// Called at yield points and when the current goroutine has ended.
    /// Returns false when nothing is runnable.
    fn schedule(&mut self, kind: YieldKind) -> bool {
        let runnable: Vec<usize> = (0..self.gs.len()).filter(|&i| !self.gs[i].done).collect();
        if runnable.is_empty() {
            return false;
        }
        if runnable.len() == 1 {
            self.cur = runnable[0];
            return true;
        }
        let n = runnable.len() as u32;
        let cur_pos = runnable.iter().position(|&i| i == self.cur);
        // the Deterministic policy's choice
        let det = match (kind, cur_pos) {
            (YieldKind::Other, Some(p)) => p,
            (_, Some(p)) => (p + 1) % runnable.len(),
            (_, None) => {
                // current goroutine ended: next one after it in id order
                runnable.iter().position(|&i| i > self.cur).unwrap_or(0)
            }
        };
        let chosen = match &self.cfg.sched {
            Sched::Deterministic => det,
            Sched::Random { .. } => {
                let starving = runnable.iter().enumerate().filter(|(_, &i)| self.gs[i].starve >= 63).max_by_key(|(_, &i)| self.gs[i].starve).map(|(p, _)| p);
                match starving {
                    Some(p) => p,
                    None => (self.next_rand() % n as u64) as usize,
                }
            }
            Sched::Script(v) => {
                let c = match v.get(self.choice_no) {
                    Some(x) => (*x % n) as usize,
                    None => det,
                };
                c
            }
        };
        self.choice_no += 1;
        if self.sched_choices.len() < MAX_CHOICES_RECORDED {
            self.sched_choices.push((n, chosen as u32));
        }
        if kind != YieldKind::GoroutineEnd {
            self.events.push(Event::Yield);
        }
        for (p, &i) in runnable.iter().enumerate() {
            if p == chosen {
                self.gs[i].starve = 0;
            } else {
                self.gs[i].starve += 1;
            }
        }
        self.cur = runnable[chosen];
        true
    }

    // ------------------------------------------------------------ helpers

    fn ref_id(&mut self, cell: u32) -> u64 {
        if let Some(&id) = self.ref_ids.get(&cell) {
            return id;
        }
        let id = self.next_ref;
        self.next_ref += 1;
        self.ref_ids.insert(cell, id);
        id
    }

    fn write_stdout(&mut self, bytes: &[u8]) -> Result<(), Stop> {
        self.stdout.extend_from_slice(bytes);
        self.events.push(Event::Print(String::from_utf8_lossy(bytes).into_owned()));
        if self.stdout.len() > self.cfg.max_output {
            return Err(Stop::Exit(Exit::Budget));
        }
        Ok(())
    }

    fn fmt_arg(&self, v: &Value) -> Result<Arg, Stop> {
        match v {
            Value::NilIface => Ok(Arg::Nil),
            Value::Iface(t, cell) => {
                let ty = self.tt().type_string(*t);
                if let Ty::Named(n) = self.tt().get(*t) {
                    let nm = &self.tt().named[*n as usize];
                    if nm.methods.iter().any(|m| m.name == "String" || m.name == "Error" || m.name == "Format" || m.name == "GoString") {
                        return Err(self.unsupported("fmt of a type with String/Error/Format method"));
                    }
                }
                let payload = &self.cells[*cell as usize];
                Ok(match (self.tt().under(*t), payload) {
                    (Ty::Bool, Value::Bool(b)) => Arg::Bool { v: *b, ty },
                    (Ty::Int(k), Value::Int(i)) => {
                        if k.signed() {
                            Arg::Int { v: *i, ty }
                        } else {
                            Arg::Uint { v: *i as u64, ty }
                        }
                    }
                    (Ty::F32, Value::F32(f)) => Arg::F32 { v: *f, ty },
                    (Ty::F64, Value::F64(f)) => Arg::F64 { v: *f, ty },
                    (Ty::Str, Value::Str(s)) => Arg::Str { v: s.to_vec(), ty },
                    _ => Arg::Other { ty },
                })
            }
            _ => Err(self.unsupported("internal: fmt operand is not an interface value")),
        }
    }

    /// Iterative deep equality. Err(type string) for an uncomparable
    /// dynamic type inside an interface.
    fn values_equal(&self, a: &Value, b: &Value) -> Result<bool, String> {
        let mut stack: Vec<(Value, Value)> = vec![(a.clone(), b.clone())];
        let mut budget = 0u64;
        while let Some((x, y)) = stack.pop() {
            budget += 1;
            if budget > 50_000_000 {
                return Err("#budget".to_string());
            }
            let eq = match (&x, &y) {
                (Value::Bool(p), Value::Bool(q)) => p == q,
                (Value::Int(p), Value::Int(q)) => p == q,
                (Value::F32(p), Value::F32(q)) => p == q,
                (Value::F64(p), Value::F64(q)) => p == q,
                (Value::Str(p), Value::Str(q)) => p == q,
                (Value::Ptr(p), Value::Ptr(q)) => p == q,
                (Value::Func(p), Value::Func(q)) => p == q,
                (Value::Slice { arr: p, .. }, Value::Slice { arr: q, .. }) => *p == NIL_IDX && *q == NIL_IDX,
                (Value::NilIface, Value::NilIface) => true,
                (Value::NilIface, Value::Iface(..)) | (Value::Iface(..), Value::NilIface) => false,
                (Value::Iface(t1, c1), Value::Iface(t2, c2)) => {
                    if t1 != t2 {
                        false
                    } else {
                        if !self.tt().comparable(*t1) {
                            return Err(self.tt().type_string(*t1));
                        }
                        stack.push((self.cells[*c1 as usize].clone(), self.cells[*c2 as usize].clone()));
                        true
                    }
                }
                (Value::Tuple(p), Value::Tuple(q)) => {
                    if p.len() != q.len() {
                        false
                    } else {
                        if !Rc::ptr_eq(p, q) || p.iter().any(|v| matches!(v, Value::Iface(..) | Value::F32(_) | Value::F64(_) | Value::Tuple(_))) {
                            for i in (0..p.len()).rev() {
                                stack.push((p[i].clone(), q[i].clone()));
                            }
                        }
                        true
                    }
                }
                _ => false,
            };
            if !eq {
                return Ok(false);
            }
        }
        Ok(true)
    }

    fn method_func(&self, dyn_ty: TypeId, name: &str) -> Option<(u32, bool)> {
        match self.tt().get(dyn_ty) {
            Ty::Named(_) => self.tt().find_method(dyn_ty, name).and_then(|m| m.func).map(|f| (f, false)),
            Ty::Pointer(e) => self.tt().find_method(*e, name).and_then(|m| m.func).map(|f| (f, true)),
            _ => None,
        }
    }

    // ---------------------------------------------------------- main loop

    fn run_loop(&mut self) -> Stop {
        loop {
            match self.step_block() {
                Ok(()) => {}
                Err(s) => return s,
            }
        }
    }

    /// Executes instructions of the current goroutine until something
    /// exceptional happens (errors are returned, scheduling switches happen
    /// inside).
    fn step_block(&mut self) -> Result<(), Stop> {
        let prog = self.prog;
        loop {
            let gi = self.cur;
            let (func, pc) = {
                let f = self.gs[gi].frames.last_mut().unwrap();
                let r = (f.func, f.pc);
                f.pc += 1;
                r
            };
            let ins = &prog.funcs[func as usize].code[pc as usize];
            macro_rules! stack {
                () => {
                    self.gs[gi].stack
                };
            }
            macro_rules! pop {
                () => {
                    self.gs[gi].stack.pop().unwrap_or(Value::Undef)
                };
            }
            macro_rules! push {
                ($v:expr) => {
                    self.gs[gi].stack.push($v)
                };
            }
            match ins {
                Ins::Step(line) => {
                    self.steps += 1;
                    if self.steps > self.cfg.step_budget {
                        return Err(Stop::Exit(Exit::Budget));
                    }
                    self.gs[gi].frames.last_mut().unwrap().line = *line;
                }
                Ins::Line(line) => {
                    self.gs[gi].frames.last_mut().unwrap().line = *line;
                }
                Ins::Const(i) => push!(prog.consts[*i as usize].clone()),
                Ins::LoadLocal(s) => {
                    let base = self.gs[gi].frames.last().unwrap().base as usize;
                    let v = stack!()[base + *s as usize].clone();
                    push!(v);
                }
                Ins::StoreLocal(s) => {
                    let base = self.gs[gi].frames.last().unwrap().base as usize;
                    let v = pop!();
                    stack!()[base + *s as usize] = v;
                }
                Ins::LoadGlobal(g) => {
                    let v = self.globals[*g as usize].clone();
                    push!(v);
                }
                Ins::StoreGlobal(g) => {
                    let v = pop!();
                    self.globals[*g as usize] = v;
                }
                Ins::Pop => {
                    pop!();
                }
                Ins::Field(i) => {
                    let v = pop!();
                    match v {
                        Value::Tuple(t) => push!(t[*i as usize].clone()),
                        _ => return Err(self.unsupported("internal: field of non-struct")),
                    }
                }
                Ins::FieldPtr(i) => {
                    let v = pop!();
                    match v {
                        Value::Ptr(NIL_IDX) => return Err(self.nil_deref()),
                        Value::Ptr(p) => match &self.cells[p as usize] {
                            Value::Tuple(t) => {
                                let f = t[*i as usize].clone();
                                push!(f);
                            }
                            _ => return Err(self.unsupported("internal: field of non-struct cell")),
                        },
                        _ => return Err(self.unsupported("internal: field through non-pointer")),
                    }
                }
                Ins::Deref => {
                    let v = pop!();
                    match v {
                        Value::Ptr(NIL_IDX) => return Err(self.nil_deref()),
                        Value::Ptr(p) => {
                            let c = self.cells[p as usize].clone();
                            push!(c);
                        }
                        _ => return Err(self.unsupported("internal: deref of non-pointer")),
                    }
                }
                Ins::IndexArray { unsigned } => {
                    let idx = int_of(&pop!());
                    let a = pop!();
                    match a {
                        Value::Tuple(t) => {
                            if (!*unsigned && idx < 0) || (idx as u64) >= t.len() as u64 {
                                return Err(self.index_panic(idx, *unsigned, t.len() as u64));
                            }
                            push!(t[idx as usize].clone());
                        }
                        _ => return Err(self.unsupported("internal: index of non-array")),
                    }
                }
                Ins::IndexSlice { unsigned } => {
                    let idx = int_of(&pop!());
                    let s = pop!();
                    match s {
                        Value::Slice { arr, off, len, .. } => {
                            if (!*unsigned && idx < 0) || (idx as u64) >= len as u64 {
                                return Err(self.index_panic(idx, *unsigned, len as u64));
                            }
                            let v = self.arrays[arr as usize].elems[off as usize + idx as usize].clone();
                            push!(v);
                        }
                        _ => return Err(self.unsupported("internal: index of non-slice")),
                    }
                }
                Ins::IndexStr { unsigned } => {
                    let idx = int_of(&pop!());
                    let s = pop!();
                    match s {
                        Value::Str(b) => {
                            if (!*unsigned && idx < 0) || (idx as u64) >= b.len() as u64 {
                                return Err(self.index_panic(idx, *unsigned, b.len() as u64));
                            }
                            push!(Value::Int(b[idx as usize] as i64));
                        }
                        _ => return Err(self.unsupported("internal: index of non-string")),
                    }
                }
                Ins::MakeTuple(n) => {
                    let len = stack!().len();
                    let vals: Vec<Value> = stack!().split_off(len - *n as usize);
                    push!(Value::Tuple(Rc::new(vals)));
                }
                Ins::MakeArray { n, total, zero } => {
                    let len = stack!().len();
                    let mut vals: Vec<Value> = stack!().split_off(len - *n as usize);
                    let z = prog.consts[*zero as usize].clone();
                    vals.resize(*total as usize, z);
                    push!(Value::Tuple(Rc::new(vals)));
                }
                Ins::MakeSliceLit { n } => {
                    let len = stack!().len();
                    let vals: Vec<Value> = stack!().split_off(len - *n as usize);
                    let arr = self.alloc_array(vals, *n)?;
                    push!(Value::Slice { arr, off: 0, len: *n, cap: *n });
                }
                Ins::MakeSlice { has_cap, zero, len_unsigned, cap_unsigned } => {
                    let capv = if *has_cap { Some(int_of(&pop!())) } else { None };
                    let lenv = int_of(&pop!());
                    if (!*len_unsigned && lenv < 0) || (lenv as u64) > (1 << 40) {
                        return Err(self.rt_error(PanicClass::Other, "makeslice: len out of range"));
                    }
                    let c = match capv {
                        Some(c) => {
                            if (!*cap_unsigned && c < 0) || (c as u64) > (1 << 40) || (c as u64) < lenv as u64 {
                                return Err(self.rt_error(PanicClass::Other, "makeslice: cap out of range"));
                            }
                            c as u64
                        }
                        None => lenv as u64,
                    };
                    if c > MAX_HEAP_SLOTS {
                        return Err(Stop::Exit(Exit::Budget));
                    }
                    let z = prog.consts[*zero as usize].clone();
                    let vals = vec![z; c as usize];
                    let arr = self.alloc_array(vals, lenv as u32)?;
                    push!(Value::Slice { arr, off: 0, len: lenv as u32, cap: c as u32 });
                }
                Ins::NewCell => {
                    let v = pop!();
                    let c = self.alloc_cell(v)?;
                    push!(Value::Ptr(c));
                }
                Ins::Neg(k) => {
                    let v = pop!();
                    let r = match (k, v) {
                        (NumK::Int(ik), Value::Int(i)) => Value::Int(ik.wrap(i.wrapping_neg())),
                        (NumK::F32, Value::F32(f)) => Value::F32(-f),
                        (NumK::F64, Value::F64(f)) => Value::F64(-f),
                        _ => return Err(self.unsupported("internal: negation operand")),
                    };
                    push!(r);
                }
                Ins::Not => {
                    let v = pop!();
                    match v {
                        Value::Bool(b) => push!(Value::Bool(!b)),
                        _ => return Err(self.unsupported("internal: ! operand")),
                    }
                }
                Ins::BitNot(k) => {
                    let v = int_of(&pop!());
                    push!(Value::Int(k.wrap(!v)));
                }
                Ins::Bin(op, k) => {
                    let y = pop!();
                    let x = pop!();
                    let r = self.binop(*op, *k, x, y)?;
                    push!(r);
                }
                Ins::Cmp(op, k) => {
                    let y = pop!();
                    let x = pop!();
                    let r = self.compare(*op, *k, &x, &y)?;
                    push!(Value::Bool(r));
                }
                Ins::Shift { left, kind, count_signed } => {
                    let c = int_of(&pop!());
                    let x = int_of(&pop!());
                    if *count_signed && c < 0 {
                        return Err(self.rt_error(PanicClass::Other, "negative shift amount"));
                    }
                    let cnt = c as u64;
                    let r = if *left {
                        if cnt >= 64 {
                            0
                        } else {
                            kind.wrap(x.wrapping_shl(cnt as u32))
                        }
                    } else if kind.signed() {
                        if cnt >= 64 {
                            if x < 0 {
                                -1
                            } else {
                                0
                            }
                        } else {
                            x >> cnt
                        }
                    } else if cnt >= 64 {
                        0
                    } else {
                        ((x as u64) >> cnt) as i64
                    };
                    push!(Value::Int(r));
                }
                Ins::Conv { from, to } => {
                    let v = pop!();
                    let r = self.convert(*from, *to, v)?;
                    push!(r);
                }
                Ins::IntToStr { unsigned } => {
                    let v = int_of(&pop!());
                    let cp: u32 = if *unsigned {
                        if (v as u64) > 0x10FFFF {
                            0xFFFD
                        } else {
                            v as u32
                        }
                    } else if !(0..=0x10FFFF).contains(&v) {
                        0xFFFD
                    } else {
                        v as u32
                    };
                    let cp = if (0xD800..0xE000).contains(&cp) { 0xFFFD } else { cp };
                    let mut out = Vec::new();
                    crate::lex::push_rune(&mut out, cp);
                    push!(Value::Str(Rc::from(out)));
                }
                Ins::StrToRunes => {
                    let v = pop!();
                    let bytes: Vec<u8> = match &v {
                        Value::Str(b) => b.to_vec(),
                        _ => return Err(self.rt_error(PanicClass::Other, "internal: []rune of a non-string")),
                    };
                    // decode as Go does: each invalid byte becomes U+FFFD
                    let mut vals: Vec<Value> = Vec::new();
                    let mut i = 0usize;
                    while i < bytes.len() {
                        match std::str::from_utf8(&bytes[i..]) {
                            Ok(rest) => {
                                for ch in rest.chars() {
                                    vals.push(Value::Int(ch as i64));
                                }
                                break;
                            }
                            Err(e) => {
                                let good = e.valid_up_to();
                                for ch in std::str::from_utf8(&bytes[i..i + good]).unwrap_or("").chars() {
                                    vals.push(Value::Int(ch as i64));
                                }
                                vals.push(Value::Int(0xFFFD));
                                i += good + 1;
                            }
                        }
                    }
                    let n = vals.len() as u32;
                    let arr = self.alloc_array(vals, n)?;
                    push!(Value::Slice { arr, off: 0, len: n, cap: n });
                }
                Ins::ToIface(t) => {
                    let v = pop!();
                    let c = self.alloc_cell(v)?;
                    push!(Value::Iface(*t, c));
                }
                Ins::Assert { target, target_iface, src } => {
                    let v = pop!();
                    match v {
                        Value::NilIface => {
                            let inter = if *target_iface { "interface".to_string() } else { self.tt().type_string(*src) };
                            let msg = format!("interface conversion: {} is nil, not {}", inter, self.tt().type_string(*target));
                            return Err(self.go_panic(PanicClass::TypeAssertion, msg));
                        }
                        Value::Iface(dt, cell) => {
                            if *target_iface {
                                match self.tt().missing_method(dt, *target) {
                                    None => push!(Value::Iface(dt, cell)),
                                    Some(m) => {
                                        let msg = format!(
                                            "interface conversion: {} is not {}: missing method {}",
                                            self.tt().type_string(dt),
                                            self.tt().type_string(*target),
                                            m
                                        );
                                        return Err(self.go_panic(PanicClass::TypeAssertion, msg));
                                    }
                                }
                            } else if dt == *target {
                                let p = self.cells[cell as usize].clone();
                                push!(p);
                            } else {
                                let msg = format!(
                                    "interface conversion: {} is {}, not {}",
                                    self.tt().type_string(*src),
                                    self.tt().type_string(dt),
                                    self.tt().type_string(*target)
                                );
                                return Err(self.go_panic(PanicClass::TypeAssertion, msg));
                            }
                        }
                        _ => return Err(self.unsupported("internal: assertion on non-interface")),
                    }
                }
                Ins::TypeTest { target, target_iface } => {
                    let v = pop!();
                    let r = match v {
                        Value::NilIface => *target == NIL_IDX,
                        Value::Iface(dt, _) => {
                            if *target == NIL_IDX {
                                false
                            } else if *target_iface {
                                self.tt().missing_method(dt, *target).is_none()
                            } else {
                                dt == *target
                            }
                        }
                        _ => return Err(self.unsupported("internal: type test on non-interface")),
                    };
                    push!(Value::Bool(r));
                }
                Ins::Unwrap => {
                    let v = pop!();
                    match v {
                        Value::Iface(_, cell) => {
                            let p = self.cells[cell as usize].clone();
                            push!(p);
                        }
                        _ => return Err(self.unsupported("internal: unwrap of non-interface")),
                    }
                }
                Ins::Jump(t) => {
                    self.gs[gi].frames.last_mut().unwrap().pc = *t;
                }
                Ins::JumpIfFalse(t) => {
                    if let Value::Bool(false) = pop!() {
                        self.gs[gi].frames.last_mut().unwrap().pc = *t;
                    }
                }
                Ins::JumpIfTrue(t) => {
                    if let Value::Bool(true) = pop!() {
                        self.gs[gi].frames.last_mut().unwrap().pc = *t;
                    }
                }
                Ins::LoopBack(t) => {
                    self.gs[gi].frames.last_mut().unwrap().pc = *t;
                    self.steps += 1;
                    if self.steps > self.cfg.step_budget {
                        return Err(Stop::Exit(Exit::Budget));
                    }
                    if self.gs.len() > 1 {
                        self.schedule(YieldKind::LoopBack);
                    }
                }
                Ins::Call { func, nargs } => {
                    self.enter(gi, *func, *nargs)?;
                }
                Ins::CallValue { nargs } => {
                    let len = stack!().len();
                    let fpos = len - *nargs as usize - 1;
                    let fv = stack!().remove(fpos);
                    match fv {
                        Value::Func(NIL_IDX) => return Err(self.nil_deref()),
                        Value::Func(f) => self.enter(gi, f, *nargs)?,
                        _ => return Err(self.unsupported("internal: call of non-function value")),
                    }
                }
                Ins::CallIface { name, nargs } => {
                    let len = stack!().len();
                    let rpos = len - *nargs as usize - 1;
                    let recv = stack!()[rpos].clone();
                    match recv {
                        Value::NilIface => return Err(self.nil_deref()),
                        Value::Iface(dt, cell) => {
                            let mname = &prog.strings[*name as usize];
                            match self.method_func(dt, mname) {
                                Some((f, via_ptr)) => {
                                    let payload = self.cells[cell as usize].clone();
                                    let recv_val = if via_ptr {
                                        match payload {
                                            Value::Ptr(NIL_IDX) => return Err(self.unsupported("value method called through nil pointer in interface")),
                                            Value::Ptr(p) => self.cells[p as usize].clone(),
                                            _ => return Err(self.unsupported("internal: pointer receiver payload")),
                                        }
                                    } else {
                                        payload
                                    };
                                    stack!()[rpos] = recv_val;
                                    self.enter(gi, f, *nargs + 1)?;
                                }
                                None => return Err(self.unsupported("internal: method not found on dynamic type")),
                            }
                        }
                        _ => return Err(self.unsupported("internal: interface call receiver")),
                    }
                }
                Ins::Len(kind) => {
                    let v = pop!();
                    let n = match (kind, &v) {
                        (0, Value::Str(s)) => s.len() as i64,
                        (1, Value::Slice { len, .. }) => *len as i64,
                        (2, Value::Tuple(t)) => t.len() as i64,
                        _ => return Err(self.unsupported("internal: len operand")),
                    };
                    push!(Value::Int(n));
                }
                Ins::Cap => {
                    let v = pop!();
                    match v {
                        Value::Slice { cap, .. } => push!(Value::Int(cap as i64)),
                        _ => return Err(self.unsupported("internal: cap operand")),
                    }
                }
                Ins::Append { n, elem } => {
                    let len = stack!().len();
                    let vals: Vec<Value> = stack!().split_off(len - *n as usize);
                    let s = pop!();
                    let r = self.append(s, vals, elem)?;
                    self.gs[gi].stack.push(r);
                }
                Ins::Panic => {
                    let v = pop!();
                    match v {
                        Value::Iface(t, cell) => {
                            let payload = self.cells[cell as usize].clone();
                            match (self.tt().get(t), payload) {
                                (Ty::Str, Value::Str(s)) => {
                                    let msg = String::from_utf8_lossy(&s).into_owned();
                                    return Err(self.go_panic(PanicClass::Explicit, msg));
                                }
                                _ => return Err(self.unsupported("panic with a non-string value")),
                            }
                        }
                        Value::NilIface => return Err(self.unsupported("panic(nil)")),
                        _ => return Err(self.unsupported("internal: panic operand")),
                    }
                }
                Ins::Print { n, newline, kinds } => {
                    let len = stack!().len();
                    let vals: Vec<Value> = stack!().split_off(len - *n as usize);
                    let ks = &prog.print_kinds[*kinds as usize];
                    let mut out = String::new();
                    for (i, (v, k)) in vals.iter().zip(ks.iter()).enumerate() {
                        if i > 0 && *newline {
                            out.push(' ');
                        }
                        match (k, v) {
                            (NumKOrBool::Bool, Value::Bool(b)) => out.push_str(if *b { "true" } else { "false" }),
                            (NumKOrBool::Num(NumK::Int(ik)), Value::Int(x)) => {
                                if ik.signed() {
                                    out.push_str(&x.to_string());
                                } else {
                                    out.push_str(&(*x as u64).to_string());
                                }
                            }
                            (NumKOrBool::Num(NumK::F32), Value::F32(f)) => out.push_str(&runtime_printfloat(*f as f64)),
                            (NumKOrBool::Num(NumK::F64), Value::F64(f)) => out.push_str(&runtime_printfloat(*f)),
                            (NumKOrBool::Num(NumK::Str), Value::Str(s)) => out.push_str(&String::from_utf8_lossy(s)),
                            _ => return Err(self.unsupported("internal: print operand")),
                        }
                    }
                    if *newline {
                        out.push('\n');
                    }
                    self.stderr.push_str(&out);
                    if self.stderr.len() > self.cfg.max_output {
                        return Err(Stop::Exit(Exit::Budget));
                    }
                }
                Ins::Fmt { f, nargs } => {
                    let len = stack!().len();
                    let vals: Vec<Value> = stack!().split_off(len - *nargs as usize);
                    let is_print = matches!(f, PkgFn::FmtPrint | PkgFn::FmtPrintln | PkgFn::FmtPrintf);
                    if is_print && self.gs.len() > 1 {
                        // yield point before the output happens; the call is
                        // re-executed when this goroutine is resumed
                        // (operands are pushed back)
                        // To keep it simple the yield happens after the
                        // operands were evaluated: schedule first, then print
                        // when control returns. We implement that by
                        // switching after the print instead, which is
                        // equivalent for an observer of stdout ordering only
                        // if no other goroutine prints in between; therefore
                        // we yield *before*: push operands back, rewind pc.
                        if !self.yield_pending(gi) {
                            self.gs[gi].stack.extend(vals);
                            self.gs[gi].frames.last_mut().unwrap().pc -= 1;
                            self.set_yield_pending(gi, true);
                            self.schedule(YieldKind::Other);
                            continue;
                        }
                        self.set_yield_pending(gi, false);
                    }
                    let out = {
                        let res = match f {
                            PkgFn::FmtPrintf | PkgFn::FmtSprintf => {
                                let fmt = match vals.first() {
                                    Some(Value::Str(s)) => s.clone(),
                                    _ => return Err(self.unsupported("internal: format operand")),
                                };
                                let mut args = Vec::new();
                                for v in &vals[1..] {
                                    args.push(self.fmt_arg(v)?);
                                }
                                fmtgo::sprintf(&fmt, &args)
                            }
                            PkgFn::FmtPrint | PkgFn::FmtSprint => {
                                let mut args = Vec::new();
                                for v in &vals {
                                    args.push(self.fmt_arg(v)?);
                                }
                                fmtgo::sprint(&args)
                            }
                            _ => {
                                let mut args = Vec::new();
                                for v in &vals {
                                    args.push(self.fmt_arg(v)?);
                                }
                                fmtgo::sprintln(&args)
                            }
                        };
                        match res {
                            Ok(o) => o,
                            Err(e) => return Err(self.unsupported(&e.0)),
                        }
                    };
                    if is_print {
                        self.write_stdout(&out)?;
                    } else {
                        self.gs[gi].stack.push(Value::Str(Rc::from(out)));
                    }
                }
                Ins::Return(has) => {
                    let v = if *has { Some(pop!()) } else { None };
                    let fr = self.gs[gi].frames.pop().unwrap();
                    if prog.funcs[fr.func as usize].ref_kind == RefKind::New {
                        if let Some(Value::Ptr(c)) = &v {
                            if *c != NIL_IDX {
                                let id = self.ref_id(*c);
                                self.events.push(Event::RefNew(id));
                            }
                        }
                    }
                    self.gs[gi].stack.truncate(fr.base as usize);
                    if self.gs[gi].frames.is_empty() {
                        self.gs[gi].done = true;
                        if gi == 0 {
                            // main (or init) returned: program (phase) ends
                            return Err(Stop::Exit(Exit::Ok));
                        }
                        if !self.schedule(YieldKind::GoroutineEnd) {
                            return Err(Stop::Exit(Exit::Deadlock));
                        }
                        continue;
                    }
                    if let Some(v) = v {
                        self.gs[gi].stack.push(v);
                    }
                }
                Ins::Go { func, nargs } => {
                    let len = stack!().len();
                    let args: Vec<Value> = stack!().split_off(len - *nargs as usize);
                    self.spawn(*func, args)?;
                }
                Ins::GoValue { nargs } => {
                    let len = stack!().len();
                    let args: Vec<Value> = stack!().split_off(len - *nargs as usize);
                    let fv = pop!();
                    match fv {
                        Value::Func(NIL_IDX) => return Err(self.go_panic(PanicClass::NilDeref, "go of nil func value".to_string())),
                        Value::Func(f) => self.spawn(f, args)?,
                        _ => return Err(self.unsupported("internal: go of non-function")),
                    }
                }
                Ins::Store(p) => {
                    self.store(gi, *p)?;
                }
                Ins::Unsupported(s) => {
                    return Err(self.unsupported(&prog.strings[*s as usize]));
                }
            }
        }
    }

    fn yield_pending(&self, gi: usize) -> bool {
        self.gs[gi].yield_pending
    }

    fn set_yield_pending(&mut self, gi: usize, on: bool) {
        self.gs[gi].yield_pending = on;
    }

    fn spawn(&mut self, func: u32, args: Vec<Value>) -> Result<(), Stop> {
        if self.gs.iter().filter(|g| !g.done).count() >= MAX_GOROUTINES || self.gs.len() >= 4 * MAX_GOROUTINES {
            return Err(Stop::Exit(Exit::Budget));
        }
        let prog: &'a Program = self.prog;
        let fc = &prog.funcs[func as usize];
        let mut stack = args;
        stack.resize(fc.nlocals as usize, Value::Undef);
        let id = self.next_gid;
        self.next_gid += 1;
        self.gs.push(Goroutine { id, stack, frames: vec![Frame { func, pc: 0, base: 0, line: fc.line }], done: false, starve: 0, yield_pending: false });
        self.events.push(Event::Spawn(id));
        Ok(())
    }

    /// Pushes a frame for `func`; the arguments are on the stack.
    fn enter(&mut self, gi: usize, func: u32, nargs: u32) -> Result<(), Stop> {
        let prog: &'a Program = self.prog;
        let fc = &prog.funcs[func as usize];
        self.steps += 1;
        if self.steps > self.cfg.step_budget {
            return Err(Stop::Exit(Exit::Budget));
        }
        if self.gs[gi].frames.len() >= MAX_FRAMES {
            return Err(Stop::Exit(Exit::Budget));
        }
        if nargs != fc.nparams {
            return Err(self.unsupported("internal: argument count at call"));
        }
        if self.cfg.trace_calls {
            self.events.push(Event::Call(fc.name.clone()));
        }
        let base = self.gs[gi].stack.len() - nargs as usize;
        match fc.ref_kind {
            RefKind::Get | RefKind::Set => {
                if let Some(Value::Ptr(c)) = self.gs[gi].stack.get(base) {
                    let c = *c;
                    if c != NIL_IDX {
                        let id = self.ref_id(c);
                        self.events.push(if fc.ref_kind == RefKind::Get { Event::RefGet(id) } else { Event::RefSet(id) });
                    }
                }
            }
            _ => {}
        }
        let extra = fc.nlocals as usize - nargs as usize;
        let st = &mut self.gs[gi].stack;
        st.resize(st.len() + extra, Value::Undef);
        if st.len() > 4_000_000 {
            return Err(Stop::Exit(Exit::Budget));
        }
        let line = self.gs[gi].frames.last().map_or(fc.line, |f| f.line);
        let _ = line;
        self.gs[gi].frames.push(Frame { func, pc: 0, base: base as u32, line: fc.line });
        if fc.ref_kind != RefKind::None && self.gs.len() > 1 {
            // yield point at the entry of a Ref helper
            self.schedule(YieldKind::Other);
        }
        Ok(())
    }

    fn store(&mut self, gi: usize, pidx: u32) -> Result<(), Stop> {
        enum SErr {
            Nil,
            Index(i64, bool, u64),
            Internal(&'static str),
        }
        let prog: &'a Program = self.prog;
        let path = &prog.paths[pidx as usize];
        let value = self.gs[gi].stack.pop().unwrap_or(Value::Undef);
        let n_idx = path.steps.iter().filter(|s| matches!(s, Step::ArrIndex { .. })).count() + if path.root == Root::SliceElem { 1 } else { 0 };
        let len = self.gs[gi].stack.len();
        let idxs: Vec<i64> = self.gs[gi].stack.split_off(len - n_idx).iter().map(int_of).collect();
        let mut idx_iter = idxs.into_iter();
        let root_operand = match path.root {
            Root::Ptr | Root::SliceElem => Some(self.gs[gi].stack.pop().unwrap_or(Value::Undef)),
            _ => None,
        };
        let res: Result<(), SErr> = (|| {
            let Vm { gs, globals, cells, arrays, .. } = self;
            let mut cur: &mut Value = match path.root {
                Root::Local(s) => {
                    let base = gs[gi].frames.last().unwrap().base as usize;
                    &mut gs[gi].stack[base + s as usize]
                }
                Root::Global(g) => &mut globals[g as usize],
                Root::Ptr => match root_operand {
                    Some(Value::Ptr(NIL_IDX)) => return Err(SErr::Nil),
                    Some(Value::Ptr(c)) => &mut cells[c as usize],
                    _ => return Err(SErr::Internal("internal: store through non-pointer")),
                },
                Root::SliceElem => {
                    let idx = idx_iter.next().unwrap_or(0);
                    match root_operand {
                        Some(Value::Slice { arr, off, len, .. }) => {
                            if (!path.root_index_unsigned && idx < 0) || (idx as u64) >= len as u64 {
                                return Err(SErr::Index(idx, path.root_index_unsigned, len as u64));
                            }
                            &mut arrays[arr as usize].elems[off as usize + idx as usize]
                        }
                        _ => return Err(SErr::Internal("internal: store into non-slice")),
                    }
                }
            };
            for st in &path.steps {
                match st {
                    Step::Field(i) => match cur {
                        Value::Tuple(t) => {
                            cur = &mut Rc::make_mut(t)[*i as usize];
                        }
                        _ => return Err(SErr::Internal("internal: field store into non-struct")),
                    },
                    Step::ArrIndex { unsigned, .. } => {
                        let idx = idx_iter.next().unwrap_or(0);
                        match cur {
                            Value::Tuple(t) => {
                                if (!*unsigned && idx < 0) || (idx as u64) >= t.len() as u64 {
                                    return Err(SErr::Index(idx, *unsigned, t.len() as u64));
                                }
                                cur = &mut Rc::make_mut(t)[idx as usize];
                            }
                            _ => return Err(SErr::Internal("internal: index store into non-array")),
                        }
                    }
                }
            }
            *cur = value;
            Ok(())
        })();
        match res {
            Ok(()) => Ok(()),
            Err(SErr::Nil) => Err(self.nil_deref()),
            Err(SErr::Index(i, u, l)) => Err(self.index_panic(i, u, l)),
            Err(SErr::Internal(m)) => Err(self.unsupported(m)),
        }
    }

    fn append(&mut self, s: Value, vals: Vec<Value>, elem: &ElemInfo) -> Result<Value, Stop> {
        let (arr, off, len, cap) = match s {
            Value::Slice { arr, off, len, cap } => (arr, off, len, cap),
            _ => return Err(self.unsupported("internal: append to non-slice")),
        };
        let n = vals.len() as u32;
        if n == 0 {
            return Ok(Value::Slice { arr, off, len, cap });
        }
        let newlen = len as u64 + n as u64;
        if newlen <= cap as u64 && arr != NIL_IDX {
            let start = off + len;
            let line = self.cur_line();
            let b = &mut self.arrays[arr as usize];
            if start < b.hi_water {
                self.events.push(Event::SliceFork { line });
            }
            for (i, v) in vals.into_iter().enumerate() {
                b.elems[start as usize + i] = v;
            }
            b.hi_water = b.hi_water.max(start + n);
            return Ok(Value::Slice { arr, off, len: newlen as u32, cap });
        }
        let (c_new, c_old) = grow_cap(newlen, cap as u64, elem.size, elem.has_pointers);
        if c_new != c_old {
            let line = self.cur_line();
            self.events.push(Event::GrowUncertain { line });
        }
        if c_new > MAX_HEAP_SLOTS {
            return Err(Stop::Exit(Exit::Budget));
        }
        let mut elems: Vec<Value> = Vec::with_capacity(c_new as usize);
        if arr != NIL_IDX {
            let b = &self.arrays[arr as usize];
            elems.extend_from_slice(&b.elems[off as usize..(off + len) as usize]);
        }
        elems.extend(vals);
        let z = self.prog.consts[elem.zero as usize].clone();
        elems.resize(c_new as usize, z);
        let na = self.alloc_array(elems, newlen as u32)?;
        Ok(Value::Slice { arr: na, off: 0, len: newlen as u32, cap: c_new as u32 })
    }

    fn binop(&mut self, op: BinOp, k: NumK, x: Value, y: Value) -> Result<Value, Stop> {
        Ok(match (k, x, y) {
            (NumK::Int(ik), Value::Int(a), Value::Int(b)) => {
                let r = match op {
                    BinOp::Add => a.wrapping_add(b),
                    BinOp::Sub => a.wrapping_sub(b),
                    BinOp::Mul => a.wrapping_mul(b),
                    BinOp::Div | BinOp::Rem => {
                        if b == 0 {
                            return Err(self.rt_error(PanicClass::DivideByZero, "integer divide by zero"));
                        }
                        if ik.signed() {
                            if op == BinOp::Div {
                                a.wrapping_div(b)
                            } else {
                                a.wrapping_rem(b)
                            }
                        } else if op == BinOp::Div {
                            ((a as u64) / (b as u64)) as i64
                        } else {
                            ((a as u64) % (b as u64)) as i64
                        }
                    }
                    BinOp::And => a & b,
                    BinOp::Or => a | b,
                    BinOp::Xor => a ^ b,
                    BinOp::AndNot => a & !b,
                    _ => return Err(self.unsupported("internal: integer operator")),
                };
                Value::Int(ik.wrap(r))
            }
            (NumK::F32, Value::F32(a), Value::F32(b)) => Value::F32(match op {
                BinOp::Add => a + b,
                BinOp::Sub => a - b,
                BinOp::Mul => a * b,
                BinOp::Div => a / b,
                _ => return Err(self.unsupported("internal: float operator")),
            }),
            (NumK::F64, Value::F64(a), Value::F64(b)) => Value::F64(match op {
                BinOp::Add => a + b,
                BinOp::Sub => a - b,
                BinOp::Mul => a * b,
                BinOp::Div => a / b,
                _ => return Err(self.unsupported("internal: float operator")),
            }),
            (NumK::Str, Value::Str(a), Value::Str(b)) => {
                if op != BinOp::Add {
                    return Err(self.unsupported("internal: string operator"));
                }
                if b.is_empty() {
                    Value::Str(a)
                } else if a.is_empty() {
                    Value::Str(b)
                } else {
                    let mut v = Vec::with_capacity(a.len() + b.len());
                    v.extend_from_slice(&a);
                    v.extend_from_slice(&b);
                    self.string_bytes += v.len() as u64;
                    if self.string_bytes > MAX_STRING_BYTES {
                        return Err(Stop::Exit(Exit::Budget));
                    }
                    Value::Str(Rc::from(v))
                }
            }
            _ => return Err(self.unsupported("internal: operands of binary operator")),
        })
    }

    fn compare(&mut self, op: BinOp, k: CmpK, x: &Value, y: &Value) -> Result<bool, Stop> {
        use std::cmp::Ordering;
        let ord: Option<Ordering> = match (k, x, y) {
            (CmpK::Signed, Value::Int(a), Value::Int(b)) => Some(a.cmp(b)),
            (CmpK::Unsigned, Value::Int(a), Value::Int(b)) => Some((*a as u64).cmp(&(*b as u64))),
            (CmpK::F32, Value::F32(a), Value::F32(b)) => a.partial_cmp(b),
            (CmpK::F64, Value::F64(a), Value::F64(b)) => a.partial_cmp(b),
            (CmpK::Str, Value::Str(a), Value::Str(b)) => Some(a.as_ref().cmp(b.as_ref())),
            (CmpK::Bool, Value::Bool(a), Value::Bool(b)) => Some(a.cmp(b)),
            (CmpK::Deep, _, _) => {
                let eq = match self.values_equal(x, y) {
                    Ok(e) => e,
                    Err(t) if t == "#budget" => return Err(Stop::Exit(Exit::Budget)),
                    Err(t) => {
                        return Err(self.rt_error(PanicClass::UncomparableInterface, &format!("comparing uncomparable type {}", t)));
                    }
                };
                return Ok(match op {
                    BinOp::Eq => eq,
                    BinOp::Ne => !eq,
                    _ => return Err(self.unsupported("internal: ordered comparison of non-ordered values")),
                });
            }
            _ => return Err(self.unsupported("internal: comparison operands")),
        };
        // unordered (NaN): every comparison is false except !=
        Ok(match (op, ord) {
            (BinOp::Ne, None) => true,
            (_, None) => false,
            (BinOp::Eq, Some(o)) => o == Ordering::Equal,
            (BinOp::Ne, Some(o)) => o != Ordering::Equal,
            (BinOp::Lt, Some(o)) => o == Ordering::Less,
            (BinOp::Le, Some(o)) => o != Ordering::Greater,
            (BinOp::Gt, Some(o)) => o == Ordering::Greater,
            (BinOp::Ge, Some(o)) => o != Ordering::Less,
            _ => return Err(self.unsupported("internal: comparison operator")),
        })
    }

    fn convert(&mut self, from: NumK, to: NumK, v: Value) -> Result<Value, Stop> {
        Ok(match (from, to, v) {
            (NumK::Int(_), NumK::Int(tk), Value::Int(i)) => Value::Int(tk.wrap(i)),
            (NumK::Int(fk), NumK::F64, Value::Int(i)) => Value::F64(if fk.signed() { i as f64 } else { (i as u64) as f64 }),
            (NumK::Int(fk), NumK::F32, Value::Int(i)) => Value::F32(if fk.signed() { i as f32 } else { (i as u64) as f32 }),
            (NumK::F32, NumK::F64, Value::F32(f)) => Value::F64(f as f64),
            (NumK::F64, NumK::F32, Value::F64(f)) => Value::F32(f as f32),
            (NumK::F32, NumK::Int(tk), Value::F32(f)) => self.float_to_int(f as f64, tk)?,
            (NumK::F64, NumK::Int(tk), Value::F64(f)) => self.float_to_int(f, tk)?,
            (a, b, v) if a == b => v,
            _ => return Err(self.unsupported("internal: numeric conversion")),
        })
    }

    fn float_to_int(&mut self, f: f64, tk: IntK) -> Result<Value, Stop> {
        if f.is_nan() {
            return Err(self.unsupported("conversion of NaN to integer (implementation specific in Go)"));
        }
        let t = f.trunc();
        let (lo, hi) = tk.min_max();
        // exact range test in f64: lo is a power of two (exact); hi+1 is exact
        let lo_f = lo as f64;
        let hi_plus1 = (hi + 1) as f64;
        if t < lo_f || t >= hi_plus1 {
            return Err(self.unsupported("float to integer conversion out of range (implementation specific in Go)"));
        }
        if tk.signed() {
            Ok(Value::Int(t as i64))
        } else {
            Ok(Value::Int((t as u64) as i64))
        }
    }
}

/// The Go runtime's printfloat (used by the builtin print/println).
pub fn runtime_printfloat(v: f64) -> String {
    if v.is_nan() {
        return "NaN".to_string();
    }
    if v == f64::INFINITY {
        return "+Inf".to_string();
    }
    if v == f64::NEG_INFINITY {
        return "-Inf".to_string();
    }
    const N: usize = 7;
    let mut buf = [b'0'; N + 7];
    buf[0] = b'+';
    let mut e: i32 = 0;
    let mut v = v;
    if v == 0.0 {
        if v.is_sign_negative() {
            buf[0] = b'-';
        }
    } else {
        if v < 0.0 {
            v = -v;
            buf[0] = b'-';
        }
        while v >= 10.0 {
            e += 1;
            v /= 10.0;
        }
        while v < 1.0 {
            e -= 1;
            v *= 10.0;
        }
        let mut h = 5.0;
        for _ in 0..N {
            h /= 10.0;
        }
        v += h;
        if v >= 10.0 {
            e += 1;
            v /= 10.0;
        }
    }
    for i in 0..N {
        let s = v as i64;
        buf[i + 2] = (s as u8) + b'0';
        v -= s as f64;
        v *= 10.0;
    }
    buf[1] = buf[2];
    buf[2] = b'.';
    buf[N + 2] = b'e';
    buf[N + 3] = b'+';
    if e < 0 {
        e = -e;
        buf[N + 3] = b'-';
    }
    buf[N + 4] = (e / 100) as u8 + b'0';
    buf[N + 5] = ((e / 10) % 10) as u8 + b'0';
    buf[N + 6] = (e % 10) as u8 + b'0';
    String::from_utf8_lossy(&buf).into_owned()
}
