//! Differential execution of one GL program: refsem (source meaning) vs the emitted Go run by gomini.
use crate::capi;
use crate::gl::ast::{PrintOpts, Program, print_program};
use crate::gl::eval::{self, Stop};
use crate::goexec::{self, Term, Vet};
use crate::runner::{self, Case};
use crate::util;
use serde_json::{Value, json};

pub enum Outcome {
    /// compiled, valid Go, executed, agreed with refsem
    Agree { stdout_len: usize, failed_as_expected: bool },
    Violation,
    /// the compiler rejected the program (stage, first message)
    Rejected(String, String),
    Inconclusive(String),
}

pub struct DiffOpts {
    pub prop: &'static str,
    /// report invalid Go as a violation of this property (C02) instead of skipping
    pub vet_is_violation: bool,
    pub budget: u64,
    pub print: PrintOpts,
}

fn fail_class_matches(expected: &str, got: &str) -> bool {
    match expected {
        "missing-match" => got == "explicit-panic",
        other => other == got,
    }
}

pub fn first_diff(a: &str, b: &str) -> usize {
    a.bytes().zip(b.bytes()).take_while(|(x, y)| x == y).count()
}

/// message class for reject buckets (identifiers and numbers stripped)
pub fn msg_class(m: &str) -> String {
    let mut out = String::new();
    let mut in_word_with_digit = false;
    for w in m.split_whitespace().take(8) {
        let has_digit = w.chars().any(|c| c.is_ascii_digit());
        let _ = in_word_with_digit;
        in_word_with_digit = has_digit;
        if has_digit || w.len() > 24 {
            out.push_str("# ");
        } else {
            out.push_str(w);
            out.push(' ');
        }
    }
    out.trim().to_string()
}

/// For workloads made of programs that are valid by construction: a compiler crash on one of them is a
/// violation of the property at hand (the program is not compiled to what it means), not only a C04 event.
pub fn inconclusive_unless_crash(case: &mut Case, prop: &str, reason: &str, label: &str, src: &str) {
    if reason.starts_with("compiler panic") {
        case.violation(
            format!("{}:compiler-crash-on-valid-program:{}", prop, msg_class(reason)),
            format!("a program that is valid by construction makes the compiler crash: {}", reason),
            json!({"label": label, "source": util::truncate(src, 8000)}),
        );
    } else {
        case.inconclusive(msg_class(reason));
    }
}

/// keep the source of odd-but-not-violating cases (rejects of generated programs, invalid Go outside C02) for triage;
/// at most one file per (property, class), under /verif/out/triage (not read by any check)
pub fn stash(prop: &str, class: &str, label: &str, src: &str) {
    let dir = util::verif_root().join("out/triage").join(prop);
    let _ = std::fs::create_dir_all(&dir);
    let f = dir.join(format!("{:016x}.gom", util::hash_str(class)));
    if !f.exists() {
        let _ = std::fs::write(&f, format!("// {} :: {}\n{}", label, class.replace('\n', " "), src));
    }
}

pub fn run_diff(case: &mut Case, prog: &Program, label: &str, opts: &DiffOpts) -> Outcome {
    let src = print_program(prog, opts.print);
    run_diff_src(case, prog, &src, label, opts)
}

pub fn run_diff_src(case: &mut Case, prog: &Program, src: &str, label: &str, opts: &DiffOpts) -> Outcome {
    runner::note_input(src);
    case.count("programs", 1);
    // 1. source meaning
    let exp = eval::run_program(prog, opts.budget);
    match &exp.stop {
        Some(Stop::Budget) => {
            case.count("refsem_budget", 1);
            return Outcome::Inconclusive("refsem budget".into());
        }
        Some(Stop::Unmodelled(m)) => {
            case.count("refsem_unmodelled", 1);
            stash("refsem", &format!("refsem: {}", msg_class(m)), label, src);
            return Outcome::Inconclusive(format!("refsem: {}", m));
        }
        _ => {}
    }
    // 2. compile
    let comp = runner::guard(|| capi::compile_single(src).map(|c| capi::go_text(&c)));
    let go = match comp {
        Err(p) => {
            case.count("compiler_panics", 1);
            case.count(&format!("compiler_panic@{}", p.site), 1);
            return Outcome::Inconclusive(format!("compiler panic at {} (a C04 event)", p.site));
        }
        Ok(Err(e)) => {
            let stage = capi::err_stage(&e).to_string();
            let msg = capi::err_messages(&e).first().cloned().unwrap_or_default();
            case.count("rejected", 1);
            case.count(&format!("rejected:{}:{}", stage, msg_class(&msg)), 1);
            stash(opts.prop, &format!("rejected:{}:{}", stage, msg_class(&msg)), label, src);
            return Outcome::Rejected(stage, msg);
        }
        Ok(Ok(go)) => go,
    };
    case.count("accepted", 1);
    // 3. valid Go?
    let gp = goexec::parse(&go);
    match goexec::vet(&gp) {
        Vet::Accept => {}
        Vet::Unsupported(u) => {
            case.count("vet_unsupported", 1);
            return Outcome::Inconclusive(format!("gomini vet unsupported: {}", u));
        }
        Vet::Reject(errs) => {
            case.count("invalid_go", 1);
            let (kind, line, msg) = errs[0].clone();
            let go_line = go.lines().nth(line.saturating_sub(1) as usize).unwrap_or("").trim().to_string();
            if opts.vet_is_violation {
                case.violation(
                    format!("invalid-go:{}:{}", kind, crate::props::c02::line_shape(&go_line)),
                    format!("accepted program yields Go that the Go compiler rejects: [{}] {} at `{}`", kind, util::truncate(&msg, 160), util::truncate(&go_line, 120)),
                    json!({"label": label, "source": src, "go_line": go_line, "vet_errors": errs.iter().take(5).map(|(k,l,m)| json!({"kind":k,"line":l,"msg":m})).collect::<Vec<_>>(), "go": util::truncate(&go, 20000)}),
                );
                return Outcome::Violation;
            }
            case.count(&format!("invalid_go:{}", kind), 1);
            stash(opts.prop, &format!("invalid_go:{}:{}", kind, crate::props::c02::line_shape(&go_line)), label, src);
            return Outcome::Inconclusive(format!("emitted Go is invalid ({}): C02's business", kind));
        }
    }
    case.count("valid_go", 1);
    // 4. execute
    let run = goexec::run(&gp, 20_000_000, gomini::Sched::Deterministic);
    match &run.term {
        Term::Unsupported(u) => {
            case.count("run_unsupported", 1);
            return Outcome::Inconclusive(format!("gomini run unsupported: {}", u));
        }
        Term::Budget => {
            case.count("run_budget", 1);
            return Outcome::Inconclusive("gomini step budget".into());
        }
        _ => {}
    }
    if run.slice_forks > 0 {
        case.count("slice_fork_events", 1);
    }
    if run.grow_uncertain > 0 {
        case.count("grow_uncertain_events", 1);
        return Outcome::Inconclusive("slice growth differs between Go releases".into());
    }
    case.count("executed", 1);
    let detail = |what: &str| -> Value {
        json!({"label": label, "what": what, "source": src, "expected_stdout": util::truncate(&exp.stdout, 4000), "got_stdout": util::truncate(&run.stdout, 4000),
               "expected_stop": format!("{:?}", exp.stop), "got_term": format!("{:?}", run.term), "stderr": util::truncate(&run.stderr, 600),
               "first_difference_at": first_diff(&exp.stdout, &run.stdout), "go": util::truncate(&go, 30000)})
    };
    match (&exp.stop, &run.term) {
        (None, Term::Ok) => {
            if exp.stdout != run.stdout {
                case.violation(format!("{}:stdout-differs", opts.prop), format!("emitted Go prints something else than the source means (first difference at byte {})", first_diff(&exp.stdout, &run.stdout)), detail("stdout"));
                return Outcome::Violation;
            }
            Outcome::Agree { stdout_len: exp.stdout.len(), failed_as_expected: false }
        }
        (Some(Stop::Fail(k)), Term::Fail(g)) => {
            if !fail_class_matches(k, g) {
                case.violation(format!("{}:failure-class-differs:{}->{}", opts.prop, k, g), format!("source fails with {} but the Go program fails with {}", k, g), detail("failure class"));
                return Outcome::Violation;
            }
            if exp.stdout != run.stdout {
                case.violation(format!("{}:failure-point-differs:{}", opts.prop, k), format!("both fail with {}, but at different points of the output (first difference at byte {})", k, first_diff(&exp.stdout, &run.stdout)), detail("failure point"));
                return Outcome::Violation;
            }
            case.count("failed_as_expected", 1);
            Outcome::Agree { stdout_len: exp.stdout.len(), failed_as_expected: true }
        }
        (None, Term::Fail(g)) => {
            case.violation(format!("{}:unexpected-failure:{}", opts.prop, g), format!("source terminates normally but the Go program fails with {}", g), detail("unexpected failure"));
            Outcome::Violation
        }
        (Some(Stop::Fail(k)), Term::Ok) => {
            case.violation(format!("{}:failure-lost:{}", opts.prop, k), format!("source fails with {} but the Go program terminates normally", k), detail("failure lost"));
            Outcome::Violation
        }
        _ => Outcome::Inconclusive("unclassified".into()),
    }
}
