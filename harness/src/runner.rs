//! Sharded, isolated, budgeted execution of property workloads.
//!
//! Parent: spawns N worker processes (re-exec of this binary), attributes any
//! worker death to the case named in the worker's progress file, restarts the
//! shard after that case, merges per-shard summaries, applies the
//! known-findings file, writes replay files, evidence and the verdict.
//!
//! Worker: runs cases one by one under a panic hook and a per-case CPU-time
//! watchdog; address space is capped with RLIMIT_AS.

use serde_json::{Value, json};
use std::collections::{BTreeMap, HashSet};
use std::io::Write;
use std::panic::{AssertUnwindSafe, catch_unwind};
use std::path::{Path, PathBuf};
use std::sync::Mutex;
use std::sync::atomic::{AtomicU64, Ordering};
use std::time::{Duration, Instant};

use crate::util::{self, hash_str, hex64};

#[derive(Clone, Copy, Debug, PartialEq, Eq)]
pub enum Tier {
    Quick,
    Thorough,
}
impl Tier {
    pub fn as_str(&self) -> &'static str {
        match self {
            Tier::Quick => "quick",
            Tier::Thorough => "thorough",
        }
    }
    pub fn parse(s: &str) -> Option<Tier> {
        match s {
            "quick" => Some(Tier::Quick),
            "thorough" => Some(Tier::Thorough),
            _ => None,
        }
    }
    pub fn pick<T>(&self, quick: T, thorough: T) -> T {
        match self {
            Tier::Quick => quick,
            Tier::Thorough => thorough,
        }
    }
    /// Number of generated cases: the quick figure (the size the floors were measured at) times
    /// VERIF_QUICK_SCALE (default 8: a quick check may use about half a minute of the 16 cores), never more
    /// than the thorough figure.
    pub fn pickn(&self, quick: u64, thorough: u64) -> u64 {
        match self {
            Tier::Quick => (quick * crate::util::env_u64("VERIF_QUICK_SCALE", 8).max(1)).min(thorough),
            // the thorough figure was sized for minutes; VERIF_THOROUGH_SCALE (default 4) deepens it
            Tier::Thorough => thorough * crate::util::env_u64("VERIF_THOROUGH_SCALE", 4).max(1),
        }
    }
}

/// Static description of a property check.
pub struct PropSpec {
    pub id: &'static str,
    pub level: &'static str,
    pub rule: &'static str,
    /// name of the counter reported as `evaluations` ("cases" = runner cases)
    pub eval_counter: &'static str,
    pub assumptions: &'static [&'static str],
    /// A compiler panic / abort / hang observed while running a case is a
    /// violation of this property (C04, C12, C20); otherwise it is recorded
    /// and makes that case inconclusive.
    pub crash_is_violation: bool,
    /// worker thread stack in MiB
    pub stack_mib: usize,
    /// per-case CPU budget in seconds
    pub case_cpu_s: u64,
    /// number of shards (0 = all cores)
    pub shards: usize,
    pub run: fn(&mut Ctx),
    /// floors: (counter name, minimum for quick, minimum for thorough). Unmet => inconclusive.
    pub floors: &'static [(&'static str, u64, u64)],
    /// hook executed in parent after merge to add things to evidence coverage (may be no-op)
    pub finish: Option<fn(&mut Merged)>,
}

#[derive(Clone, Debug)]
pub struct Violation {
    pub sig: String,
    pub summary: String,
    pub detail: Value,
}

#[derive(Default)]
pub struct Case {
    pub violations: Vec<Violation>,
    pub inconclusive: Vec<String>,
    pub counters: Vec<(String, u64)>,
    pub nontrivial: Vec<u64>,
    pub samples: Vec<Value>,
    /// context attached to a panic/crash record for this case (e.g. the input)
    pub input: Option<Value>,
}
impl Case {
    pub fn violation(&mut self, sig: impl Into<String>, summary: impl Into<String>, detail: Value) {
        self.violations.push(Violation {
            sig: sig.into(),
            summary: summary.into(),
            detail,
        });
    }
    pub fn inconclusive(&mut self, reason: impl Into<String>) {
        self.inconclusive.push(reason.into());
    }
    pub fn count(&mut self, key: &str, n: u64) {
        self.counters.push((key.to_string(), n));
    }
    /// what this case has counted under `key` so far
    pub fn counter(&self, key: &str) -> u64 {
        self.counters.iter().filter(|(k, _)| k == key).map(|(_, n)| *n).sum()
    }
    pub fn nontrivial(&mut self, h: u64) {
        self.nontrivial.push(h);
    }
    pub fn sample(&mut self, v: Value) {
        self.samples.push(v);
    }
}

pub struct PanicInfo {
    pub message: String,
    pub location: String,
    pub site: String,
}

static LAST_PANIC: Mutex<Option<PanicInfo>> = Mutex::new(None);
static CASE_START_CPU_NS: AtomicU64 = AtomicU64::new(0);
static CASE_ACTIVE: AtomicU64 = AtomicU64::new(0);

fn process_cpu_ns() -> u64 {
    let mut ts = libc::timespec {
        tv_sec: 0,
        tv_nsec: 0,
    };
    unsafe {
        libc::clock_gettime(libc::CLOCK_PROCESS_CPUTIME_ID, &mut ts);
    }
    ts.tv_sec as u64 * 1_000_000_000 + ts.tv_nsec as u64
}

fn rel_repo(path: &str) -> String {
    if let Some(i) = path.find("crates/") {
        if path.starts_with("/repo/") || path.starts_with("crates/") || path.contains("/repo/") {
            return path[i..].to_string();
        }
    }
    path.to_string()
}

fn is_repo_path(path: &str) -> bool {
    path.starts_with("/repo/crates/") || path.starts_with("crates/")
}

/// Name of the function enclosing `line` in a repo source file (nearest preceding `fn name`).
/// Signatures use it instead of the line number so that unrelated edits to the file do not
/// turn a recorded finding into a "new" one.
pub fn enclosing_fn(rel_file: &str, line: u32) -> String {
    let path = if rel_file.starts_with('/') {
        PathBuf::from(rel_file)
    } else {
        util::repo_root().join(rel_file)
    };
    let Ok(text) = std::fs::read_to_string(&path) else {
        return format!("line{}", line);
    };
    let lines: Vec<&str> = text.lines().collect();
    let mut i = (line as usize).min(lines.len());
    while i > 0 {
        i -= 1;
        let l = lines[i].trim_start();
        let l = l.strip_prefix("pub(crate) ").or_else(|| l.strip_prefix("pub ")).unwrap_or(l);
        if let Some(rest) = l.strip_prefix("fn ") {
            let name: String = rest.chars().take_while(|c| c.is_alphanumeric() || *c == '_').collect();
            if !name.is_empty() {
                return name;
            }
        }
    }
    format!("line{}", line)
}

/// Stable panic signature: file, enclosing function, first words of the message.
pub fn panic_signature(p: &PanicInfo) -> String {
    let mut it = p.site.rsplitn(2, ':');
    let line: u32 = it.next().and_then(|l| l.parse().ok()).unwrap_or(0);
    let file = it.next().unwrap_or(&p.site).to_string();
    let f = enclosing_fn(&file, line);
    let words: Vec<String> = message_class(&p.message)
        .split(|c: char| !c.is_alphanumeric() && c != '#')
        .filter(|w| !w.is_empty())
        .take(3)
        .map(|w| w.to_string())
        .collect();
    format!("panic@{}::{}|{}", file, f, words.join(" "))
}

pub fn install_panic_hook() {
    std::panic::set_hook(Box::new(|info| {
        let message = if let Some(s) = info.payload().downcast_ref::<&str>() {
            s.to_string()
        } else if let Some(s) = info.payload().downcast_ref::<String>() {
            s.clone()
        } else {
            "<non-string panic payload>".to_string()
        };
        let (file, line) = info
            .location()
            .map(|l| (l.file().to_string(), l.line()))
            .unwrap_or(("<unknown>".to_string(), 0));
        let location = format!("{}:{}", rel_repo(&file), line);
        let site = if is_repo_path(&file) {
            location.clone()
        } else {
            // first in-repo frame from a backtrace
            let bt = std::backtrace::Backtrace::force_capture().to_string();
            let mut found = None;
            for l in bt.lines() {
                let l = l.trim();
                if let Some(rest) = l.strip_prefix("at ") {
                    if rest.starts_with("/repo/crates/") {
                        let mut parts = rest.rsplitn(3, ':');
                        let _col = parts.next();
                        let line = parts.next().unwrap_or("0");
                        let f = parts.next().unwrap_or(rest);
                        found = Some(format!("{}:{}", rel_repo(f), line));
                        break;
                    }
                }
            }
            found.unwrap_or_else(|| location.clone())
        };
        *LAST_PANIC.lock().unwrap() = Some(PanicInfo {
            message,
            location,
            site,
        });
    }));
}

/// Run `f` under catch_unwind; on panic return the hook's record.
pub fn guard<T>(f: impl FnOnce() -> T) -> Result<T, PanicInfo> {
    let _ = take_last_panic();
    match catch_unwind(AssertUnwindSafe(f)) {
        Ok(v) => Ok(v),
        Err(_) => Err(take_last_panic().unwrap_or(PanicInfo {
            message: "?".into(),
            location: "?".into(),
            site: "?".into(),
        })),
    }
}

static CURRENT_INPUT: Mutex<Option<std::fs::File>> = Mutex::new(None);

/// Record the input about to be processed so that the parent can attach it to
/// a crash (abort / stack overflow / CPU budget) of this worker.
pub fn note_input(s: &str) {
    use std::os::unix::fs::FileExt;
    if let Ok(g) = CURRENT_INPUT.lock() {
        if let Some(f) = g.as_ref() {
            let bytes = s.as_bytes();
            let n = bytes.len().min(1 << 20);
            let _ = f.set_len(0);
            let _ = f.write_all_at(&bytes[..n], 0);
        }
    }
}

pub fn take_last_panic() -> Option<PanicInfo> {
    LAST_PANIC.lock().unwrap().take()
}

/// Normalise a panic message into a class (digits and quoted parts removed) so
/// that the signature is stable across inputs.
pub fn message_class(msg: &str) -> String {
    let mut out = String::new();
    let mut last_hash = false;
    for ch in msg.chars().take(160) {
        if ch.is_ascii_digit() {
            if !last_hash {
                out.push('#');
                last_hash = true;
            }
        } else {
            last_hash = false;
            out.push(ch);
        }
    }
    out
}

pub struct Ctx {
    pub prop: &'static str,
    pub tier: Tier,
    pub seed: u64,
    pub shard: usize,
    pub nshards: usize,
    pub crash_is_violation: bool,
    skip_upto: u64,
    idx: u64,
    dir: PathBuf,
    records: std::fs::File,
    progress: std::fs::File,
    stats: BTreeMap<String, u64>,
    distinct: HashSet<u64>,
    samples: Vec<Value>,
    last_ckpt: Instant,
    pub replay_input: Option<Value>,
}

impl Ctx {
    /// True if this case index belongs to the shard (round-robin helper for
    /// enumerations shared by all shards).
    pub fn mine(&self, n: u64) -> bool {
        (n % self.nshards as u64) as usize == self.shard
    }

    pub fn add_stat(&mut self, key: &str, n: u64) {
        *self.stats.entry(key.to_string()).or_insert(0) += n;
    }

    pub fn case<F: FnOnce(&mut Case)>(&mut self, id: &str, f: F) {
        self.idx += 1;
        if self.idx <= self.skip_upto {
            return;
        }
        // progress record (overwritten in place)
        {
            use std::os::unix::fs::FileExt;
            let mut line = format!("{}\t{}", self.idx, id);
            line.truncate(400);
            while line.len() < 400 {
                line.push(' ');
            }
            line.push('\n');
            let _ = self.progress.write_all_at(line.as_bytes(), 0);
        }
        CASE_START_CPU_NS.store(process_cpu_ns(), Ordering::SeqCst);
        CASE_ACTIVE.store(self.idx, Ordering::SeqCst);
        let mut case = Case::default();
        let _ = take_last_panic();
        let res = catch_unwind(AssertUnwindSafe(|| f(&mut case)));
        CASE_ACTIVE.store(0, Ordering::SeqCst);
        *self.stats.entry("cases".into()).or_insert(0) += 1;
        if res.is_err() {
            let p = take_last_panic().unwrap_or(PanicInfo {
                message: "?".into(),
                location: "?".into(),
                site: "?".into(),
            });
            let harness_fault = p.site.contains("verif/harness") || p.site.starts_with("src/");
            *self.stats.entry("panics".into()).or_insert(0) += 1;
            let rec = json!({"t":"panic","case":id,"message":util::truncate(&p.message,600),
                "location":p.location,"site":p.site,"sig":panic_signature(&p),"harness_fault":harness_fault,
                "input": case.input.clone().unwrap_or(Value::Null)});
            let _ = writeln!(self.records, "{}", rec);
        }
        for (k, n) in case.counters.drain(..) {
            *self.stats.entry(k).or_insert(0) += n;
        }
        for h in case.nontrivial.drain(..) {
            self.distinct.insert(h);
        }
        // every worker keeps at least the identity of the first case it executed, so that the evidence
        // never ends up without a sample when the per-workload samples happen to fall on a crashed case
        if self.samples.is_empty() && case.samples.is_empty() {
            case.samples.push(json!({"workload": "first executed case", "case": id}));
        }
        for s in case.samples.drain(..) {
            let w = s.get("workload").cloned().unwrap_or(Value::Null);
            let same = self.samples.iter().filter(|x| x.get("workload").cloned().unwrap_or(Value::Null) == w).count();
            if self.samples.len() < 10 && same < 1 {
                self.samples.push(s);
            }
        }
        for v in case.violations.drain(..) {
            let rec = json!({"t":"violation","case":id,"sig":v.sig,"summary":v.summary,"detail":v.detail});
            let _ = writeln!(self.records, "{}", rec);
        }
        for r in case.inconclusive.drain(..) {
            *self.stats.entry("inconclusive_cases".into()).or_insert(0) += 1;
            let rec = json!({"t":"inconclusive","case":id,"reason":r});
            let _ = writeln!(self.records, "{}", rec);
        }
        if self.last_ckpt.elapsed() > Duration::from_millis(1500) {
            self.checkpoint();
        }
    }

    fn checkpoint(&mut self) {
        self.last_ckpt = Instant::now();
        let _ = self.records.flush();
        let sum = json!({"stats": self.stats, "samples": self.samples, "upto": self.idx});
        let tmp = self.dir.join(format!("shard{}.sum.tmp", self.shard));
        let fin = self.dir.join(format!("shard{}.sum.json", self.shard));
        if std::fs::write(&tmp, sum.to_string()).is_ok() {
            let _ = std::fs::rename(&tmp, &fin);
        }
        // distinct hashes
        let mut buf = Vec::with_capacity(self.distinct.len() * 8);
        for h in &self.distinct {
            buf.extend_from_slice(&h.to_le_bytes());
        }
        let tmp = self.dir.join(format!("shard{}.dist.tmp", self.shard));
        let fin = self.dir.join(format!("shard{}.dist.bin", self.shard));
        if std::fs::write(&tmp, buf).is_ok() {
            let _ = std::fs::rename(&tmp, &fin);
        }
    }
}

static WORK_THREAD: AtomicU64 = AtomicU64::new(0);

/// Sample the work thread's stack from outside with gdb (robust even when the thread is stuck inside
/// the allocator) and return the blamed compiler pass.
fn sample_blamed_module() -> String {
    let pid = std::process::id();
    let out = std::process::Command::new("timeout")
        .arg("40")
        .arg("gdb")
        .arg("-p")
        .arg(pid.to_string())
        .arg("-batch")
        .arg("-ex")
        .arg("thread apply all bt -80")
        .stdin(std::process::Stdio::null())
        .stderr(std::process::Stdio::null())
        .output();
    let Ok(out) = out else { return "?".into() };
    let text = String::from_utf8_lossy(&out.stdout).to_string();
    // split per thread; choose the one running compiler code
    let mut best = "?".to_string();
    for section in text.split("\nThread ") {
        if !section.contains("compiler::") && !section.contains("parser::") && !section.contains("lexer::") {
            continue;
        }
        // frames are innermost first: "#N  0x... in path::to::fn (..) at file:line"
        let mut mods: Vec<String> = Vec::new();
        for l in section.lines() {
            let l = l.trim_start();
            if !l.starts_with('#') {
                continue;
            }
            let Some(pos) = l.find(" in ") else { continue };
            let f = &l[pos + 4..];
            let f = f.split(|c: char| c == ' ' || c == '(').next().unwrap_or("");
            let f = f.trim_start_matches('<');
            let first = f.split("::").next().unwrap_or("");
            if !matches!(first, "compiler" | "parser" | "lexer" | "ast" | "cst" | "diagnostics") {
                continue;
            }
            let mut parts: Vec<&str> = f.split("::").collect();
            if parts.len() > 2 {
                parts.truncate(2);
            }
            mods.push(parts.join("::"));
        }
        for m in mods.iter().rev() {
            if m.starts_with("compiler::pipeline") || m.starts_with("compiler::main") || m.starts_with("compiler::query") {
                continue;
            }
            best = m.clone();
            break;
        }
        if best == "?" {
            if let Some(m) = mods.last() {
                best = m.clone();
            }
        }
    }
    best
}

fn rss_bytes() -> u64 {
    std::fs::read_to_string("/proc/self/statm")
        .ok()
        .and_then(|s| s.split_whitespace().nth(1).and_then(|x| x.parse::<u64>().ok()))
        .map(|pages| pages * 4096)
        .unwrap_or(0)
}

fn set_rlimit_as(bytes: u64) {
    let lim = libc::rlimit {
        rlim_cur: bytes,
        rlim_max: bytes,
    };
    unsafe {
        libc::setrlimit(libc::RLIMIT_AS, &lim);
        // no core dumps
        let z = libc::rlimit {
            rlim_cur: 0,
            rlim_max: 0,
        };
        libc::setrlimit(libc::RLIMIT_CORE, &z);
    }
}

pub struct WorkerArgs {
    pub tier: Tier,
    pub seed: u64,
    pub shard: usize,
    pub nshards: usize,
    pub skip: u64,
    pub dir: PathBuf,
    pub replay: Option<PathBuf>,
}

/// Entry point of a worker process.
pub fn worker_main(spec: &'static PropSpec, args: WorkerArgs) -> i32 {
    let as_gib = util::env_u64("VERIF_AS_GIB", 4);
    set_rlimit_as(as_gib << 30);
    install_panic_hook();
    let dir = args.dir.clone();
    let records = std::fs::OpenOptions::new()
        .create(true)
        .append(true)
        .open(dir.join(format!("shard{}.jsonl", args.shard)))
        .expect("open records");
    let progress = std::fs::OpenOptions::new()
        .create(true)
        .write(true)
        .truncate(false)
        .open(dir.join(format!("shard{}.progress", args.shard)))
        .expect("open progress");
    if let Ok(f) = std::fs::OpenOptions::new()
        .create(true)
        .write(true)
        .truncate(true)
        .open(dir.join(format!("shard{}.current", args.shard)))
    {
        *CURRENT_INPUT.lock().unwrap() = Some(f);
    }
    let prior: Option<Value> = std::fs::read_to_string(dir.join(format!("shard{}.sum.json", args.shard)))
        .ok()
        .and_then(|s| serde_json::from_str(&s).ok());
    let replay_input = args
        .replay
        .as_ref()
        .and_then(|p| std::fs::read_to_string(p).ok())
        .and_then(|s| serde_json::from_str::<Value>(&s).ok());
    let mut ctx = Ctx {
        prop: spec.id,
        tier: args.tier,
        seed: args.seed,
        shard: args.shard,
        nshards: args.nshards,
        crash_is_violation: spec.crash_is_violation,
        skip_upto: args.skip,
        idx: 0,
        dir: dir.clone(),
        records,
        progress,
        stats: BTreeMap::new(),
        distinct: HashSet::new(),
        samples: Vec::new(),
        last_ckpt: Instant::now(),
        replay_input,
    };
    // continue from the checkpoint of a crashed predecessor
    if args.skip > 0 {
        if let Some(p) = prior {
            if let Some(m) = p.get("stats").and_then(|s| s.as_object()) {
                for (k, v) in m {
                    ctx.stats.insert(k.clone(), v.as_u64().unwrap_or(0));
                }
            }
            if let Some(a) = p.get("samples").and_then(|s| s.as_array()) {
                ctx.samples = a.clone();
            }
        }
        if let Ok(buf) = std::fs::read(dir.join(format!("shard{}.dist.bin", args.shard))) {
            for c in buf.chunks_exact(8) {
                ctx.distinct.insert(u64::from_le_bytes(c.try_into().unwrap()));
            }
        }
    }
    // watchdog: per-case CPU budget and resident-set cap; on breach ask the work
    // thread for a backtrace (SIGUSR1), then exit 97 (CPU) / 96 (memory).
    let _ = std::fs::remove_file(dir.join(format!("shard{}.hang", args.shard)));
    let budget_ns = spec.case_cpu_s * 1_000_000_000;
    let rss_cap = util::env_u64("VERIF_RSS_GIB", 3) << 30;
    let hang_path = dir.join(format!("shard{}.hang", args.shard));
    std::thread::spawn(move || {
        loop {
            std::thread::sleep(Duration::from_millis(200));
            if CASE_ACTIVE.load(Ordering::SeqCst) != 0 {
                let start = CASE_START_CPU_NS.load(Ordering::SeqCst);
                let now = process_cpu_ns();
                let over_cpu = now.saturating_sub(start) > budget_ns;
                let over_mem = rss_bytes() > rss_cap;
                if over_cpu || over_mem {
                    let m = sample_blamed_module();
                    let _ = std::fs::write(&hang_path, m);
                    unsafe { libc::_exit(if over_cpu { 97 } else { 96 }) };
                }
            }
        }
    });
    let run = spec.run;
    let stack = spec.stack_mib << 20;
    let handle = std::thread::Builder::new()
        .name("work".into())
        .stack_size(stack)
        .spawn(move || {
            WORK_THREAD.store(unsafe { libc::pthread_self() } as u64, Ordering::SeqCst);
            run(&mut ctx);
            ctx.checkpoint();
        })
        .expect("spawn work thread");
    match handle.join() {
        Ok(()) => 0,
        Err(_) => 98,
    }
}

pub struct Merged {
    pub stats: BTreeMap<String, u64>,
    pub samples: Vec<Value>,
    pub distinct: u64,
    pub extra: serde_json::Map<String, Value>,
    pub inconclusive: Vec<String>,
}

struct KnownFinding {
    property: String,
    status: String,
    signature: String,
    summary: String,
    id: String,
}

fn load_known() -> Vec<KnownFinding> {
    let p = util::verif_root().join("known_findings.jsonl");
    let mut out = Vec::new();
    if let Ok(s) = std::fs::read_to_string(p) {
        for l in s.lines() {
            let l = l.trim();
            if l.is_empty() || l.starts_with('#') {
                continue;
            }
            if let Ok(v) = serde_json::from_str::<Value>(l) {
                out.push(KnownFinding {
                    property: v["property"].as_str().unwrap_or("").to_string(),
                    status: v["status"].as_str().unwrap_or("known").to_string(),
                    signature: v["signature"].as_str().unwrap_or("").to_string(),
                    summary: v["summary"].as_str().unwrap_or("").to_string(),
                    id: v["id"].as_str().unwrap_or("").to_string(),
                });
            }
        }
    }
    out
}

fn signal_name(sig: i32) -> &'static str {
    match sig {
        libc::SIGSEGV => "SIGSEGV",
        libc::SIGBUS => "SIGBUS",
        libc::SIGABRT => "SIGABRT",
        libc::SIGKILL => "SIGKILL",
        libc::SIGXCPU => "SIGXCPU",
        libc::SIGILL => "SIGILL",
        libc::SIGFPE => "SIGFPE",
        _ => "SIG?",
    }
}

/// Parent: run the whole property, return process exit code.
pub fn run_property(spec: &'static PropSpec, tier: Tier, seed: u64, replay: Option<PathBuf>) -> i32 {
    use std::os::unix::process::ExitStatusExt;
    let t0 = Instant::now();
    let root = util::verif_root();
    let dir = root.join(format!("out/run/{}-{}-{}", spec.id, tier.as_str(), seed));
    let _ = std::fs::remove_dir_all(&dir);
    std::fs::create_dir_all(&dir).expect("create run dir");
    let ncores = std::thread::available_parallelism().map(|n| n.get()).unwrap_or(4);
    let mut nshards = if spec.shards == 0 { ncores } else { spec.shards };
    if let Ok(v) = std::env::var("VERIF_SHARDS") {
        if let Ok(n) = v.parse::<usize>() {
            nshards = n.max(1);
        }
    }
    if replay.is_some() {
        nshards = 1;
    }
    let exe = std::env::current_exe().expect("current exe");
    let wall_cap = Duration::from_secs(util::env_u64(
        "VERIF_WALL_S",
        tier.pick(1500, 6 * 3600),
    ));

    struct Shard {
        child: Option<std::process::Child>,
        restarts: u32,
        done: bool,
    }
    let spawn = |shard: usize, skip: u64| -> std::process::Child {
        let mut c = std::process::Command::new(&exe);
        c.arg("worker")
            .arg(spec.id)
            .arg(tier.as_str())
            .arg(seed.to_string())
            .arg(shard.to_string())
            .arg(nshards.to_string())
            .arg(skip.to_string())
            .arg(&dir);
        if let Some(r) = &replay {
            c.arg(r);
        }
        c.stdin(std::process::Stdio::null());
        c.spawn().expect("spawn worker")
    };
    let mut shards: Vec<Shard> = (0..nshards)
        .map(|i| Shard {
            child: Some(spawn(i, 0)),
            restarts: 0,
            done: false,
        })
        .collect();
    let mut crash_records: Vec<Value> = Vec::new();
    let mut run_inconclusive: Vec<String> = Vec::new();
    loop {
        let mut all_done = true;
        for (i, sh) in shards.iter_mut().enumerate() {
            if sh.done {
                continue;
            }
            all_done = false;
            let status = sh.child.as_mut().unwrap().try_wait().expect("try_wait");
            if let Some(st) = status {
                if st.success() {
                    sh.done = true;
                    continue;
                }
                // died: attribute
                let prog = std::fs::read_to_string(dir.join(format!("shard{}.progress", i))).unwrap_or_default();
                let line = prog.lines().next().unwrap_or("").trim_end().to_string();
                let mut parts = line.splitn(2, '\t');
                let idx: u64 = parts.next().unwrap_or("0").trim().parse().unwrap_or(0);
                let case_id = parts.next().unwrap_or("?").trim().to_string();
                let how = if let Some(sig) = st.signal() {
                    format!("signal:{}", signal_name(sig))
                } else if st.code() == Some(97) || st.code() == Some(96) {
                    let m = std::fs::read_to_string(dir.join(format!("shard{}.hang", i))).unwrap_or_else(|_| "?".into());
                    let _ = std::fs::remove_file(dir.join(format!("shard{}.hang", i)));
                    format!("{}@{}", if st.code() == Some(97) { "hang" } else { "memory-blowup" }, m.trim())
                } else {
                    format!("exit:{}", st.code().unwrap_or(-1))
                };
                let cur = std::fs::read(dir.join(format!("shard{}.current", i)))
                    .map(|b| String::from_utf8_lossy(&b).to_string())
                    .unwrap_or_default();
                crash_records.push(json!({"t":"crash","case":case_id,"how":how,"shard":i,"idx":idx,
                    "detail": {"input": cur}}));
                sh.restarts += 1;
                if sh.restarts > 40 || idx == 0 {
                    run_inconclusive.push(format!(
                        "shard {} stopped after {} restarts (last: {} at case {})",
                        i, sh.restarts, how, case_id
                    ));
                    sh.done = true;
                } else {
                    sh.child = Some(spawn(i, idx));
                }
            }
        }
        if all_done {
            break;
        }
        if t0.elapsed() > wall_cap {
            for sh in shards.iter_mut() {
                if !sh.done {
                    if let Some(c) = sh.child.as_mut() {
                        let _ = c.kill();
                        let _ = c.wait();
                    }
                    sh.done = true;
                }
            }
            run_inconclusive.push(format!("wall-clock watchdog fired after {:?}", wall_cap));
            break;
        }
        std::thread::sleep(Duration::from_millis(20));
    }

    // merge
    let mut merged = Merged {
        stats: BTreeMap::new(),
        samples: Vec::new(),
        distinct: 0,
        extra: serde_json::Map::new(),
        inconclusive: run_inconclusive,
    };
    let mut distinct: HashSet<u64> = HashSet::new();
    let mut records: Vec<Value> = crash_records;
    for i in 0..nshards {
        if let Ok(s) = std::fs::read_to_string(dir.join(format!("shard{}.sum.json", i))) {
            if let Ok(v) = serde_json::from_str::<Value>(&s) {
                if let Some(m) = v["stats"].as_object() {
                    for (k, n) in m {
                        *merged.stats.entry(k.clone()).or_insert(0) += n.as_u64().unwrap_or(0);
                    }
                }
                if let Some(a) = v["samples"].as_array() {
                    for s in a {
                        let w = s.get("workload").cloned().unwrap_or(Value::Null);
                        let same = merged.samples.iter().filter(|x| x.get("workload").cloned().unwrap_or(Value::Null) == w).count();
                        if merged.samples.len() < 10 && same < 1 {
                            merged.samples.push(s.clone());
                        }
                    }
                }
            }
        }
        if let Ok(buf) = std::fs::read(dir.join(format!("shard{}.dist.bin", i))) {
            for c in buf.chunks_exact(8) {
                distinct.insert(u64::from_le_bytes(c.try_into().unwrap()));
            }
        }
        if let Ok(s) = std::fs::read_to_string(dir.join(format!("shard{}.jsonl", i))) {
            for l in s.lines() {
                if let Ok(v) = serde_json::from_str::<Value>(l) {
                    records.push(v);
                }
            }
        }
    }
    merged.distinct = distinct.len() as u64;

    // classify records
    let known = load_known();
    let mut violations: BTreeMap<String, (String, Value, u64)> = BTreeMap::new(); // sig -> (summary, first detail, count)
    let mut inconc_reasons: BTreeMap<String, u64> = BTreeMap::new();
    let mut harness_faults: Vec<Value> = Vec::new();
    for r in &records {
        match r["t"].as_str().unwrap_or("") {
            "violation" => {
                let sig = r["sig"].as_str().unwrap_or("?").to_string();
                let e = violations
                    .entry(sig)
                    .or_insert((r["summary"].as_str().unwrap_or("").to_string(), r.clone(), 0));
                e.2 += 1;
            }
            "panic" => {
                if r["harness_fault"].as_bool() == Some(true) {
                    harness_faults.push(r.clone());
                    continue;
                }
                let site = r["site"].as_str().unwrap_or("?");
                let msg = r["message"].as_str().unwrap_or("");
                if spec.crash_is_violation {
                    let sig = r["sig"].as_str().map(|s| s.to_string()).unwrap_or_else(|| format!("panic@{}", site));
                    let e = violations.entry(sig).or_insert((
                        format!("compiler panicked at {}: {}", site, util::truncate(msg, 120)),
                        r.clone(),
                        0,
                    ));
                    e.2 += 1;
                } else {
                    *inconc_reasons
                        .entry(format!("compiler panic at {} (a C04 event; case skipped)", site))
                        .or_insert(0) += 1;
                }
            }
            "crash" => {
                let how = r["how"].as_str().unwrap_or("?");
                if how.contains("SIGKILL") || how.starts_with("exit:") {
                    *inconc_reasons
                        .entry(format!("worker died ({}) at case {}", how, r["case"].as_str().unwrap_or("?")))
                        .or_insert(0) += 1;
                    merged.inconclusive.push(format!("worker died ({}), not attributable", how));
                } else if spec.crash_is_violation {
                    let sig = if how.starts_with("hang@") || how.starts_with("memory-blowup@") {
                        // CPU and memory exhaustion in the same module are one resource blow-up
                        format!("resource-blowup@{}", how.splitn(2, '@').nth(1).unwrap_or("?"))
                    } else {
                        format!("crash:{}", how)
                    };
                    let e = violations.entry(sig).or_insert((
                        format!("worker {} while running case {}", how, r["case"].as_str().unwrap_or("?")),
                        r.clone(),
                        0,
                    ));
                    e.2 += 1;
                } else {
                    *inconc_reasons
                        .entry(format!("compiler crash {} (a C04 event; case skipped)", how))
                        .or_insert(0) += 1;
                }
            }
            "inconclusive" => {
                *inconc_reasons
                    .entry(r["reason"].as_str().unwrap_or("?").to_string())
                    .or_insert(0) += 1;
            }
            _ => {}
        }
    }
    if !harness_faults.is_empty() {
        merged.inconclusive.push(format!(
            "harness fault: {} (x{})",
            harness_faults[0]["message"].as_str().unwrap_or("?"),
            harness_faults.len()
        ));
        eprintln!("HARNESS-FAULT {}", harness_faults[0]);
    }

    if let Some(fin) = spec.finish {
        fin(&mut merged);
    }

    // floors
    if replay.is_none() {
        for (k, q, t) in spec.floors {
            let need = tier.pick(*q, *t);
            let got = if *k == "distinct_nontrivial" {
                merged.distinct
            } else {
                merged.stats.get(*k).copied().unwrap_or(0)
            };
            if got < need {
                merged
                    .inconclusive
                    .push(format!("coverage floor not met: {} = {} < {}", k, got, need));
            }
        }
    }

    // known findings
    let replay_dir = root.join(format!("out/replay/{}", spec.id));
    let _ = std::fs::create_dir_all(&replay_dir);
    let mut n_new = 0u64;
    let mut known_hit: BTreeMap<String, (String, u64)> = BTreeMap::new();
    let mut violation_lines = Vec::new();
    for (sig, (summary, rec, count)) in &violations {
        let kf = known
            .iter()
            .find(|k| k.property == spec.id && k.status == "known" && &k.signature == sig);
        if let Some(k) = kf {
            let e = known_hit.entry(k.id.clone()).or_insert((k.summary.clone(), 0));
            e.1 += count;
            continue;
        }
        n_new += 1;
        let path = replay_dir.join(format!("{}.json", hex64(hash_str(sig))));
        let body = json!({"property":spec.id,"tier":tier.as_str(),"seed":seed,"signature":sig,
            "summary":summary,"occurrences":count,"record":rec});
        let _ = std::fs::write(&path, serde_json::to_string_pretty(&body).unwrap_or_default());
        violation_lines.push((format!(
            "VIOLATION property={} replay={}",
            spec.id,
            path.display()
        ), format!("  signature: {}\n  summary: {} (x{})", sig, summary, count)));
    }
    for (id, (summary, n)) in &known_hit {
        println!("KNOWN-FINDING: property={} {} [{}; observed x{}]", spec.id, summary, id, n);
    }
    let fixed_silent: Vec<String> = known
        .iter()
        .filter(|k| k.property == spec.id && k.status == "known" && !known_hit.contains_key(&k.id))
        .map(|k| k.id.clone())
        .collect();

    // evidence
    let wall = t0.elapsed().as_secs_f64();
    let evaluations = merged.stats.get(spec.eval_counter).copied().unwrap_or(0);
    let mut coverage = serde_json::Map::new();
    coverage.insert("evaluations".into(), json!(evaluations));
    coverage.insert("distinct_nontrivial".into(), json!(merged.distinct));
    coverage.insert("rule".into(), json!(spec.rule));
    coverage.insert("samples".into(), Value::Array(merged.samples.clone()));
    coverage.insert("counters".into(), json!(merged.stats));
    coverage.insert("inconclusive_buckets".into(), json!(inconc_reasons));
    coverage.insert("shards".into(), json!(nshards));
    coverage.insert(
        "known_findings_observed".into(),
        json!(known_hit.iter().map(|(k, v)| json!({"id":k,"summary":v.0,"count":v.1})).collect::<Vec<_>>()),
    );
    coverage.insert("known_findings_not_reproduced".into(), json!(fixed_silent));
    for (k, v) in merged.extra.iter() {
        coverage.insert(k.clone(), v.clone());
    }
    let verdict = if n_new > 0 {
        "violated"
    } else if !merged.inconclusive.is_empty() {
        "inconclusive"
    } else {
        "held-on-observed"
    };
    coverage.insert("verdict".into(), json!(verdict));
    coverage.insert("inconclusive_reasons".into(), json!(merged.inconclusive));
    let evidence = json!({
        "property_id": spec.id,
        "tier": tier.as_str(),
        "seed": seed,
        "level": spec.level,
        "coverage": Value::Object(coverage),
        "assumptions": spec.assumptions,
        "wall_s": wall,
        "violations": n_new,
    });
    if replay.is_none() {
        let evdir = root.join("evidence");
        let _ = std::fs::create_dir_all(&evdir);
        let _ = std::fs::write(
            evdir.join(format!("{}.json", spec.id)),
            serde_json::to_string_pretty(&evidence).unwrap_or_default(),
        );
    }
    // report
    println!(
        "[{}] tier={} seed={} shards={} cases={} distinct_nontrivial={} wall={:.1}s verdict={}",
        spec.id, tier.as_str(), seed, nshards, evaluations, merged.distinct, wall, verdict
    );
    let mut shown = 0;
    for (k, v) in &merged.stats {
        if shown < 60 {
            println!("  observed {} = {}", k, v);
            shown += 1;
        }
    }
    for (k, v) in inconc_reasons.iter().take(12) {
        println!("  inconclusive-bucket x{}: {}", v, util::truncate(k, 200));
    }
    let _ = std::fs::remove_dir_all(&dir);
    if n_new > 0 {
        for (l, extra) in violation_lines.iter().take(25) {
            println!("{}", l);
            println!("{}", extra);
        }
        return 1;
    }
    if !merged.inconclusive.is_empty() {
        for r in &merged.inconclusive {
            println!("INCONCLUSIVE property={} reason={}", spec.id, r);
        }
        return 3;
    }
    0
}

pub fn path_arg(s: &str) -> PathBuf {
    Path::new(s).to_path_buf()
}
