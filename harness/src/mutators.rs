//! Text / token / line mutators shared by the crash-oriented workloads.
use crate::util::Rng;

pub const TYPE_WORDS: &[&str] = &[
    "unit", "bool", "int8", "int16", "int32", "int64", "uint8", "uint16", "uint32", "uint64", "float32", "float64",
    "string", "Vec[int32]", "Ref[int32]", "[int32; 3]", "(int32, bool)", "() -> unit", "(int32) -> int32", "T",
    "dyn Display", "Vec[T]", "Ref[T]", "Option[int32]",
];
pub const LITS: &[&str] = &[
    "0", "1", "255", "256", "2147483647", "2147483648", "9223372036854775808", "18446744073709551616", "7i8", "128i8",
    "300u8", "1.5", "2.0f32", "\"s\"", "\"\"", "true", "false", "()", "[1, 2]", "(1, true)", "-1", "1u64", "0i64",
];

fn lex_texts(s: &str) -> Vec<String> {
    lexer::lex(s).into_iter().map(|t| t.text.to_string()).collect()
}

fn is_ident(t: &str) -> bool {
    let mut c = t.chars();
    matches!(c.next(), Some(ch) if ch.is_ascii_alphabetic()) && t.chars().all(|ch| ch.is_ascii_alphanumeric() || ch == '_')
}

/// Token-level mutation that tends to keep the program parseable.
pub fn mutate_tokens(rng: &mut Rng, s: &str) -> String {
    let mut toks = lex_texts(s);
    if toks.is_empty() {
        return "fn main() { }".into();
    }
    let idents: Vec<String> = toks.iter().filter(|t| is_ident(t)).cloned().collect();
    let n_edits = 1 + rng.below(3);
    for _ in 0..n_edits {
        if toks.is_empty() {
            break;
        }
        let i = rng.below(toks.len());
        match rng.below(12) {
            0 => {
                toks.remove(i);
            }
            1 => {
                let t = toks[i].clone();
                toks.insert(i, t);
            }
            2 => {
                if i + 1 < toks.len() {
                    toks.swap(i, i + 1);
                }
            }
            3 | 4 => {
                // replace an identifier by another identifier of the file
                if let Some(j) = (0..toks.len()).map(|k| (i + k) % toks.len()).find(|k| is_ident(&toks[*k])) {
                    if !idents.is_empty() {
                        toks[j] = rng.pick_ref(&idents).clone();
                    }
                }
            }
            5 => {
                // replace a type word
                if let Some(j) = (0..toks.len())
                    .map(|k| (i + k) % toks.len())
                    .find(|k| TYPE_WORDS.contains(&toks[*k].as_str()) || toks[*k] == "int32")
                {
                    toks[j] = rng.pick(TYPE_WORDS).to_string();
                }
            }
            6 => {
                // replace a literal
                if let Some(j) = (0..toks.len()).map(|k| (i + k) % toks.len()).find(|k| {
                    toks[*k].chars().next().map(|c| c.is_ascii_digit() || c == '"').unwrap_or(false)
                        || toks[*k] == "true"
                        || toks[*k] == "false"
                }) {
                    toks[j] = rng.pick(LITS).to_string();
                }
            }
            7 => {
                // delete a balanced group starting at the next opener
                if let Some(j) = (i..toks.len()).find(|k| matches!(toks[*k].as_str(), "(" | "{" | "[")) {
                    let open = toks[j].clone();
                    let close = match open.as_str() {
                        "(" => ")",
                        "{" => "}",
                        _ => "]",
                    };
                    let mut depth = 0;
                    let mut e = j;
                    while e < toks.len() {
                        if toks[e] == open {
                            depth += 1;
                        } else if toks[e] == close {
                            depth -= 1;
                            if depth == 0 {
                                break;
                            }
                        }
                        e += 1;
                    }
                    if e < toks.len() {
                        if rng.bool() {
                            toks.drain(j + 1..e); // empty the group
                        } else {
                            toks.drain(j..=e);
                        }
                    }
                }
            }
            8 => {
                let w = rng.pick(&["_", "::", ".", ",", ";", "=>", "->", "|", "!", "-", "&&", "==", "<", "+", "*", "/", "#", "[", "]"]);
                toks[i] = w.to_string();
            }
            9 => {
                let w = rng.pick(&["match", "if", "else", "let", "fn", "while", "go", "return", "struct", "enum", "trait", "impl", "for", "dyn", "extern", "import", "package"]);
                toks.insert(i, format!(" {} ", w));
            }
            10 => {
                toks.insert(i, rng.pick(LITS).to_string());
            }
            _ => {
                toks.insert(i, rng.pick(TYPE_WORDS).to_string());
            }
        }
    }
    toks.concat()
}

/// Line-level mutation: delete / duplicate / swap / move whole lines.
pub fn mutate_lines(rng: &mut Rng, s: &str) -> String {
    let mut lines: Vec<String> = s.split('\n').map(|l| l.to_string()).collect();
    let n_edits = 1 + rng.below(2);
    for _ in 0..n_edits {
        if lines.is_empty() {
            break;
        }
        let i = rng.below(lines.len());
        match rng.below(4) {
            0 => {
                lines.remove(i);
            }
            1 => {
                let l = lines[i].clone();
                lines.insert(i, l);
            }
            2 => {
                let j = rng.below(lines.len());
                lines.swap(i, j);
            }
            _ => {
                let l = lines.remove(i);
                let j = rng.below(lines.len() + 1);
                lines.insert(j, l);
            }
        }
    }
    lines.join("\n")
}

/// Splice: take top-level items from two programs.
pub fn splice(rng: &mut Rng, a: &str, b: &str) -> String {
    let cut_a = pick_line_cut(rng, a);
    let cut_b = pick_line_cut(rng, b);
    format!("{}\n{}", &a[..cut_a], &b[cut_b..])
}

fn pick_line_cut(rng: &mut Rng, s: &str) -> usize {
    let cuts: Vec<usize> = s.match_indices("\nfn ").map(|(i, _)| i + 1).collect();
    if cuts.is_empty() { 0 } else { rng.pick(&cuts) }
}

/// Deep nesting of one recursive construct around a core expression.
pub fn nest(kind: usize, depth: usize) -> String {
    let (open, close, core): (&str, &str, &str) = match kind % 12 {
        0 => ("(", ")", "1"),
        1 => ("[", "]", "1"),
        2 => ("{ ", " }", "1"),
        3 => ("if true { ", " } else { 0 }", "1"),
        4 => ("-", "", "1"),
        5 => ("!", "", "true"),
        6 => ("f(", ")", "1"),
        7 => ("match 1 { _ => ", " }", "1"),
        8 => ("|| ", "", "1"),
        9 => ("(1, ", ")", "1"),
        10 => ("1 + ", "", "1"),
        _ => ("Some(", ")", "1"),
    };
    let mut s = String::from("fn f(x: int32) -> int32 { x }\nfn main() { let _ = ");
    for _ in 0..depth {
        s.push_str(open);
    }
    s.push_str(core);
    for _ in 0..depth {
        s.push_str(close);
    }
    s.push_str("; }\n");
    s
}

pub fn nest_type(kind: usize, depth: usize) -> String {
    let (open, close) = match kind % 5 {
        0 => ("Vec[", "]"),
        1 => ("Ref[", "]"),
        2 => ("(", ", bool)"),
        3 => ("[", "; 2]"),
        _ => ("() -> ", ""),
    };
    let mut s = String::from("fn f(x: ");
    for _ in 0..depth {
        s.push_str(open);
    }
    s.push_str("int32");
    for _ in 0..depth {
        s.push_str(close);
    }
    s.push_str(") -> unit { () }\nfn main() { }\n");
    s
}

pub fn nest_pattern(depth: usize) -> String {
    let mut s = String::from("fn main() { let v = 1; match v { ");
    let mut p = String::new();
    for _ in 0..depth {
        p.push('(');
    }
    p.push('_');
    for _ in 0..depth {
        p.push_str(", _)");
    }
    s.push_str(&p);
    s.push_str(" => 1, _ => 2 }; }\n");
    s
}
