//! Calibration items 1-3: corpus agreement and negative controls for vet.

use gomini::vet_source;
use std::path::Path;

const CORPUS: &str = "/repo/crates/compiler/src/tests/pipeline";

fn golden(name: &str) -> String {
    std::fs::read_to_string(Path::new(CORPUS).join(name).join("main.gom.go")).unwrap()
}

#[test]
fn corpus_vet_and_run() {
    let rep = gomini::calibrate(Path::new(CORPUS));
    for f in &rep.failures {
        eprintln!("FAILURE: {}", f);
    }
    eprintln!(
        "programs={} vet_accepted={} vet_rejected_like_go={:?} with_out={} run_matched={} panic_matched={:?} unsupported_as_expected={:?}",
        rep.programs, rep.vet_accepted, rep.vet_rejected_like_go, rep.with_out, rep.run_matched, rep.panic_matched, rep.unsupported_as_expected
    );
    assert!(rep.ok());
    assert_eq!(rep.programs, 74);
    // 058_lowercase_constructors was rejected by real Go (its .out holds the
    // compiler error) and must be rejected by vet at the same line; the
    // other 73 must be accepted with nothing unsupported.
    assert_eq!(rep.vet_accepted, 73);
    assert_eq!(rep.vet_rejected_like_go, vec!["058_lowercase_constructors".to_string()]);
    assert_eq!(rep.with_out, 73);
    assert_eq!(rep.run_matched, 69);
    assert_eq!(rep.panic_matched, vec!["025_missing_match".to_string()]);
    assert_eq!(rep.unsupported_as_expected, vec!["043_extern_type_stub".to_string(), "044_count_down".to_string()]);
}

/// 042_go_statement: main spawns a goroutine and spin-waits on a Ref flag,
/// then prints "main". Real Go printed "main". Under the Deterministic
/// scheduler main keeps running after `go`, reaches the back-edge of the
/// spin loop, where (another goroutine being runnable) control moves to the
/// child; the child sets the flag and ends, main resumes, leaves the loop
/// and prints. Any fair schedule gives the same single line, which is why
/// the default schedule reproduces the recording.
#[test]
fn go_statement_all_schedulers() {
    let src = golden("042_go_statement");
    let file = gomini::parse(&src).unwrap();
    for sched in [gomini::Sched::Deterministic, gomini::Sched::Random { seed: 1 }, gomini::Sched::Random { seed: 99 }, gomini::Sched::Script(vec![0, 0, 0, 1])] {
        let cfg = gomini::RunConfig { sched, ..Default::default() };
        let r = gomini::run(&file, &cfg);
        assert_eq!(r.exit, gomini::Exit::Ok);
        assert_eq!(r.stdout_str(), "main\n");
        assert!(r.events.iter().any(|e| matches!(e, gomini::Event::Spawn(_))));
        assert!(r.events.iter().any(|e| matches!(e, gomini::Event::RefSet(_))));
    }
}

fn expect_kind(name: &str, src: &str, kind: &str) {
    let rep = vet_source(src);
    assert!(
        rep.has_kind(kind),
        "negative control {:?}: expected kind {:?}, got errors {:?} unsupported {:?}\n{}",
        name,
        kind,
        rep.errors,
        rep.unsupported,
        src
    );
}

fn prog(decls: &str, body: &str) -> String {
    format!("package main\n\nimport (\n    \"fmt\"\n)\n\n{}\n\nfunc main() {{\n    fmt.Println(\"x\")\n{}\n}}\n", decls, body)
}

#[test]
fn negative_controls_handwritten() {
    let cases: Vec<(&str, String, &str)> = vec![
        ("unused variable", prog("", "x := 1"), "unused-variable"),
        ("variable only assigned", prog("", "var x int32\nx = 5"), "unused-variable"),
        ("unused import", "package main\nimport \"fmt\"\nfunc main() {}\n".to_string(), "unused-import"),
        ("unused second import", "package main\nimport (\n\"fmt\"\n\"time\"\n)\nfunc main() { fmt.Println(1) }\n".to_string(), "unused-import"),
        ("missing import", "package main\nfunc main() { fmt.Println(1) }\n".to_string(), "missing-import"),
        ("redeclared var", prog("", "var x int32\nvar x int32\n_ = x"), "redeclared"),
        ("redeclared func", prog("func f() {}\nfunc f() {}", ""), "redeclared"),
        ("redeclared type", prog("type T struct{}\ntype T struct{}", ""), "redeclared"),
        ("func and var same name", prog("func f() {}\nvar f int32", ""), "redeclared"),
        ("duplicate parameter", prog("func f(a int32, a int32) {}", ""), "redeclared"),
        ("undefined name", prog("", "_ = y"), "undefined"),
        ("undefined helper call", prog("", "helper(1)"), "undefined"),
        ("undefined type", prog("", "var x Foo\n_ = x"), "undefined"),
        ("use before declaration", prog("", "x := y\ny := 1\n_ = x\n_ = y"), "use-before-decl"),
        ("t4 shadows function", prog("func t4() int32 { return 1 }", "var t4 int32 = t4()\nt4()"), "not-callable"),
        ("int32 to int64 assignment", prog("", "var a int32 = 1\nvar b int64 = a\n_ = b"), "type-mismatch"),
        ("call argument type", prog("func f(x int32) {}", "var a int64 = 1\nf(a)"), "type-mismatch"),
        ("return type", prog("func f() int32 {\nvar s string = \"a\"\nreturn s\n}", ""), "type-mismatch"),
        ("struct A vs struct B", prog("type A struct { x int32 }\ntype B struct { x int32 }", "var a A = B{x: 1}\n_ = a"), "type-mismatch"),
        ("named func type wrong signature", prog("type F func(int32) int32\nfunc g(x string) int32 { return 1 }", "var f F = g\n_ = f"), "type-mismatch"),
        (
            "closure struct where func expected",
            prog("type env struct { n int32 }\nfunc apply(f func(int32) int32) int32 { return f(1) }", "apply(env{n: 1})"),
            "type-mismatch",
        ),
        ("too few arguments", prog("func f(a int32, b int32) {}", "f(1)"), "arg-count"),
        ("too many arguments", prog("func f(a int32) {}", "f(1, 2)"), "arg-count"),
        ("missing return", prog("func f() int32 {\n}", ""), "missing-return"),
        ("missing return after if", prog("func f(c bool) int32 {\nif c {\nreturn 1\n}\n}", ""), "missing-return"),
        ("missing return switch without default", prog("func f(c bool) int32 {\nswitch c {\ncase true:\nreturn 1\ncase false:\nreturn 2\n}\n}", ""), "missing-return"),
        ("missing return loop with break", prog("func f() int32 {\nfor {\nbreak\n}\n}", ""), "missing-return"),
        ("int8 constant overflow", prog("", "var x int8 = 200\n_ = x"), "const-overflow"),
        ("int32 constant expression overflow", prog("", "var x int32 = 2147483647 + 1\n_ = x"), "const-overflow"),
        ("negative to unsigned", prog("", "var u uint8 = -1\n_ = u"), "const-overflow"),
        ("typed constant arithmetic overflow", prog("", "var x int8 = int8(100) + int8(100)\n_ = x"), "const-overflow"),
        ("float32 constant overflow", prog("", "var f float32 = 1e39\n_ = f"), "const-overflow"),
        ("constant division by zero", prog("", "var x int32 = 5 / 0\n_ = x"), "const-div-zero"),
        ("variable divided by constant zero", prog("", "var a int32 = 1\nvar x int32 = a / 0\n_ = x"), "const-div-zero"),
        ("float constant division by zero", prog("", "var x float64 = 1.0 / 0.0\n_ = x"), "const-div-zero"),
        ("ordered comparison of bools", prog("", "var b bool = true < false\n_ = b"), "invalid-op"),
        ("string subtraction", prog("", "var s string = \"a\" - \"b\"\n_ = s"), "invalid-op"),
        ("plus on bools", prog("", "var a bool = true\nvar b bool = a + a\n_ = b"), "invalid-op"),
        ("not on int", prog("", "var a int32 = 1\nvar b int32 = !a\n_ = b"), "invalid-op"),
        ("minus on string", prog("", "var a string = \"x\"\nvar b string = -a\n_ = b"), "invalid-op"),
        ("logical and on ints", prog("", "var a int32 = 1\nvar b int32 = a && a\n_ = b"), "invalid-op"),
        ("less on structs", prog("type P struct { x int32 }", "var a P\nvar b bool = a < a\n_ = b"), "invalid-op"),
        ("shift of float", prog("", "var f float64 = 1\nvar g float64 = f << 1\n_ = g"), "invalid-op"),
        ("remainder of floats", prog("", "var f float64 = 1\nvar g float64 = f % f\n_ = g"), "invalid-op"),
        ("compare two slices", prog("", "var a []int32\nvar b []int32\nvar c bool = a == b\n_ = c"), "not-comparable"),
        ("compare two funcs", prog("func f() {}", "var c bool = f == f\n_ = c"), "not-comparable"),
        ("compare structs with slice field", prog("type S struct { v []int32 }", "var a S\nvar c bool = a == a\n_ = c"), "not-comparable"),
        ("duplicate int case", prog("", "var x int32 = 1\nswitch x {\ncase 1:\ncase 2:\ncase 1:\n}"), "dup-case"),
        ("duplicate string case", prog("", "var x string = \"a\"\nswitch x {\ncase \"a\":\ncase \"a\":\n}"), "dup-case"),
        (
            "impossible type switch case",
            prog("type I interface { m() }\ntype A struct{}\nfunc (_ A) m() {}\ntype B struct{}", "var i I = A{}\nswitch i.(type) {\ncase A:\ncase B:\n}"),
            "impossible-case",
        ),
        (
            "duplicate type switch case",
            prog("type A struct{}", "var i any = A{}\nswitch i.(type) {\ncase A:\ncase A:\n}"),
            "dup-case",
        ),
        ("absurd array length", prog("", "var a [18446744073709551615]int32\n_ = a"), "invalid-array-len"),
        ("array larger than address space", prog("", "var a [4611686018427387904]int32\n_ = a"), "invalid-array-len"),
        ("negative array length", prog("", "var a [-1]int32\n_ = a"), "invalid-array-len"),
        ("unit result assigned to int32", prog("func missing(s string) struct{} { return struct{}{} }", "var r int32\nr = missing(\"\")\n_ = r"), "type-mismatch"),
        ("keyword as identifier", prog("", "var func int32"), "keyword-as-ident"),
        ("keyword as function name", "package main\nfunc type() {}\nfunc main() {}\n".to_string(), "keyword-as-ident"),
        ("keyword as field selector", prog("type T struct { x int32 }", "var t T\n_ = t.go"), "keyword-as-ident"),
        ("user len with slice argument", prog("func len(s string) int32 { return 1 }", "var v []int32\nvar n int32 = int32(len(v))\n_ = n"), "type-mismatch"),
        ("user variable named string", prog("", "var string int32 = 1\nvar b uint8 = 65\n_ = string(b)"), "not-callable"),
        ("user variable named int32 used as type", prog("", "var int32 int64 = 1\nvar x int32 = 2\n_ = x"), "not-a-type"),
        ("field access on non-struct", prog("", "var x int32 = 1\n_ = x.y"), "unknown-field"),
        ("unknown field in literal", prog("type P struct { x int32 }", "_ = P{y: 1}"), "unknown-field"),
        ("unknown field selector", prog("type P struct { x int32 }", "var p P\n_ = p.z"), "unknown-field"),
        ("unknown method", prog("type P struct { x int32 }", "var p P\np.show()"), "unknown-method"),
        ("missing field type", "package main\ntype P struct {\n    x\n    y int32\n}\nfunc main() {}\n".to_string(), "missing-field-type"),
        ("break outside loop", prog("", "break"), "break-outside-loop"),
        ("continue outside loop", prog("", "continue"), "continue-outside-loop"),
        ("continue in switch outside loop", prog("", "var x int32 = 1\nswitch x {\ncase 1:\ncontinue\n}"), "continue-outside-loop"),
        ("unused type switch binding", prog("type A struct{}", "var i any = A{}\nswitch v := i.(type) {\ncase A:\n}"), "unused-variable"),
        ("assertion on non-interface", prog("", "var x int32 = 1\n_ = x.(int32)"), "bad-assert"),
        ("type switch on non-interface", prog("", "var x int32 = 1\nswitch x.(type) {\n}"), "bad-assert"),
        ("impossible assertion", prog("type I interface { m() }\ntype B struct{}", "var i I\n_ = i.(B)"), "impossible-assert"),
        ("duplicate struct field", "package main\ntype P struct {\n x int32\n x int32\n}\nfunc main() {}\n".to_string(), "dup-field"),
        ("duplicate method", prog("type T struct{}\nfunc (_ T) m() {}\nfunc (_ T) m() {}", ""), "dup-method"),
        ("field and method with same name", prog("type T struct { m int32 }\nfunc (_ T) m() {}", ""), "dup-method"),
        ("duplicate interface method", prog("type I interface {\n m()\n m()\n}", ""), "dup-method"),
        ("duplicate field in literal", prog("type P struct { x int32 }", "_ = P{x: 1, x: 2}"), "dup-field"),
        ("mixed keyed and positional literal", prog("type P struct { x int32; y int32 }", "_ = P{x: 1, 2}"), "mixed-literal"),
        ("too few values in literal", prog("type P struct { x int32; y int32 }", "_ = P{1}"), "literal-arity"),
        ("too many array elements", prog("", "_ = [2]int32{1, 2, 3}"), "literal-arity"),
        ("nil to int", prog("", "var x int32 = nil\n_ = x"), "type-mismatch"),
        ("nil to struct", prog("type P struct{}", "var x P = nil\n_ = x"), "type-mismatch"),
        ("non-boolean condition", prog("", "var x int32 = 1\nif x {\n}"), "non-bool-cond"),
        ("non-boolean for condition", prog("", "var x int32 = 1\nfor x {\n}"), "non-bool-cond"),
        ("too many return values", prog("func f() { return 1 }", ""), "return-count"),
        ("missing return value", prog("func f() int32 { return }", ""), "return-count"),
        ("unused expression result", prog("", "var x int32 = 1\nx + 1"), "unused-result"),
        ("append result unused", prog("", "var v []int32\nappend(v, 1)"), "unused-result"),
        ("conversion as statement", prog("", "var x int32 = 1\nint64(x)"), "unused-result"),
        ("assign to call result field", prog("type P struct { x int32 }\nfunc f() P { return P{} }", "f().x = 1"), "not-assignable"),
        ("assign to string index", prog("", "var s string = \"ab\"\ns[0] = 65"), "not-assignable"),
        ("assign to function", prog("func f() {}\nfunc g() {}", "f = g"), "not-assignable"),
        (
            "type does not implement interface",
            prog("type I interface { m() }\ntype B struct{}", "var i I = B{}\n_ = i"),
            "type-mismatch",
        ),
        ("mismatched operand types", prog("", "var a int32 = 1\nvar b int64 = 2\nvar c int32 = a + b\n_ = c"), "type-mismatch"),
        ("named type versus underlying", prog("type M int32", "var a M = 1\nvar b int32 = a\n_ = b"), "type-mismatch"),
        ("float constant truncated", prog("", "var x int32 = 1.5\n_ = x"), "const-truncated"),
        ("constant conversion truncated", prog("", "var x int32 = int32(3.7)\n_ = x"), "const-truncated"),
        ("string constant to int", prog("", "var x int32 = \"a\"\n_ = x"), "type-mismatch"),
        ("int constant to string var", prog("", "var s string = 1\n_ = s"), "type-mismatch"),
        ("no new variables", prog("", "x := 1\nx := 2\n_ = x"), "no-new-vars"),
        ("main with parameters", "package main\nfunc main(x int32) {}\n".to_string(), "bad-main"),
        ("main with result", "package main\nfunc main() int32 { return 1 }\n".to_string(), "bad-main"),
        ("missing main", "package main\nfunc f() {}\n".to_string(), "missing-main"),
        ("missing closing brace", "package main\nfunc main() {\n".to_string(), "syntax"),
        ("short var decl outside function", "package main\nx := 1\nfunc main() {}\n".to_string(), "syntax"),
        ("import after declaration", "package main\nfunc main() {}\nimport \"fmt\"\n".to_string(), "syntax"),
        ("missing comma before newline in literal", prog("type P struct { x int32 }", "_ = P{\nx: 1\n}"), "syntax"),
        ("double minus minus operand", prog("", "var a int32 = 1\nvar b int32 = --a\n_ = b"), "syntax"),
        ("unterminated string", "package main\nfunc main() { _ = \"abc\n}\n".to_string(), "syntax"),
        ("unknown escape", "package main\nfunc main() { _ = \"\\q\" }\n".to_string(), "syntax"),
        ("else on new line", prog("", "if true {\n}\nelse {\n}"), "syntax"),
        ("constant index out of range", prog("", "var a [3]int32\n_ = a[5]"), "const-index-oob"),
        ("negative constant index", prog("", "var a []int32\n_ = a[-1]"), "const-index-oob"),
        ("constant string index out of range", prog("", "_ = \"abc\"[3]"), "const-index-oob"),
        ("invalid recursive type", prog("type T struct { next T }", ""), "invalid-recursive-type"),
        ("mutually recursive value types", prog("type A struct { b B }\ntype B struct { a A }", ""), "invalid-recursive-type"),
        ("assignment count mismatch", prog("", "var a, b int32 = 1\n_ = a\n_ = b"), "assign-count"),
        ("calling a non-function", prog("", "var x int32 = 1\nx()"), "not-callable"),
        ("blank identifier as value", prog("", "var x int32 = _\n_ = x"), "blank-value"),
        ("method on non-local type", prog("func (x int32) m() {}", ""), "bad-receiver"),
        ("function without body", "package main\nfunc f()\nfunc main() {}\n".to_string(), "missing-body"),
        ("no value used as value", prog("func f() {}", "var x int32 = f()\n_ = x"), "type-mismatch"),
        ("index of non-indexable", prog("", "var x int32 = 1\n_ = x[0]"), "invalid-op"),
        ("string index", prog("", "var a [3]int32\nvar s string = \"x\"\n_ = a[s]"), "type-mismatch"),
        ("deref of non-pointer", prog("", "var x int32 = 1\n_ = *x"), "invalid-op"),
        ("multiple defaults", prog("", "var x int32 = 1\nswitch x {\ndefault:\ndefault:\n}"), "dup-default"),
        ("case type mismatch", prog("", "var x int32 = 1\nswitch x {\ncase \"a\":\n}"), "type-mismatch"),
        ("go without call", prog("", "var x int32 = 1\ngo x"), "syntax"),
        ("value of type as expression", prog("type T struct{}", "var x int32 = T\n_ = x"), "not-an-expr"),
        ("use of package without selector", prog("", "_ = fmt"), "not-an-expr"),
        ("unexported fmt member", prog("", "fmt.println(1)"), "undefined"),
    ];
    assert!(cases.len() >= 60);
    for (name, src, kind) in &cases {
        expect_kind(name, src, kind);
    }
    eprintln!("negative controls (hand-written): {}", cases.len());
}

fn mutate(src: &str, from: &str, to: &str) -> String {
    assert!(src.contains(from), "mutation anchor {:?} not found", from);
    src.replacen(from, to, 1)
}

#[test]
fn negative_controls_golden_mutations() {
    let g000 = golden("000");
    let g042 = golden("042_go_statement");
    let g050 = golden("050_float_ops");
    let g069 = golden("069_dyn_trait");
    let g064 = golden("064_vec_builtin");
    // the unmodified goldens are accepted
    for g in [&g000, &g042, &g050, &g069, &g064] {
        assert!(vet_source(g).ok());
    }
    let cases: Vec<(&str, String, &str)> = vec![
        ("drop the import block", mutate(&g000, "import (\n    \"fmt\"\n)\n", ""), "missing-import"),
        ("add an unused import", mutate(&g000, "    \"fmt\"\n", "    \"fmt\"\n    \"time\"\n"), "unused-import"),
        ("duplicate a var", mutate(&g042, "    var cond8 bool\n", "    var cond8 bool\n    var cond8 bool\n"), "redeclared"),
        ("delete the last use of a local", mutate(&g042, "        cond8 = t5 < 1\n", "        cond8 = true\n"), "unused-variable"),
        ("retype a declaration", mutate(&g050, "var start32__13 float32 = 1.25", "var start32__13 float64 = 1.25"), "type-mismatch"),
        ("misspell an asserted type", mutate(&g069, "self.(Flag)", "self.(Flagg)"), "undefined"),
        ("drop a function", mutate(&g069, "func dyn__Display__vtable__Point() *dyn__Display_vtable {", "func dyn__Display__vtable__Point2() *dyn__Display_vtable {"), "undefined"),
        ("swap arguments of different type", mutate(&g050, "show32(\"mid32=\", mid32__17)", "show32(mid32__17, \"mid32=\")"), "type-mismatch"),
        ("remove a return", mutate(&g050, "    ret23 = a__6 + t12\n    return ret23\n", "    ret23 = a__6 + t12\n"), "missing-return"),
        ("duplicate a function", format!("{}\nfunc main0() struct{{}} {{\n    return struct{{}}{{}}\n}}\n", g042), "redeclared"),
        ("wrong vtable field", mutate(&g069, "        show: dyn__Display__wrap__Flag__show,\n", "        shown: dyn__Display__wrap__Flag__show,\n"), "unknown-field"),
        ("call with missing argument", mutate(&g050, "lerp32(start32__13, end32__14, half__15)", "lerp32(start32__13, end32__14)"), "arg-count"),
    ];
    for (name, src, kind) in &cases {
        expect_kind(name, src, kind);
    }
    eprintln!("negative controls (golden mutations): {}", cases.len());
}
