//! C19: generated names are unique and never capture Go or runtime names.
//! A. metamorphic renaming: generated programs are renamed consistently with names drawn from adversarial
//!    pools (Go keywords, predeclared identifiers, runtime helpers, compiler temporaries, mangled-looking
//!    names) in every namespace; the renamed program must yield valid Go and behave as before.
//! B. name-encoding enumeration: programs whose types / traits / methods / functions / variants are named
//!    from the exhaustive pool over a four-letter alphabet (incl. `_` and digits) use every composite
//!    (tuples over all ordered pairs, nested tuples, Vec, Ref, arrays, function types, generic instances,
//!    impls, dyn wrappers, shared variants); every construct prints a unique constant. Colliding Go
//!    identifiers show up as duplicate declarations (vet) or as wrong output.
use crate::diff::{self, DiffOpts, Outcome};
use crate::exec;
use crate::gl::ast::*;
use crate::gl::pgen::{Features, generate};
use crate::gl::rename::{Renaming, collect_names};
use crate::goexec::Term;
use crate::runner::{Case, Ctx, PropSpec};
use crate::util::{self, Rng, hash_str};
use serde_json::json;
use std::collections::BTreeMap;

pub static SPEC: PropSpec = PropSpec {
    id: "C19",
    level: "exploration",
    rule: "cross-package: 16 two-package projects sharing a variant / struct / function / trait name between Main and the imported package in every combination, with a generic enum instantiated at int32 and at the imported enum (valid Go + expected output). renamings: generated programs (all item / expression forms of the clean lattice) renamed consistently in all six namespaces (types+traits, variants, fields, methods, functions, locals) with names dealt from adversarial pools (16 Go keywords that goml does not reserve, 30 predeclared Go identifiers, runtime helper and import names, compiler temporaries t<k> x<k> mtmp<k> ret<k> cond<k> env<k> jump<k> x__<k> main0 init, mangled-looking names Tuple2_int32_int32 ref_int32_x dyn__T closure_env_main_0); the renamed program must compile to valid Go and print what refsem prints (which equals the original program's output). name sets: 4 type, 2 trait, 2 method, 3 function and 3 variant names drawn from the exhaustive pool of identifiers over {A,B,_,1} / {a,b,_,1} up to length 3 (42 each), used in every composite; sets are drawn until every unordered pair of type names co-occurred (quick) / 12,000 sets (thorough). non-trivial: accepted programs; distinct by name-set / renaming hash",
    eval_counter: "programs",
    assumptions: &["relative to refsem, gomini vet (duplicate declarations, keyword misuse) and gomini execution", "goml-level name clashes (value namespace: functions, locals, unqualified variants) are avoided by dealing distinct names within that namespace"],
    crash_is_violation: false,
    stack_mib: 256,
    case_cpu_s: 120,
    shards: 0,
    run,
    floors: &[("renamed_programs_agree", 80, 2_000), ("name_set_programs_agree", 60, 4_000), ("type_name_pairs_covered", 600, 861), ("cross_package_projects_ok", 16, 16), ("regrouped_instantiations_ok", 6, 6)],
    finish: None,
};

const GO_KEYWORDS: &[&str] = &["break", "case", "chan", "const", "continue", "default", "defer", "fallthrough", "func", "goto", "interface", "map", "range", "select", "switch", "var"];
const GO_PREDECLARED: &[&str] = &[
    "any", "append", "cap", "close", "complex", "copy", "delete", "error", "imag", "iota", "len", "make", "max", "min", "new", "nil", "panic", "print", "println", "real", "recover", "byte", "rune", "int", "uint", "uintptr", "float", "comparable", "clear", "String",
];
const RUNTIME_NAMES: &[&str] = &["fmt", "main0", "init", "missing", "json_escape_string", "ref__Ref_int32", "ref_get__Ref_int32", "ref_set__Ref_int32", "ref_int32_x", "os", "strconv"];
const TEMPS: &[&str] = &["t0", "t1", "t2", "t5", "t12", "x0", "x1", "x7", "mtmp0", "mtmp1", "mtmp4", "ret0", "ret1", "ret9", "cond0", "cond3", "env", "env0", "env2", "jump", "jump0", "jp1", "x__0", "x__1", "self__0", "y__2"];
const MANGLED: &[&str] = &["Tuple2_int32_int32", "Tuple2_bool_bool", "Tuple3_int32_int32_int32", "dyn__T", "dyn__Tr0", "closure_env_main_0", "closure_env_fun1_0", "Vec_int32", "Array3_int32", "Ptr_ref_int32_x", "TFunc_int32_int32", "E0_E0v0", "S0", "E0"];

fn deal(rng: &mut Rng, pool: &mut Vec<String>, names: &BTreeMap<String, String>, keep: u32) -> BTreeMap<String, String> {
    let mut out = BTreeMap::new();
    for n in names.keys() {
        // keep some names as they are so that renamed and original identifiers mix
        if rng.chance(keep, 10) || pool.is_empty() {
            continue;
        }
        let k = rng.below(pool.len());
        out.insert(n.clone(), pool.swap_remove(k));
    }
    out
}

/// renaming with Go keywords and predeclared identifiers only (names the compiler is expected to handle)
pub fn keyword_renaming(prog: &Program, rng: &mut Rng) -> Renaming {
    renaming_from(prog, rng, false)
}

fn adversarial_renaming(prog: &Program, rng: &mut Rng) -> Renaming {
    renaming_from(prog, rng, true)
}

fn renaming_from(prog: &Program, rng: &mut Rng, generated_lookalikes: bool) -> Renaming {
    let names = collect_names(prog);
    let existing: std::collections::BTreeSet<String> =
        names.types.keys().chain(names.variants.keys()).chain(names.fields.keys()).chain(names.methods.keys()).chain(names.fns.keys()).chain(names.locals.keys()).cloned().collect();
    let all: Vec<String> = if generated_lookalikes {
        GO_KEYWORDS.iter().chain(GO_PREDECLARED).chain(RUNTIME_NAMES).chain(TEMPS).chain(MANGLED).map(|s| s.to_string()).filter(|s| !existing.contains(s)).collect()
    } else {
        // ("String" is left out: a type of that name meets the recorded case-folding finding of ref_struct_name)
        GO_KEYWORDS.iter().chain(GO_PREDECLARED).chain(["fmt", "main0", "init"].iter()).map(|s| s.to_string()).filter(|s| !existing.contains(s) && s != "String").collect()
    };
    // value namespace: functions, locals and variants get mutually distinct names
    let mut value_pool = all.clone();
    let mut r = Renaming::default();
    r.fns = deal(rng, &mut value_pool, &names.fns, 3);
    r.variants = deal(rng, &mut value_pool, &names.variants, 3);
    r.locals = deal(rng, &mut value_pool, &names.locals, 4);
    // struct names are constructors too: same namespace
    r.types = deal(rng, &mut value_pool, &names.types, 3);
    // fields and methods are independent namespaces (overlaps with the value namespace are the point)
    let mut field_pool = all.clone();
    r.fields = deal(rng, &mut field_pool, &names.fields, 3);
    let mut method_pool = all.clone();
    r.methods = deal(rng, &mut method_pool, &names.methods, 3);
    r.qualify_all = true;
    r
}

// ------------------------------------------------------------------------------------------ name sets

fn pool(first: &[char], rest: &[char]) -> Vec<String> {
    let mut out = Vec::new();
    for f in first {
        out.push(f.to_string());
        for a in rest {
            out.push(format!("{}{}", f, a));
            for b in rest {
                out.push(format!("{}{}{}", f, a, b));
            }
        }
    }
    out
}

struct NameSet {
    types: Vec<String>,
    traits: Vec<String>,
    methods: Vec<String>,
    fns: Vec<String>,
    variants: Vec<String>,
    unit_param_fn_types: bool,
}

fn pick_distinct(rng: &mut Rng, pool: &[String], n: usize, avoid: &[String]) -> Vec<String> {
    let mut out: Vec<String> = Vec::new();
    let mut guard = 0;
    while out.len() < n && guard < 10_000 {
        guard += 1;
        let c = rng.pick_ref(pool).clone();
        if !out.contains(&c) && !avoid.contains(&c) {
            out.push(c);
        }
    }
    out
}

/// the program text and its expected stdout lines
fn name_set_program(ns: &NameSet, rng: &mut Rng) -> (String, Vec<String>) {
    let t = &ns.types;
    let r = &ns.traits;
    let m0 = &ns.methods[0];
    let m1 = &ns.methods[1];
    let mut s = String::new();
    let mut main = String::new();
    let mut exp: Vec<String> = Vec::new();
    let mut line = |main: &mut String, exp: &mut Vec<String>, expr: String, val: i64| {
        main.push_str(&format!("    let _ = string_println(int32_to_string({}));\n", expr));
        exp.push(val.to_string());
    };
    for tr in r {
        s.push_str(&format!("trait {} {{\n    fn {}(Self) -> int32;\n}}\n", tr, m0));
    }
    for tn in t {
        s.push_str(&format!("struct {} {{ v: int32 }}\n", tn));
    }
    s.push_str("struct Bx[T] { it: T }\nfn idg[T](x: T) -> T { x }\n");
    // impl blocks in random order (which impl comes first must not matter)
    let mut impl_blocks: Vec<String> = Vec::new();
    for (i, tr) in r.iter().enumerate() {
        for (j, tn) in t.iter().enumerate() {
            let c = 100 * (i as i64 + 1) + 10 * (j as i64 + 1);
            impl_blocks.push(format!("impl {} for {} {{\n    fn {}(self: {}) -> int32 {{ self.v + {} }}\n}}\n", tr, tn, m0, tn, c));
            line(&mut main, &mut exp, format!("{}::{}({} {{ v: 1 }})", tr, m0, tn), 1 + c);
        }
    }
    rng.shuffle(&mut impl_blocks);
    for b in impl_blocks {
        s.push_str(&b);
    }
    for (j, tn) in t.iter().enumerate() {
        let c = 1000 + j as i64;
        s.push_str(&format!("impl {} {{\n    fn {}(self: {}) -> int32 {{ self.v + {} }}\n}}\n", tn, m1, tn, c));
        line(&mut main, &mut exp, format!("{}::{}({} {{ v: 2 }})", tn, m1, tn), 2 + c);
        s.push_str(&format!("fn mk{}() -> {} {{ {} {{ v: {} }} }}\nfn mku{}(u: unit) -> {} {{ {} {{ v: {} }} }}\n", j, tn, tn, 40 + j, j, tn, tn, 50 + j));
    }
    for (k, f) in ns.fns.iter().enumerate() {
        s.push_str(&format!("fn {}(x: int32) -> int32 {{ x + {} }}\n", f, 7 + k));
        line(&mut main, &mut exp, format!("{}(1)", f), 8 + k as i64);
    }
    // enums sharing a variant name; one variant carries a user type
    let v = &ns.variants;
    s.push_str(&format!("enum En0 {{ {}, {}(int32) }}\nenum En1 {{ {}, {}({}) }}\n", v[0], v[1], v[0], v[2], t[0]));
    main.push_str(&format!(
        "    let _ = string_println(match En0::{}(5) {{ En0::{} => \"n0a\", En0::{}(k) => \"n0b\" + int32_to_string(k) }});\n    let _ = string_println(match En1::{} {{ En1::{} => \"n1a\", En1::{}(w) => \"n1c\" + int32_to_string(w.v) }});\n    let _ = string_println(match En1::{}({} {{ v: 6 }}) {{ En1::{} => \"n1a\", En1::{}(w) => \"n1c\" + int32_to_string(w.v) }});\n",
        v[1], v[0], v[1], v[0], v[0], v[2], v[2], t[0], v[0], v[2]
    ));
    exp.push("n0b5".into());
    exp.push("n1a".into());
    exp.push("n1c6".into());
    // tuples over all ordered pairs
    let mut tmp = 0;
    for (j, a) in t.iter().enumerate() {
        for (k, b) in t.iter().enumerate() {
            tmp += 1;
            main.push_str(&format!("    let (p{}l, p{}r) = idg(({} {{ v: {} }}, {} {{ v: {} }}));\n", tmp, tmp, a, j + 1, b, (k + 1) * 10));
            line(&mut main, &mut exp, format!("p{}l.v + p{}r.v", tmp, tmp), (j + 1 + (k + 1) * 10) as i64);
        }
    }
    // nested tuples for a random triple
    let (a, b, c) = (rng.pick_ref(t).clone(), rng.pick_ref(t).clone(), rng.pick_ref(t).clone());
    main.push_str(&format!("    let ((nla, nlb), nr) = idg((({a} {{ v: 1 }}, {b} {{ v: 2 }}), {c} {{ v: 3 }}));\n    let (ml, (mra, mrb)) = idg(({a} {{ v: 4 }}, ({b} {{ v: 5 }}, {c} {{ v: 6 }})));\n"));
    line(&mut main, &mut exp, "nla.v * 100 + nlb.v * 10 + nr.v".into(), 123);
    line(&mut main, &mut exp, "ml.v * 100 + mra.v * 10 + mrb.v".into(), 456);
    // tuples whose component types differ only in an array length or in the container kind
    main.push_str("    let (la2, lb2) = idg(([1, 2], 7));\n    let (la3, lb3) = idg(([1, 2, 3], 8));\n    let lv: Vec[int32] = vec_push(vec_new(), 5);\n    let (lav, lbv) = idg((lv, 9));\n    let (ln2, lm2) = idg((([1, 2], true), 1));\n    let (ln3, lm3) = idg((([1, 2, 3], true), 2));\n");
    line(&mut main, &mut exp, "array_get(la2, 1) * 1000 + array_get(la3, 2) * 100 + vec_get(lav, 0) * 10 + lb2 + lb3 + lbv".into(), 2 * 1000 + 3 * 100 + 5 * 10 + 7 + 8 + 9);
    main.push_str("    let (ln2a, ln2b) = ln2;\n    let (ln3a, ln3b) = ln3;\n");
    line(&mut main, &mut exp, "array_get(ln2a, 0) + array_get(ln3a, 2) + lm2 + lm3".into(), 1 + 3 + 1 + 2);
    // containers, generic struct, dyn, function types
    for (j, tn) in t.iter().enumerate() {
        let base = (j as i64 + 1) * 3;
        main.push_str(&format!("    let ve{j}: Vec[{tn}] = vec_push(vec_new(), {tn} {{ v: {base} }});\n"));
        line(&mut main, &mut exp, format!("vec_get(ve{j}, 0).v"), base);
        main.push_str(&format!("    let rf{j} = ref({tn} {{ v: {} }});\n", base + 1));
        line(&mut main, &mut exp, format!("ref_get(rf{j}).v"), base + 1);
        main.push_str(&format!("    let ar{j} = [{tn} {{ v: 0 }}, {tn} {{ v: {} }}];\n", base + 2));
        line(&mut main, &mut exp, format!("array_get(ar{j}, 1).v"), base + 2);
        main.push_str(&format!("    let bx{j}: Bx[{tn}] = idg(Bx {{ it: {tn} {{ v: {} }} }});\n", base + 3));
        line(&mut main, &mut exp, format!("bx{j}.it.v"), base + 3);
        for (i, tr) in r.iter().enumerate() {
            main.push_str(&format!("    let dy{j}x{i}: dyn {tr} = {tn} {{ v: 3 }};\n"));
            line(&mut main, &mut exp, format!("{tr}::{m0}(dy{j}x{i})"), 3 + 100 * (i as i64 + 1) + 10 * (j as i64 + 1));
        }
        main.push_str(&format!("    let (g{j}, gk{j}) = idg((mk{j}, 1));\n"));
        line(&mut main, &mut exp, format!("g{j}().v + gk{j}"), 41 + j as i64);
        if ns.unit_param_fn_types {
            // (fn() -> T, int32) next to (fn(unit) -> T, int32)
            main.push_str(&format!("    let (h{j}, hk{j}) = idg((mku{j}, 2));\n"));
            line(&mut main, &mut exp, format!("h{j}(()).v + hk{j}"), 52 + j as i64);
        }
    }
    s.push_str("fn main() -> unit {\n");
    s.push_str(&main);
    s.push_str("    ()\n}\n");
    (s, exp)
}

fn class_of_go_name(name: &str) -> &'static str {
    if name.starts_with("Tuple") {
        "tuple-helper-type"
    } else if name.starts_with("_goml_trait_impl_") {
        "trait-impl-function"
    } else if name.starts_with("_goml_inherent_") {
        "inherent-method-function"
    } else if name.starts_with("ref_") || name.starts_with("Ptr_") {
        "ref-helper"
    } else if name.starts_with("dyn__") {
        "dyn-helper"
    } else if name.starts_with("_goml_") {
        "generic-instance-function"
    } else if name.starts_with("Array") || name.starts_with("Vec_") {
        "container-helper"
    } else {
        "plain-name"
    }
}

/// which part of the naming scheme produced a colliding identifier
fn mechanism_of(name: &str, user_names: &[String]) -> &'static str {
    if user_names.iter().any(|u| u == name) {
        "user-name-equals-generated-name"
    } else if name.starts_with("ref_") && user_names.iter().any(|u| *u != u.to_lowercase() && name.contains(&u.to_lowercase())) {
        // ref_struct_name lower-cases the element type's name: Ref[String] and Ref[string] share ref_string_x
        "case-folded-component"
    } else if name.contains("TFunc") {
        "function-type-component"
    } else if user_names.iter().any(|u| u.contains('_') && name.contains(u.as_str())) {
        "underscore-joined-components"
    } else {
        // no user name with an underscore is involved: two structurally different types / entities share a name
        "different-entities-share-a-name"
    }
}

/// report every distinct (kind, class, mechanism) among the vet errors
fn report_vet_errors(c: &mut Case, errs: &[(String, u32, String)], go: &str, user_names: &[String], label: &str, src: &str, extra: serde_json::Value) {
    let mut seen = std::collections::BTreeSet::new();
    let mut found: Vec<(String, String, serde_json::Value)> = Vec::new();
    // a redeclaration is the root cause; the type errors that follow from it are not reported separately
    let has_redecl = errs.iter().any(|(k, _, _)| k == "redeclared");
    for (kind, lineno, msg) in errs {
        if has_redecl && kind != "redeclared" {
            continue;
        }
        let go_line = go.lines().nth((*lineno as usize).saturating_sub(1)).unwrap_or("").trim().to_string();
        let ident: String = if kind == "redeclared" {
            msg.split_whitespace().next().unwrap_or("").to_string()
        } else {
            go_line.split(|ch: char| !(ch.is_alphanumeric() || ch == '_')).filter(|w| !w.is_empty()).nth(1).unwrap_or("").to_string()
        };
        let words = |t: &str| -> Vec<String> { t.split(|ch: char| !(ch.is_alphanumeric() || ch == '_')).filter(|w| !w.is_empty()).map(|w| w.to_string()).collect() };
        let sig = if kind == "redeclared" {
            format!("C19:redeclared:{}:{}", class_of_go_name(&ident), mechanism_of(&ident, user_names))
        } else {
            // a user entity that carries the name of a compiler temporary / runtime helper is shadowed by (or shadows) it
            let mut all = words(msg);
            all.extend(words(&go_line));
            let captured = all.iter().find(|w| user_names.contains(w) && (TEMPS.contains(&w.as_str()) || RUNTIME_NAMES.contains(&w.as_str()) || MANGLED.contains(&w.as_str())));
            match captured {
                Some(w) if TEMPS.contains(&w.as_str()) => "C19:user-name-equals-generated-name:compiler-temporary".to_string(),
                Some(w) if RUNTIME_NAMES.contains(&w.as_str()) => "C19:user-name-equals-generated-name:runtime-helper".to_string(),
                Some(_) => "C19:user-name-equals-generated-name:helper-type-or-function".to_string(),
                None => format!("C19:invalid-go:{}:{}", kind, crate::props::c02::line_shape(&go_line)),
            }
        };
        if !seen.insert(sig.clone()) {
            continue;
        }
        found.push((
            sig,
            format!("distinct entities collide / a user name captures a generated one in the Go text: [{}] {} at `{}`", kind, util::truncate(msg, 140), util::truncate(&go_line, 100)),
            json!({"label": label, "go_line": go_line, "identifier": ident, "source": src, "names": extra.clone(),
                   "vet_errors": errs.iter().take(8).map(|(k,l,m)| json!({"kind":k,"line":l,"msg":m})).collect::<Vec<_>>()}),
        ));
    }
    // an identifier captured by a generated name is a root cause like a redeclaration: the unclassified
    // type errors in the same text follow from it and are not reported on their own
    let has_root = found.iter().any(|(s, _, _)| s.starts_with("C19:user-name-equals-generated-name") || s.starts_with("C19:redeclared"));
    for (sig, summary, detail) in found {
        if has_root && sig.starts_with("C19:invalid-go:") {
            continue;
        }
        c.violation(sig, summary, detail);
    }
}

/// name sets: every violation gets a signature naming the class of the colliding Go identifier
fn run_name_set(c: &mut Case, ns: &NameSet, rng: &mut Rng, label: &str) -> bool {
    let (src, exp) = name_set_program(ns, rng);
    crate::runner::note_input(&src);
    // compile ourselves to classify vet findings by the identifier involved
    let go = match crate::runner::guard(|| crate::capi::compile_single(&src).map(|c| crate::capi::go_text(&c))) {
        Ok(Ok(g)) => g,
        Ok(Err(e)) => {
            let msgs = crate::capi::err_messages(&e);
            c.violation(
                format!("C19:name-set-program-rejected:{}", diff::msg_class(msgs.first().map(|s| s.as_str()).unwrap_or(""))),
                format!("a program that only uses unusual identifiers is rejected: {}", util::truncate(&msgs.join("; "), 200)),
                json!({"label": label, "types": ns.types, "traits": ns.traits, "methods": ns.methods, "fns": ns.fns, "variants": ns.variants, "source": src}),
            );
            return false;
        }
        Err(p) => {
            c.inconclusive(format!("compiler panic at {} (a C04 event)", p.site));
            return false;
        }
    };
    let gp = crate::goexec::parse(&go);
    match crate::goexec::vet(&gp) {
        crate::goexec::Vet::Accept => {}
        crate::goexec::Vet::Unsupported(u) => {
            c.inconclusive(format!("gomini vet unsupported: {}", u));
            return false;
        }
        crate::goexec::Vet::Reject(errs) => {
            let mut user: Vec<String> = Vec::new();
            for v in [&ns.types, &ns.traits, &ns.methods, &ns.fns, &ns.variants] {
                user.extend(v.iter().cloned());
            }
            report_vet_errors(c, &errs, &go, &user, label, &src, json!({"types": ns.types, "traits": ns.traits, "methods": ns.methods, "fns": ns.fns, "variants": ns.variants}));
            return false;
        }
    }
    let run = crate::goexec::run(&gp, 5_000_000, gomini::Sched::Deterministic);
    match &run.term {
        Term::Ok => {}
        Term::Unsupported(u) => {
            c.inconclusive(format!("gomini run unsupported: {}", u));
            return false;
        }
        Term::Budget => {
            c.inconclusive("gomini budget");
            return false;
        }
        Term::Fail(k) => {
            c.violation(format!("C19:name-set-program-fails:{}", k), format!("the program fails at run time ({}): {}", k, util::truncate(&run.stderr, 160)), json!({"label": label, "source": src}));
            return false;
        }
    }
    let got: Vec<&str> = run.stdout.lines().collect();
    if got.len() != exp.len() || got.iter().zip(exp.iter()).any(|(a, b)| a != b) {
        let at = got.iter().zip(exp.iter()).position(|(a, b)| a != b).unwrap_or(got.len().min(exp.len()));
        c.violation(
            "C19:name-set-program-prints-other-values".to_string(),
            format!("result line {} is {:?}, expected {:?}: an identifier was captured by another entity", at, got.get(at), exp.get(at)),
            json!({"label": label, "types": ns.types, "traits": ns.traits, "methods": ns.methods, "fns": ns.fns, "variants": ns.variants, "source": src, "expected": exp, "got": got}),
        );
        return false;
    }
    let _ = exec::run_source; // (shared helper used by other checks)
    true
}

fn run(ctx: &mut Ctx) {
    let tier = ctx.tier;
    let seed = ctx.seed;
    if ctx.replay_input.is_some() {
        println!("replay: the replay file stores the full source");
        return;
    }
    // two-package projects whose packages use the SAME names for different things (variants, structs, functions,
    // traits, methods) and a generic enum instantiated at a primitive and at a type of the other package: the Go
    // program is one flat namespace, every entity needs its own name there
    {
        let shared: [(&str, &str); 4] = [("Red", "Stop"), ("Pt", "Pq"), ("mk", "mk_main"), ("Show", "Display")];
        // variant k: which of the four names Main shares with Lib (bit mask); 15 = all, 0 = none (control)
        for mask in 0..16u32 {
            if !ctx.mine(40_000 + mask as u64) {
                continue;
            }
            let nm = |i: usize| if mask & (1 << i) != 0 { shared[i].0 } else { shared[i].1 };
            let (var_red, st_pt, fn_mk, tr_show) = (nm(0), nm(1), nm(2), nm(3));
            let lib = "package Lib\n\nenum Color { Red, Green(int32) }\n\nstruct Pt { x: int32 }\n\nfn mk(v: int32) -> Pt { Pt { x: v } }\n\ntrait Show {\n    fn show(Self) -> int32;\n}\n\nimpl Show for Color {\n    fn show(self: Color) -> int32 { match self { Color::Red => 1, Color::Green(k) => 2 + k } }\n}\n\nimpl Show for Pt {\n    fn show(self: Pt) -> int32 { 100 + self.x }\n}\n".to_string();
            let main = format!(
                "package Main\nimport Lib\n\nenum Signal {{ {red}, Yellow(int32) }}\n\nstruct {pt} {{ y: int32 }}\n\nfn {mk}(v: int32) -> {pt} {{ {pt} {{ y: v }} }}\n\ntrait {show} {{\n    fn show(Self) -> int32;\n}}\n\nimpl {show} for Signal {{\n    fn show(self: Signal) -> int32 {{ match self {{ Signal::{red} => 10, Signal::Yellow(k) => 20 + k }} }}\n}}\n\nimpl {show} for {pt} {{\n    fn show(self: {pt}) -> int32 {{ 1000 + self.y }}\n}}\n\nenum Maybe[T] {{ Just(T), Nothing }}\n\nfn code_i(m: Maybe[int32]) -> int32 {{ match m {{ Maybe::Just(k) => k, Maybe::Nothing => 0 - 1 }} }}\n\nfn code_c(m: Maybe[Lib::Color]) -> int32 {{ match m {{ Maybe::Just(c) => Lib::Show::show(c), Maybe::Nothing => 0 - 2 }} }}\n\nfn main() -> unit {{\n    let _ = string_println(int32_to_string(Lib::Show::show(Lib::Color::Red)) + \" \" + int32_to_string(Lib::Show::show(Lib::Color::Green(5))) + \" \" + int32_to_string({show}::show(Signal::{red})) + \" \" + int32_to_string({show}::show(Signal::Yellow(3))));\n    let _ = string_println(int32_to_string(Lib::Show::show(Lib::mk(4))) + \" \" + int32_to_string({show}::show({mk}(6))));\n    let _ = string_println(int32_to_string(code_i(Maybe::Just(8))) + \" \" + int32_to_string(code_i(Maybe::Nothing)) + \" \" + int32_to_string(code_c(Maybe::Just(Lib::Color::Green(1)))) + \" \" + int32_to_string(code_c(Maybe::Nothing)));\n    ()\n}}\n",
                red = var_red,
                pt = st_pt,
                mk = fn_mk,
                show = tr_show
            );
            let expected = "1 7 10 23\n104 1006\n8 -1 3 -2\n";
            let files = vec![(std::path::PathBuf::from("Lib/lib.gom"), lib), (std::path::PathBuf::from("main.gom"), main)];
            let label = format!("cross-package-names/{:04b}", mask);
            ctx.case(&label.clone(), |c| {
                if let Some((out, term, stderr)) = crate::exec::run_project(c, "C19", &label, &files, 2_000_000) {
                    if out == expected && matches!(term, crate::goexec::Term::Ok) {
                        c.count("cross_package_projects_ok", 1);
                        c.nontrivial(hash_str(&label));
                    } else {
                        c.violation(
                            format!("C19:cross-package-names-print-other-values:{:04b}", mask),
                            format!("{} prints {:?} ({:?} {}), expected {:?}", label, out, term, util::truncate(&stderr, 80), expected),
                            json!({"label": label, "files": files.iter().map(|(p, t)| json!({"path": p.display().to_string(), "text": t})).collect::<Vec<_>>(), "stdout": out}),
                        );
                    }
                }
            });
        }
    }
    // one generic function instantiated at two types whose flattened spellings coincide (the same leaves in the same
    // order, grouped differently): each instantiation needs its own Go function
    {
        let pairs: [(&str, &str, &str, &str, &str, &str); 6] = [
            ("nested-left-3-1", "((int32, int32), int32, int32)", "((1, 2), 3, 4)", "((int32, int32, int32), int32)", "((5, 6, 7), 8)", ""),
            ("nested-left-right", "(int32, (int32, int32))", "(1, (2, 3))", "((int32, int32), int32)", "((4, 5), 6)", ""),
            ("array-of-array", "[[int32; 2]; 3]", "[[1, 2], [3, 4], [5, 6]]", "[[int32; 3]; 2]", "[[1, 2, 3], [4, 5, 6]]", ""),
            ("vec-in-tuple", "Vec[(int32, int32)]", "vec_push(vec_new(), (1, 2))", "(Vec[int32], int32)", "(vec_push(vec_new(), 1), 2)", ""),
            ("ref-in-tuple", "Ref[(int32, bool)]", "ref((1, true))", "(Ref[int32], bool)", "(ref(1), true)", ""),
            ("struct-vs-tuple-of-fields", "(Pt, int32)", "(Pt { x: 1, y: 2 }, 3)", "(Pt, (int32))", "(Pt { x: 4, y: 5 }, (6,))", "struct Pt { x: int32, y: int32 }\n"),
        ];
        for (i, (name, t1, v1, t2, v2, decls)) in pairs.iter().enumerate() {
            if !ctx.mine(42_000 + i as u64) {
                continue;
            }
            let src = format!(
                "{decls}fn keep[T](x: T, tag: int32) -> (T, int32) {{ (x, tag) }}\nfn first(a: {t1}) -> int32 {{ 1 }}\nfn second(b: {t2}) -> int32 {{ 2 }}\nfn main() -> unit {{\n    let a: {t1} = {v1};\n    let b: {t2} = {v2};\n    let (ka, ta) = keep(a, 10);\n    let (kb, tb) = keep(b, 20);\n    let _ = string_println(int32_to_string(first(ka) + ta) + \" \" + int32_to_string(second(kb) + tb));\n    ()\n}}\n",
                decls = decls,
                t1 = t1,
                v1 = v1,
                t2 = t2,
                v2 = v2
            );
            let label = format!("same-leaves-other-grouping/{}", name);
            ctx.case(&label.clone(), |c| {
                if let Some((out, term, stderr)) = crate::exec::run_source(c, "C19", &label, &src, 1_000_000) {
                    if out == "11 22\n" && matches!(term, crate::goexec::Term::Ok) {
                        c.count("regrouped_instantiations_ok", 1);
                        c.nontrivial(hash_str(&src));
                    } else {
                        c.violation(format!("C19:regrouped-instantiations-print-other-values:{}", name), format!("{} prints {:?} ({:?} {})", label, out, term, util::truncate(&stderr, 80)), json!({"label": label, "source": src, "stdout": out}));
                    }
                }
            });
        }
    }
    // temporaries across the build / link boundary: functions that need match-compiler temporaries (constructor, tuple
    // and struct patterns) AND hoisted literal operands (literal-only arithmetic that wraps), compiled whole and through
    // build + link: both texts must be valid Go and print the values the source means
    if ctx.mine(43_000) {
        let src = "enum Sh { Ci(int32), Sq(int32, int32) }\nstruct Pt { x: int32, y: int32 }\nfn score(s: Sh) -> int32 { match s { Sh::Ci(r) => r + (2147483647 + 1), Sh::Sq(a, b) => a * b + (2147483647 + 2) } }\nfn tup(p: (int32, (int32, int32))) -> int32 { match p { (a, (b, c)) => a + b + c + (2147483646 + 5) } }\nfn st(p: Pt) -> int32 { match p { Pt { x: a, y: b } => a + b + (2147483647 + 3) } }\nfn small(p: (uint8, uint8)) -> uint8 { let (a, b) = p; a + b + 255u8 * 255u8 }\nfn main() -> unit {\n    let _ = string_println(int32_to_string(score(Sh::Ci(3))));\n    let _ = string_println(int32_to_string(score(Sh::Sq(2, 3))));\n    let _ = string_println(int32_to_string(tup((1, (2, 3)))));\n    let _ = string_println(int32_to_string(st(Pt { x: 1, y: 2 })));\n    let _ = string_println(uint8_to_string(small((1u8, 2u8))));\n    ()\n}\n";
        let expected = "-2147483645\n-2147483641\n-2147483639\n-2147483643\n4\n";
        ctx.case("temporaries-across-link/whole", |c| {
            if let Some((out, term, stderr)) = crate::exec::run_source(c, "C19", "temporaries-across-link/whole", src, 1_000_000) {
                if out == expected && matches!(term, crate::goexec::Term::Ok) {
                    c.count("temporaries_across_link_ok", 1);
                } else {
                    c.violation("C19:temporaries-program-prints-other-values:whole".to_string(), format!("prints {:?} ({:?} {})", out, term, util::truncate(&stderr, 80)), json!({"source": src}));
                }
            }
        });
        ctx.case("temporaries-across-link/linked", |c| match crate::runner::guard(|| crate::capi::link_single(src)) {
            Ok(Ok(lgo)) => {
                let lp = crate::goexec::parse(&lgo);
                match crate::goexec::vet(&lp) {
                    crate::goexec::Vet::Reject(errs) => report_vet_errors(c, &errs, &lgo, &[], "temporaries-across-link/linked", src, json!({"path": "build + link"})),
                    crate::goexec::Vet::Accept => {
                        let r = crate::goexec::run(&lp, 1_000_000, gomini::Sched::Deterministic);
                        if r.stdout == expected && matches!(r.term, crate::goexec::Term::Ok) {
                            c.count("temporaries_across_link_ok", 1);
                        } else {
                            c.violation("C19:temporaries-program-prints-other-values:linked".to_string(), format!("the linked program prints {:?} ({:?})", r.stdout, r.term), json!({"source": src}));
                        }
                    }
                    crate::goexec::Vet::Unsupported(u) => c.inconclusive(format!("gomini vet unsupported: {}", u)),
                }
            }
            Ok(Err(e)) => c.violation("C19:temporaries-program-rejected-by-build-or-link".to_string(), format!("build + link rejects a program the whole-program path accepts: {}", util::truncate(&e, 160)), json!({"source": src})),
            Err(p) => c.violation(format!("C19:temporaries-program-crashes-build-or-link:{}", crate::diff::msg_class(&p.site)), format!("build + link crashes at {}", p.site), json!({"source": src})),
        });
    }
    // instance names of NESTED generic applications next to user types whose names contain `__`: `Bx[Bx[int32]]` and a
    // user struct `Bx__Bx[int32]` are different types with different impls (added after a seeded change that
    // collapsed the arguments before naming the instance, which made the encoding non-injective)
    {
        let variants: [(&str, String); 3] = [
            ("struct-in-struct", "struct Bx[T] { v: T }\nstruct Bx__Bx[T] { w: T }\ntrait Dsp {\n    fn d(Self) -> string;\n}\nimpl Dsp for Bx[Bx[int32]] {\n    fn d(self: Bx[Bx[int32]]) -> string { \"nested\" }\n}\nimpl Dsp for Bx__Bx[int32] {\n    fn d(self: Bx__Bx[int32]) -> string { \"double\" }\n}\nfn main() -> unit {\n    let a: Bx[Bx[int32]] = Bx { v: Bx { v: 1 } };\n    let b: Bx__Bx[int32] = Bx__Bx { w: 2 };\n    let _ = string_println(Dsp::d(a));\n    let _ = string_println(Dsp::d(b));\n    let xa: Bx[Bx[int32]] = Bx { v: Bx { v: 3 } };\n    let xb: Bx__Bx[int32] = Bx__Bx { w: 4 };\n    let da: dyn Dsp = xa;\n    let db: dyn Dsp = xb;\n    let _ = string_println(Dsp::d(da) + \"/\" + Dsp::d(db));\n    ()\n}\n".to_string()),
            ("enum-in-enum", "enum Op[T] { Sm(T), Nn }\nenum Op__Op[T] { Tw(T), Ze }\nfn fa(o: Op[Op[int32]]) -> string { match o { Op::Sm(_) => \"nested\", Op::Nn => \"none\" } }\nfn fb(o: Op__Op[int32]) -> string { match o { Op__Op::Tw(_) => \"double\", Op__Op::Ze => \"zero\" } }\nfn main() -> unit {\n    let a: Op[Op[int32]] = Op::Sm(Op::Sm(1));\n    let b: Op__Op[int32] = Op__Op::Tw(2);\n    let _ = string_println(fa(a));\n    let _ = string_println(fb(b));\n    let _ = string_println(fa(Op::Nn) + \"/\" + fb(Op__Op::Ze));\n    ()\n}\n".to_string()),
            ("two-parameters", "struct Pq[A, B] { a: A, b: B }\nstruct Pq__Pq__int32__bool[B] { c: B }\nfn fa(p: Pq[Pq[int32, bool], string]) -> string { \"nested:\" + p.b }\nfn fb(p: Pq__Pq__int32__bool[string]) -> string { \"flat:\" + p.c }\nfn main() -> unit {\n    let a: Pq[Pq[int32, bool], string] = Pq { a: Pq { a: 1, b: true }, b: \"x\" };\n    let b: Pq__Pq__int32__bool[string] = Pq__Pq__int32__bool { c: \"y\" };\n    let _ = string_println(fa(a));\n    let _ = string_println(fb(b));\n    ()\n}\n".to_string()),
        ];
        let expected = ["nested\ndouble\nnested/double\n", "nested\ndouble\nnone/zero\n", "nested:x\nflat:y\n"];
        for (i, (name, src)) in variants.iter().enumerate() {
            if !ctx.mine(44_000 + i as u64) {
                continue;
            }
            let label = format!("nested-instance-names/{}", name);
            ctx.case(&label.clone(), |c| {
                if let Some((out, term, stderr)) = crate::exec::run_source(c, "C19", &label, src, 1_000_000) {
                    if out == expected[i] && matches!(term, crate::goexec::Term::Ok) {
                        c.count("nested_instance_name_programs_ok", 1);
                        c.nontrivial(hash_str(src));
                    } else {
                        c.violation(format!("C19:nested-instance-names-share-a-go-name:{}", name), format!("{} prints {:?} ({:?} {}), expected {:?}", label, out, term, util::truncate(&stderr, 80), expected[i]), json!({"label": label, "source": src}));
                    }
                }
            });
        }
    }
    // methods (inherent and trait) named like the entry point and Go's special functions: only the top-level function
    // `main` is the program's entry (added after a seeded change that took any name whose last segment is `main`)
    if ctx.mine(45_000) {
        let src = "struct Sv { p: int32 }\nimpl Sv {\n    fn main(self: Sv) -> string { \"method-main:\" + int32_to_string(self.p) }\n    fn init(self: Sv) -> int32 { self.p + 1 }\n    fn main0(self: Sv) -> int32 { self.p + 2 }\n}\ntrait Rn {\n    fn main(Self) -> string;\n}\nimpl Rn for int32 {\n    fn main(self: int32) -> string { \"trait-main\" }\n}\nimpl Rn for Sv {\n    fn main(self: Sv) -> string { \"trait-main-sv\" }\n}\nfn main() -> unit {\n    let s = Sv { p: 7 };\n    let _ = string_println(s.main());\n    let _ = string_println(int32_to_string(Sv::init(s)) + \" \" + int32_to_string(s.main0()));\n    let _ = string_println(Rn::main(3) + \" \" + Rn::main(s));\n    ()\n}\n";
        let expected = "method-main:7\n8 9\ntrait-main trait-main-sv\n";
        ctx.case("methods-named-like-the-entry-point", |c| {
            if let Some((out, term, stderr)) = crate::exec::run_source(c, "C19", "methods-named-like-the-entry-point", src, 1_000_000) {
                if out == expected && matches!(term, crate::goexec::Term::Ok) {
                    c.count("entry_point_named_methods_ok", 1);
                } else {
                    c.violation("C19:method-named-like-the-entry-point".to_string(), format!("prints {:?} ({:?} {}), expected {:?}", out, term, util::truncate(&stderr, 80), expected), json!({"source": src}));
                }
            }
        });
    }
    // A. renamings
    let opts = DiffOpts { prop: "C19", vet_is_violation: false, budget: 400_000, print: PrintOpts::default() };
    let n = tier.pickn(240u64, 6_400u64) / ctx.nshards as u64 + 1;
    for j in 0..n {
        let mut rng = Rng::keyed(seed, "c19-ren", ctx.shard as u64, j);
        let mut f = Features::base();
        f.n_fns = 4;
        f.ident_mode = 0;
        f.shadowing = false;
        let (prog, _) = generate(&mut rng, f);
        let ren = adversarial_renaming(&prog, &mut rng);
        let renamed = ren.program(&prog);
        let label = format!("renamed/{}/{}", ctx.shard, j);
        ctx.case(&label.clone(), |c| {
            // sanity of the renamer itself: both programs mean the same
            let e1 = crate::gl::eval::run_program(&prog, 400_000);
            let e2 = crate::gl::eval::run_program(&renamed, 400_000);
            if e1.stdout != e2.stdout || format!("{:?}", e1.stop) != format!("{:?}", e2.stop) {
                c.inconclusive("renamer changed the reference meaning (harness limitation)");
                return;
            }
            // validity of the Go text first, classified by the identifier involved
            let rsrc = print_program(&renamed, PrintOpts::default());
            let mut whole_ok = false;
            if let Ok(Ok(go)) = crate::runner::guard(|| crate::capi::compile_single(&rsrc).map(|c| crate::capi::go_text(&c))) {
                whole_ok = true;
                if let crate::goexec::Vet::Reject(errs) = crate::goexec::vet(&crate::goexec::parse(&go)) {
                    let user: Vec<String> = ren.types.values().chain(ren.variants.values()).chain(ren.fields.values()).chain(ren.methods.values()).chain(ren.fns.values()).chain(ren.locals.values()).cloned().collect();
                    report_vet_errors(c, &errs, &go, &user, &label, &rsrc, json!({"renaming": format!("{:?}", ren)}));
                    return;
                }
            }
            // the same program through build + link (the linker restarts the name counters): the linked text must be
            // valid Go as well and print the same (added after a seeded change that gave two kinds of temporaries one
            // prefix, which collides only across the build / link boundary)
            if j % 2 == 0 && whole_ok {
                match crate::runner::guard(|| crate::capi::link_single(&rsrc)) {
                    Ok(Ok(lgo)) => {
                        c.count("linked_programs_vetted", 1);
                        let lp = crate::goexec::parse(&lgo);
                        match crate::goexec::vet(&lp) {
                            crate::goexec::Vet::Reject(errs) => {
                                let user: Vec<String> = ren.types.values().chain(ren.variants.values()).chain(ren.fields.values()).chain(ren.methods.values()).chain(ren.fns.values()).chain(ren.locals.values()).cloned().collect();
                                report_vet_errors(c, &errs, &lgo, &user, &label, &rsrc, json!({"path": "build + link", "renaming": format!("{:?}", ren)}));
                                return;
                            }
                            crate::goexec::Vet::Accept => {
                                let r = crate::goexec::run(&lp, 400_000, gomini::Sched::Deterministic);
                                if matches!(r.term, crate::goexec::Term::Ok) && e2.stop.is_none() && r.stdout != e2.stdout {
                                    c.violation("C19:linked-program-prints-other-output".to_string(), "the program linked from its core prints something else than it means".to_string(), json!({"label": label, "source": rsrc, "linked_stdout": util::truncate(&r.stdout, 2000), "expected": util::truncate(&e2.stdout, 2000)}));
                                    return;
                                }
                            }
                            _ => {}
                        }
                    }
                    Ok(Err(e)) => {
                        // the whole-program path accepted this program: acceptance parity is C14's business; kept for triage
                        c.count("linked_programs_rejected_though_whole_accepts", 1);
                        diff::stash("C19", &format!("link-rejects:{}", diff::msg_class(&e)), &label, &rsrc);
                    }
                    Err(_) => c.count("linked_programs_crashed", 1),
                }
            }
            match diff::run_diff(c, &renamed, &label, &opts) {
                Outcome::Agree { .. } => {
                    c.count("renamed_programs_agree", 1);
                    c.count("identifiers_renamed", (ren.types.len() + ren.variants.len() + ren.fields.len() + ren.methods.len() + ren.fns.len() + ren.locals.len()) as u64);
                    c.nontrivial(hash_str(&format!("{:?}", ren)));
                }
                Outcome::Rejected(st, msg) => {
                    // the original must be acceptable for the rejection to count
                    let orig = print_program(&prog, PrintOpts::default());
                    let orig_ok = matches!(crate::runner::guard(|| crate::capi::compile_single(&orig).map(|_| ())), Ok(Ok(())));
                    if orig_ok {
                        c.violation(
                            if msg.starts_with("Constructor ") && msg.contains("::") && msg.contains("not found") {
                                // `Tr::m(x)` where m is also the name of some enum variant is read as a constructor path
                                "C19:renamed-program-rejected:trait-method-named-like-a-variant".to_string()
                            } else {
                                format!("C19:renamed-program-rejected:{}", diff::msg_class(&msg))
                            },
                            format!("a consistent renaming of an accepted program is rejected ({}): {}", st, util::truncate(&msg, 200)),
                            json!({"label": label, "renaming": format!("{:?}", ren), "source": print_program(&renamed, PrintOpts::default())}),
                        );
                    }
                }
                Outcome::Inconclusive(r) => c.inconclusive(diff::msg_class(&r)),
                Outcome::Violation => {}
            }
            if j == 0 {
                c.sample(json!({"workload": "adversarial renaming", "renaming": util::truncate(&format!("{:?}", ren), 600)}));
            }
        });
    }
    // B. name sets over the exhaustive pools
    let upper = pool(&['A', 'B'], &['A', 'B', '_', '1']);
    let lower = pool(&['a', 'b'], &['a', 'b', '_', '1']);
    if ctx.shard == 0 {
        ctx.add_stat("name_pool_upper", upper.len() as u64);
        ctx.add_stat("name_pool_lower", lower.len() as u64);
    }
    // a fixed schedule of name sets (same for all shards; each shard runs its share): draw until all pairs co-occurred
    let mut sched_rng = Rng::keyed(seed, "c19-sets", 0, 0);
    let mut covered = std::collections::BTreeSet::new();
    let total_pairs = upper.len() * (upper.len() - 1) / 2;
    let mut sets: Vec<NameSet> = Vec::new();
    let cap = tier.pick(400usize, 12_000usize);
    while (covered.len() < total_pairs || sets.len() < tier.pick(200, 12_000)) && sets.len() < cap {
        let (types, traits) = if sched_rng.chance(1, 3) {
            // names whose `_`-joins coincide: traits {X, X_Y}, types {Y_Z, Z, ..}
            let atoms = pick_distinct(&mut sched_rng, &upper, 3, &[]);
            let (x, y, z) = (atoms[0].clone(), atoms[1].clone(), atoms[2].clone());
            let mut types = vec![format!("{}_{}", y, z), z.clone()];
            // (Y, Z_Z) and (Y_Z, Z) spell the same helper name
            types.push(y.clone());
            types.push(format!("{}_{}", z, z));
            (types, vec![x.clone(), format!("{}_{}", x, y)])
        } else {
            let types = pick_distinct(&mut sched_rng, &upper, 4, &[]);
            let traits = pick_distinct(&mut sched_rng, &upper, 2, &types);
            (types, traits)
        };
        let mut avoid = types.clone();
        avoid.extend(traits.clone());
        // (a variant named like a struct is a goml-level clash: the struct literal is read as the constructor)
        let variants = pick_distinct(&mut sched_rng, &upper, 3, &avoid);
        let methods = pick_distinct(&mut sched_rng, &lower, 2, &[]);
        let fns = pick_distinct(&mut sched_rng, &lower, 3, &["a".to_string()]);
        let mut all_names = types.clone();
        all_names.extend(traits.clone());
        all_names.sort();
        all_names.dedup();
        if all_names.len() != types.len() + traits.len() {
            continue;
        }
        for a in 0..4 {
            for b in (a + 1)..4 {
                if !upper.contains(&types[a]) || !upper.contains(&types[b]) {
                    continue;
                }
                let (x, y) = if types[a] < types[b] { (types[a].clone(), types[b].clone()) } else { (types[b].clone(), types[a].clone()) };
                covered.insert((x, y));
            }
        }
        let unit_param_fn_types = sched_rng.chance(1, 4);
        sets.push(NameSet { types, traits, methods, fns, variants, unit_param_fn_types });
    }
    if ctx.shard == 0 {
        ctx.add_stat("type_name_pairs_covered", covered.len() as u64);
        ctx.add_stat("type_name_pairs_total", total_pairs as u64);
    }
    for (k, ns) in sets.iter().enumerate() {
        if !ctx.mine(k as u64) {
            continue;
        }
        let mut rng = Rng::keyed(seed, "c19-set", k as u64, 0);
        let label = format!("name-set/{}", k);
        ctx.case(&label.clone(), |c| {
            c.count("programs", 1);
            if run_name_set(c, ns, &mut rng, &label) {
                c.count("name_set_programs_agree", 1);
                c.nontrivial(hash_str(&format!("{:?}{:?}{:?}{:?}{:?}", ns.types, ns.traits, ns.methods, ns.fns, ns.variants)));
            }
            if k < 2 {
                c.sample(json!({"workload": "name set", "types": ns.types, "traits": ns.traits, "methods": ns.methods, "fns": ns.fns, "variants": ns.variants}));
            }
        });
    }
    crate::capi::cleanup_scratch();
}
