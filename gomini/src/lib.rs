//! gomini: lexer, parser, static checker and interpreter for the subset of Go
//! emitted by the goml compiler. See README.md.

pub mod ast;
pub mod consts;
pub mod fmtgo;
pub mod interp;
pub mod calib;
pub mod lex;
pub mod num;
pub mod types;
pub mod vet;

/// `gomini::parse::parse_file` and the `ParseError` type.
pub mod parse;

pub use interp::{Event, Exit, PanicClass, RunConfig, RunResult, Sched};
pub use parse::ParseError;
pub use vet::{VetError, VetReport};
pub use calib::{calibrate, CalibrationReport};

const BIG_STACK: usize = 256 << 20;

/// Runs `f` on a thread with a large stack (the recursive passes are depth
/// limited, this is a second line of defence); falls back to the calling
/// thread if the thread cannot be created.
fn with_big_stack<T: Send, F: FnOnce() -> T + Send>(f: F) -> T {
    let mut slot: Option<F> = Some(f);
    let res = std::thread::scope(|s| {
        let fref = &mut slot;
        let h = std::thread::Builder::new().stack_size(BIG_STACK).spawn_scoped(s, move || {
            let f = fref.take().unwrap();
            f()
        });
        match h {
            Ok(h) => h.join().ok(),
            Err(_) => None,
        }
    });
    match res {
        Some(v) => v,
        None => match slot.take() {
            Some(f) => f(),
            None => panic!("gomini worker thread panicked"),
        },
    }
}

/// Parses Go source text.
pub fn parse(src: &str) -> Result<ast::File, ParseError> {
    with_big_stack(|| parse::parse_file(src))
}

/// Statically checks a parsed file.
pub fn vet(file: &ast::File) -> VetReport {
    with_big_stack(|| vet::check(file).0)
}

/// Parses and checks source text; parse errors are mapped to the kinds
/// `syntax`, `keyword-as-ident`, or to `unsupported`.
pub fn vet_source(src: &str) -> VetReport {
    match parse(src) {
        Ok(f) => vet(&f),
        Err(e) => {
            let mut r = VetReport::default();
            match &e {
                ParseError::Syntax { line, msg, .. } => r.errors.push(VetError { kind: e.kind(), line: *line, msg: msg.clone() }),
                ParseError::Unsupported { line, what } => r.unsupported.push(format!("line {}: {}", line, what)),
            }
            r
        }
    }
}

/// Type-checks, compiles and runs the program.
pub fn run(file: &ast::File, cfg: &RunConfig) -> RunResult {
    with_big_stack(|| interp::run_inline(file, cfg))
}

/// Enumeration of schedules by replay of `Sched::Script` prefixes built from
/// the recorded `sched_choices` (a depth-first style exploration of the
/// choice tree, ordered so that schedules with the fewest deviations from
/// the default choices are run first). At most `max_runs` runs.
pub fn enumerate_schedules(file: &ast::File, base: &RunConfig, max_runs: usize) -> Vec<RunResult> {
    enumerate_schedules_bounded(file, base, max_runs, usize::MAX)
}

/// Like `enumerate_schedules`, but only the first `max_depth` choice points
/// of a run are branched on.
pub fn enumerate_schedules_bounded(file: &ast::File, base: &RunConfig, max_runs: usize, max_depth: usize) -> Vec<RunResult> {
    with_big_stack(|| interp::enumerate_inline(file, base, max_runs, max_depth))
}
