//! Execute / statically check emitted Go text with gomini (the substitute for the absent Go toolchain).
use gomini::{Event, Exit, PanicClass, RunConfig, RunResult, Sched};

#[derive(Debug, Clone)]
pub enum Vet {
    Accept,
    /// (kind, line, message)
    Reject(Vec<(String, u32, String)>),
    Unsupported(String),
}

pub struct GoProgram {
    pub file: Option<gomini::ast::File>,
    pub parse_error: Option<(String, u32, String)>,
    pub parse_unsupported: Option<String>,
}

pub fn parse(go: &str) -> GoProgram {
    match gomini::parse::parse_file(go) {
        Ok(f) => GoProgram { file: Some(f), parse_error: None, parse_unsupported: None },
        Err(e) => match &e {
            gomini::ParseError::Syntax { line, msg, .. } => GoProgram { file: None, parse_error: Some((e.kind().to_string(), *line, msg.clone())), parse_unsupported: None },
            gomini::ParseError::Unsupported { line, what } => GoProgram { file: None, parse_error: None, parse_unsupported: Some(format!("line {}: {}", line, what)) },
        },
    }
}

pub fn vet(p: &GoProgram) -> Vet {
    if let Some((k, l, m)) = &p.parse_error {
        return Vet::Reject(vec![(k.clone(), *l, m.clone())]);
    }
    if let Some(u) = &p.parse_unsupported {
        return Vet::Unsupported(u.clone());
    }
    let f = p.file.as_ref().unwrap();
    let (rep, _info) = gomini::vet::check(f);
    if !rep.errors.is_empty() {
        return Vet::Reject(rep.errors.iter().map(|e| (e.kind.to_string(), e.line, e.msg.clone())).collect());
    }
    if let Some(u) = rep.unsupported.first() {
        return Vet::Unsupported(u.clone());
    }
    Vet::Accept
}

#[derive(Debug, Clone, PartialEq)]
pub enum Term {
    Ok,
    /// runtime failure class
    Fail(String),
    Budget,
    Unsupported(String),
}

pub struct Run {
    pub stdout: String,
    pub stdout_bytes: Vec<u8>,
    pub stderr: String,
    pub term: Term,
    pub events: Vec<Event>,
    pub steps: u64,
    pub slice_forks: usize,
    pub grow_uncertain: usize,
    pub sched_choices: Vec<(u32, u32)>,
}

pub fn classify(exit: &Exit, stderr: &str) -> Term {
    match exit {
        Exit::Ok => Term::Ok,
        Exit::Panic { class, msg, .. } => Term::Fail(match class {
            PanicClass::DivideByZero => "divide-by-zero".to_string(),
            PanicClass::IndexOutOfRange => "index-out-of-range".to_string(),
            PanicClass::NilDeref => "nil-deref".to_string(),
            PanicClass::TypeAssertion => "type-assertion".to_string(),
            PanicClass::Explicit => {
                let _ = (msg, stderr);
                "explicit-panic".to_string()
            }
            PanicClass::UncomparableInterface => "uncomparable".to_string(),
            PanicClass::Other => "other-panic".to_string(),
        }),
        Exit::Deadlock => Term::Fail("deadlock".into()),
        Exit::Budget => Term::Budget,
        Exit::Unsupported(u) => Term::Unsupported(u.clone()),
    }
}

pub fn convert(r: RunResult) -> Run {
    let term = classify(&r.exit, &r.stderr);
    let slice_forks = r.events.iter().filter(|e| matches!(e, Event::SliceFork { .. })).count();
    let grow_uncertain = r.events.iter().filter(|e| matches!(e, Event::GrowUncertain { .. })).count();
    Run {
        stdout: String::from_utf8_lossy(&r.stdout).into_owned(),
        stdout_bytes: r.stdout,
        stderr: r.stderr,
        term,
        events: r.events,
        steps: r.steps,
        slice_forks,
        grow_uncertain,
        sched_choices: r.sched_choices,
    }
}

pub fn run(p: &GoProgram, step_budget: u64, sched: Sched) -> Run {
    match &p.file {
        None => Run {
            stdout: String::new(),
            stdout_bytes: Vec::new(),
            stderr: String::new(),
            term: Term::Unsupported(p.parse_unsupported.clone().unwrap_or_else(|| format!("does not parse: {:?}", p.parse_error))),
            events: Vec::new(),
            steps: 0,
            slice_forks: 0,
            grow_uncertain: 0,
            sched_choices: Vec::new(),
        },
        Some(f) => {
            let cfg = RunConfig { step_budget, sched, max_output: 4 << 20, trace_calls: false };
            convert(gomini::interp::run_inline(f, &cfg))
        }
    }
}
