//! Project / artifact driver: observe everything the compiler produces for a project on disk,
//! through the whole-program entry point and through check/build/link with artifacts
//! round-tripped through the JSON files the CLI writes.

use crate::capi;
use compiler::pipeline::{packages, pipeline, separate};
use std::collections::BTreeMap;
use std::path::{Path, PathBuf};

pub type Obs = BTreeMap<String, String>;

fn norm_root(s: &str, root: &Path) -> String {
    s.replace(&root.display().to_string(), "$ROOT")
}

pub fn diag_lines(e: &pipeline::CompilationError, root: &Path) -> String {
    let mut s = format!("stage={}\n", capi::err_stage(e));
    for d in e.diagnostics().iter() {
        s.push_str(&format!(
            "{:?}|{}|{:?}|{}\n",
            d.severity(),
            d.stage().as_str(),
            d.range(),
            norm_root(d.message(), root)
        ));
    }
    s
}

/// Whole-program compile of `<root>/main.gom`: Go text, the 8 stage dumps, or the ordered diagnostics.
pub fn observe_whole(root: &Path) -> Obs {
    let mut o = Obs::new();
    let main = root.join("main.gom");
    let src = match std::fs::read_to_string(&main) {
        Ok(s) => s,
        Err(e) => {
            o.insert("whole/io".into(), e.to_string());
            return o;
        }
    };
    match pipeline::compile(&main, &src) {
        Ok(c) => {
            o.insert("whole/result".into(), "ok".into());
            for (label, text) in capi::dumps(&c) {
                o.insert(format!("whole/dump/{}", label), norm_root(&text, root));
            }
        }
        Err(e) => {
            o.insert("whole/result".into(), "err".into());
            o.insert("whole/diagnostics".into(), diag_lines(&e, root));
        }
    }
    o
}

pub fn gom_files(dir: &Path) -> Vec<PathBuf> {
    let mut v: Vec<PathBuf> = std::fs::read_dir(dir)
        .map(|rd| {
            rd.filter_map(|e| e.ok())
                .map(|e| e.path())
                .filter(|p| p.extension().is_some_and(|x| x == "gom"))
                .collect()
        })
        .unwrap_or_default();
    v.sort();
    v
}

/// Package names in a dependency-respecting order plus their directories, as the repository's own
/// separate-compilation test derives them.
pub fn discover(root: &Path) -> Result<(Vec<String>, BTreeMap<String, PathBuf>, BTreeMap<String, Vec<String>>), String> {
    let main = root.join("main.gom");
    let src = std::fs::read_to_string(&main).map_err(|e| e.to_string())?;
    let ast = pipeline::parse_ast_file(&main, &src).map_err(|e| format!("{:?}", capi::err_messages(&e)))?;
    let graph = packages::discover_packages(root, Some(&main), Some(ast)).map_err(|e| format!("{:?}", capi::err_messages(&e)))?;
    let order = packages::topo_sort_packages(&graph).map_err(|e| format!("{:?}", capi::err_messages(&e)))?;
    let dirs: BTreeMap<String, PathBuf> = graph.package_dirs.iter().map(|(k, v)| (k.clone(), v.clone())).collect();
    let mut deps = BTreeMap::new();
    for (name, unit) in graph.packages.iter() {
        let mut d: Vec<String> = unit.imports.iter().cloned().collect();
        d.sort();
        deps.insert(name.clone(), d);
    }
    Ok((order, dirs, deps))
}

pub struct SepResult {
    pub obs: Obs,
    pub linked_go: Option<String>,
    pub accepted: bool,
}

/// check + build every package in `order` (artifacts written to / re-read from `art_dir` as the CLI
/// does), then link. Records interface files, core files, hashes, and the linked Go text.
pub fn observe_separate(root: &Path, order: &[String], dirs: &BTreeMap<String, PathBuf>, art_dir: &Path) -> SepResult {
    let mut o = Obs::new();
    let _ = std::fs::create_dir_all(art_dir);
    let mut accepted = true;
    for pkg in order {
        let Some(dir) = dirs.get(pkg) else {
            o.insert(format!("sep/{}/missing-dir", pkg), "1".into());
            accepted = false;
            continue;
        };
        let inputs = gom_files(dir);
        // check
        match separate::check_package(separate::PackageInputs {
            package: pkg.clone(),
            input_files: inputs.clone(),
            interface_paths: vec![art_dir.to_path_buf()],
        }) {
            Ok(unit) => {
                let json = serde_json::to_string_pretty(&unit).unwrap_or_default();
                o.insert(format!("sep/{}/check.interface", pkg), norm_root(&json, root));
                o.insert(format!("sep/{}/check.hash", pkg), unit.interface_hash.clone());
            }
            Err(e) => {
                o.insert(format!("sep/{}/check.err", pkg), diag_lines(&e, root));
            }
        }
        // build
        match separate::build_package(separate::PackageInputs {
            package: pkg.clone(),
            input_files: inputs,
            interface_paths: vec![art_dir.to_path_buf()],
        }) {
            Ok(unit) => {
                let ijson = serde_json::to_string_pretty(&unit.interface).unwrap_or_default();
                let cjson = serde_json::to_string_pretty(&unit).unwrap_or_default();
                let _ = std::fs::write(art_dir.join(format!("{}.interface", pkg)), &ijson);
                let _ = std::fs::write(art_dir.join(format!("{}.core", pkg)), &cjson);
                o.insert(format!("sep/{}/build.interface", pkg), norm_root(&ijson, root));
                o.insert(format!("sep/{}/build.core", pkg), norm_root(&cjson, root));
                o.insert(format!("sep/{}/build.hash", pkg), unit.interface.interface_hash.clone());
            }
            Err(e) => {
                accepted = false;
                o.insert(format!("sep/{}/build.err", pkg), diag_lines(&e, root));
            }
        }
    }
    let mut linked_go = None;
    if accepted {
        let mut cores = Vec::new();
        let mut read_ok = true;
        for pkg in order {
            match separate::read_core(&art_dir.join(format!("{}.core", pkg))) {
                Ok(u) => cores.push(u),
                Err(e) => {
                    read_ok = false;
                    o.insert(format!("sep/{}/read_core.err", pkg), diag_lines(&e, root));
                }
            }
        }
        if read_ok {
            match separate::link_cores(cores) {
                Ok(l) => {
                    let go = l.go.to_pretty(&l.goenv, 120);
                    o.insert("sep/link.go".into(), go.clone());
                    linked_go = Some(go);
                }
                Err(e) => {
                    accepted = false;
                    o.insert("sep/link.err".into(), diag_lines(&e, root));
                }
            }
        } else {
            accepted = false;
        }
    }
    SepResult { obs: o, linked_go, accepted }
}

pub fn digest(o: &Obs) -> BTreeMap<String, String> {
    o.iter().map(|(k, v)| (k.clone(), crate::util::hex64(crate::util::hash_str(v)))).collect()
}

/// A probe whose iteration order depends on the per-thread/process hash seed.
pub fn hash_order_probe() -> String {
    let mut s = std::collections::HashSet::new();
    for n in ["Alpha", "Beta", "Gamma", "Delta", "Eps", "Zeta", "Main", "Builtin"] {
        s.insert(n.to_string());
    }
    s.into_iter().collect::<Vec<_>>().join(",")
}

/// `goml-verif observe <root> <artdir>`: print a JSON digest of everything observable (used to observe from a fresh process).
pub fn observe_main(root: &Path, art: &Path) -> i32 {
    let mut all = observe_whole(root);
    if let Ok((order, dirs, _)) = discover(root) {
        let sep = observe_separate(root, &order, &dirs, art);
        all.extend(sep.obs);
    }
    let mut d = digest(&all);
    d.insert("probe/hash_order".into(), hash_order_probe());
    println!("{}", serde_json::to_string(&d).unwrap_or_default());
    0
}
