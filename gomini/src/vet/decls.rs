//! Declarations: type resolution, function signatures, methods, globals,
//! function bodies.

use super::*;

impl<'a> Checker<'a> {
    pub(crate) fn complete_named_types(&mut self) {
        let mut completing: HashSet<TypeId> = HashSet::new();
        while let Some((ty, decl)) = self.pending_named.pop() {
            self.complete_named(ty, decl, &mut completing);
        }
    }

    fn complete_named(&mut self, ty: TypeId, decl: usize, completing: &mut HashSet<TypeId>) {
        let td = match &self.file.decls[decl] {
            Decl::Type(t) => t,
            _ => return,
        };
        if !completing.insert(ty) {
            return;
        }
        let saved_scopes = std::mem::take(&mut self.scopes);
        let body = self.resolve_type(&td.ty);
        self.scopes = saved_scopes;
        // `type A B` with B a named type: underlying(A) = underlying(B)
        let mut under = body;
        let mut hops = 0;
        while let Ty::Named(n) = self.info.types.get(under).clone() {
            let u = self.info.types.named[n as usize].underlying;
            if u == T_INVALID {
                // B still pending?
                if let Some(pos) = self.pending_named.iter().position(|(t, _)| *t == under) {
                    let (t2, d2) = self.pending_named.remove(pos);
                    self.complete_named(t2, d2, completing);
                    hops += 1;
                    if hops > 1000 {
                        break;
                    }
                    continue;
                }
                if completing.contains(&under) {
                    self.err("invalid-recursive-type", td.line, format!("invalid recursive type {}", td.name.name));
                }
                under = T_INVALID;
                break;
            }
            under = u;
        }
        if let Ty::Named(n) = self.info.types.get(ty).clone() {
            self.info.types.named[n as usize].underlying = under;
        }
        completing.remove(&ty);
    }

    pub(crate) fn check_recursive_types(&mut self) {
        // a named type may not contain itself by value
        let n = self.info.types.named.len();
        for i in 0..n {
            if self.info.types.named[i].pkg != "main" {
                continue;
            }
            let start = self.info.types.named[i].underlying;
            let mut stack = vec![start];
            let mut seen: HashSet<TypeId> = HashSet::new();
            let mut bad = false;
            while let Some(t) = stack.pop() {
                if !seen.insert(t) {
                    continue;
                }
                match self.info.types.get(t).clone() {
                    Ty::Named(m) => {
                        if m as usize == i {
                            bad = true;
                            break;
                        }
                        stack.push(self.info.types.named[m as usize].underlying);
                    }
                    Ty::Array(_, e) => stack.push(e),
                    Ty::Struct(fs) => {
                        for (_, ft) in fs {
                            stack.push(ft);
                        }
                    }
                    _ => {}
                }
            }
            if bad {
                let name = self.info.types.named[i].name.clone();
                let line = self.type_decl_line(&name);
                self.err("invalid-recursive-type", line, format!("invalid recursive type {}", name));
                // break the cycle so later passes terminate
                self.info.types.named[i].underlying = T_INVALID;
            }
        }
    }

    fn type_decl_line(&self, name: &str) -> u32 {
        for d in &self.file.decls {
            if let Decl::Type(t) = d {
                if t.name.name == name {
                    return t.line;
                }
            }
        }
        0
    }

    pub(crate) fn resolve_type(&mut self, te: &TypeExpr) -> TypeId {
        let t = self.resolve_type_inner(te);
        self.info.type_exprs.insert(te.id, t);
        t
    }

    fn resolve_type_inner(&mut self, te: &TypeExpr) -> TypeId {
        match &te.kind {
            TypeExprKind::Name { pkg: None, name } => {
                if name == "_" {
                    self.err("not-a-type", te.line, "cannot use _ as value or type");
                    return T_INVALID;
                }
                match self.lookup(name) {
                    None => {
                        self.err("undefined", te.line, format!("undefined: {}", name));
                        T_INVALID
                    }
                    Some(o) => match self.objs[o].clone() {
                        Obj::TypeName { ty } => ty,
                        Obj::LazyType { .. } => self.resolve_lazy(o),
                        Obj::Package { .. } => {
                            self.err("not-a-type", te.line, format!("use of package {} without selector", name));
                            T_INVALID
                        }
                        _ => {
                            self.err("not-a-type", te.line, format!("{} is not a type", name));
                            T_INVALID
                        }
                    },
                }
            }
            TypeExprKind::Name { pkg: Some(p), name } => self.resolve_qualified_type(p, name, te.line),
            TypeExprKind::Pointer(e) => {
                let et = self.resolve_type(e);
                if et == T_INVALID {
                    return T_INVALID;
                }
                self.info.types.mk(Ty::Pointer(et))
            }
            TypeExprKind::Slice(e) => {
                let et = self.resolve_type(e);
                if et == T_INVALID {
                    return T_INVALID;
                }
                self.info.types.mk(Ty::Slice(et))
            }
            TypeExprKind::Array { len, elem } => {
                let et = self.resolve_type(elem);
                let n = self.array_len(len);
                match (n, et) {
                    (Some(n), et) if et != T_INVALID => {
                        // size sanity: gc rejects types larger than 2^50 bytes
                        let at = self.info.types.mk(Ty::Array(n, et));
                        match self.info.types.size_align(et) {
                            Some((es, _)) => {
                                let total = (es as u128) * (n as u128);
                                if total > (1u128 << 50) {
                                    self.err("invalid-array-len", te.line, format!("type [{}]{} larger than address space", n, self.info.types.type_string(et)));
                                    return T_INVALID;
                                }
                                if total > (64u128 << 20) {
                                    self.unsup(te.line, "very large array type");
                                }
                            }
                            None => {
                                // element size unknown (recursive or opaque); checked elsewhere
                            }
                        }
                        at
                    }
                    _ => T_INVALID,
                }
            }
            TypeExprKind::Struct { fields } => {
                let mut fs: Vec<(String, TypeId)> = Vec::new();
                let mut seen: HashSet<String> = HashSet::new();
                let mut bad = false;
                for f in fields {
                    if f.embedded {
                        // either a missing field type or a real embedded field
                        let is_type = match &f.ty.kind {
                            TypeExprKind::Name { pkg: None, name } => match self.lookup(name) {
                                Some(o) => matches!(self.objs[o], Obj::TypeName { .. } | Obj::LazyType { .. }),
                                None => false,
                            },
                            _ => true,
                        };
                        if is_type {
                            self.unsup(f.name.line, "embedded struct field");
                        } else {
                            self.err("missing-field-type", f.name.line, format!("undefined: {} (field without type / embedded non-type)", f.name.name));
                        }
                        bad = true;
                        continue;
                    }
                    let ft = self.resolve_type(&f.ty);
                    if f.name.name != "_" && !seen.insert(f.name.name.clone()) {
                        self.err("dup-field", f.name.line, format!("{} redeclared (duplicate field)", f.name.name));
                        bad = true;
                    }
                    if ft == T_INVALID {
                        bad = true;
                    }
                    fs.push((f.name.name.clone(), ft));
                }
                if bad {
                    return T_INVALID;
                }
                self.info.types.mk(Ty::Struct(fs))
            }
            TypeExprKind::Interface { methods } => {
                let mut ms: Vec<(String, TypeId)> = Vec::new();
                let mut seen: HashSet<String> = HashSet::new();
                let mut bad = false;
                for m in methods {
                    let sig = self.resolve_sig(&m.params, &m.results, te.line);
                    if m.name.name == "_" {
                        self.err("dup-method", m.name.line, "methods must have a unique non-blank name");
                        bad = true;
                        continue;
                    }
                    if !seen.insert(m.name.name.clone()) {
                        self.err("dup-method", m.name.line, format!("duplicate method {}", m.name.name));
                        bad = true;
                    }
                    if sig == T_INVALID {
                        bad = true;
                    }
                    ms.push((m.name.name.clone(), sig));
                }
                if bad {
                    return T_INVALID;
                }
                ms.sort_by(|a, b| a.0.cmp(&b.0));
                self.info.types.mk(Ty::Interface(ms))
            }
            TypeExprKind::Func { params, results } => self.resolve_sig(params, results, te.line),
        }
    }

    pub(crate) fn resolve_qualified_type(&mut self, p: &str, name: &str, line: u32) -> TypeId {
        match self.lookup(p) {
            None => {
                let kind = if STD_PKGS.contains(&p) { "missing-import" } else { "undefined" };
                self.err(kind, line, format!("undefined: {}", p));
                T_INVALID
            }
            Some(o) => match self.objs[o].clone() {
                Obj::Package { name: path, import_idx } => {
                    self.import_used[import_idx] = true;
                    if path == "time" && name == "Time" {
                        self.t_time
                    } else if path == "time" && name == "Duration" {
                        self.t_duration
                    } else if name.chars().next().map_or(false, |c| c.is_ascii_lowercase() || c == '_') {
                        self.err("undefined", line, format!("name {} not exported by package {}", name, path));
                        T_INVALID
                    } else {
                        self.unsup(line, format!("type {}.{}", path, name));
                        T_INVALID
                    }
                }
                _ => {
                    self.err("not-a-type", line, format!("{}.{} is not a type", p, name));
                    T_INVALID
                }
            },
        }
    }

    fn resolve_sig(&mut self, params: &[Param], results: &[Param], line: u32) -> TypeId {
        let mut ps = Vec::new();
        let mut bad = false;
        let mut seen: HashSet<&str> = HashSet::new();
        for p in params.iter().chain(results.iter()) {
            if let Some(n) = &p.name {
                if n.name != "_" && !seen.insert(n.name.as_str()) {
                    self.err("redeclared", n.line, format!("{} redeclared in this block (duplicate parameter)", n.name));
                }
            }
        }
        for p in params {
            let t = self.resolve_type(&p.ty);
            if t == T_INVALID {
                bad = true;
            }
            ps.push(t);
        }
        let mut rs = Vec::new();
        for r in results {
            let t = self.resolve_type(&r.ty);
            if t == T_INVALID {
                bad = true;
            }
            if r.name.is_some() {
                self.unsup(line, "named result parameters");
            }
            rs.push(t);
        }
        if bad {
            return T_INVALID;
        }
        self.info.types.mk(Ty::Func(ps, rs))
    }

    fn array_len(&mut self, e: &Expr) -> Option<u64> {
        let op = self.check_expr(e);
        if op.is_invalid() {
            return None;
        }
        if op.mode != Mode::Const {
            self.err("invalid-array-len", e.line, "array length must be a constant integer");
            return None;
        }
        let tt = &self.info.types;
        if !(tt.is_untyped(op.ty) && tt.is_numeric(op.ty)) && !tt.is_integer(op.ty) {
            self.err("invalid-array-len", e.line, "array length must be integer");
            return None;
        }
        let v = op.val.clone().unwrap();
        let i = match to_int(&v) {
            Ok(i) => i,
            Err(_) => {
                self.err("invalid-array-len", e.line, format!("array length {} must be integer", v.display()));
                return None;
            }
        };
        match i.to_i64() {
            Some(n) if n >= 0 => {
                self.info.expr_ty[e.id as usize] = T_INT;
                self.info.consts.insert(e.id, ConstVal::Int(i));
                Some(n as u64)
            }
            _ => {
                self.err("invalid-array-len", e.line, format!("invalid array length {}", i.to_decimal()));
                None
            }
        }
    }

    // ---------------------------------------------------------- functions

    pub(crate) fn declare_func_sig(&mut self, di: usize, f: &FuncDecl) {
        let idx = self.func_of_decl[&di];
        let sig = self.resolve_sig(&f.params, &f.results, f.line);
        if f.results.len() > 1 {
            self.unsup(f.line, "function with multiple results");
        }
        let mut nparams = f.params.len() as u32;
        let mut recv_ty = None;
        if let Some(r) = &f.recv {
            nparams += 1;
            if let TypeExprKind::Pointer(_) = &r.ty.kind {
                let _ = self.resolve_type(&r.ty);
                self.unsup(f.line, "method with pointer receiver");
            } else {
                let rt = self.resolve_type(&r.ty);
                if rt != T_INVALID {
                    match self.info.types.get(rt).clone() {
                        Ty::Named(n) if self.info.types.named[n as usize].pkg == "main" => {
                            let under = self.info.types.named[n as usize].underlying;
                            if matches!(self.info.types.get(under), Ty::Pointer(_) | Ty::Interface(_)) {
                                self.err("bad-receiver", f.line, format!("invalid receiver type {} (pointer or interface type)", self.info.types.type_string(rt)));
                            } else if f.name.name != "_" {
                                let tname = self.info.types.named[n as usize].name.clone();
                                let dup = self.info.types.named[n as usize].methods.iter().any(|m| m.name == f.name.name);
                                let field_clash = match self.info.types.get(under) {
                                    Ty::Struct(fs) => fs.iter().any(|(fname, _)| *fname == f.name.name),
                                    _ => false,
                                };
                                if dup {
                                    self.err("dup-method", f.line, format!("method {}.{} already declared", tname, f.name.name));
                                } else if field_clash {
                                    self.err("dup-method", f.line, format!("field and method with the same name {}", f.name.name));
                                } else {
                                    self.info.types.named[n as usize].methods.push(Method { name: f.name.name.clone(), sig, func: Some(idx), line: f.line });
                                }
                                self.info.funcs[idx as usize].qual_name = format!("main.{}.{}", tname, f.name.name);
                                recv_ty = Some(rt);
                            } else {
                                recv_ty = Some(rt);
                            }
                        }
                        Ty::Named(_) => {
                            self.err("bad-receiver", f.line, "cannot define new methods on non-local type");
                        }
                        _ => {
                            self.err("bad-receiver", f.line, format!("invalid receiver type {}", self.info.types.type_string(rt)));
                        }
                    }
                }
            }
        } else if f.name.name == "main" || f.name.name == "init" {
            if !f.params.is_empty() || !f.results.is_empty() {
                self.err("bad-main", f.line, format!("func {} must have no arguments and no return values", f.name.name));
            }
        }
        if f.body.is_none() {
            self.err("missing-body", f.line, format!("missing function body for {}", f.name.name));
        }
        let fi = &mut self.info.funcs[idx as usize];
        fi.sig = sig;
        fi.recv = recv_ty;
        fi.nparams = nparams;
        fi.has_result = !f.results.is_empty();
    }

    pub(crate) fn check_global_var(&mut self, v: &VarSpec) {
        if v.names.len() != 1 {
            self.unsup(v.line, "package-level var declaration with several names");
            return;
        }
        let name = &v.names[0];
        let declared = v.ty.as_ref().map(|t| self.resolve_type(t));
        let mut ty = declared.unwrap_or(T_INVALID);
        let mut init = None;
        if v.values.len() > 1 {
            self.err("assign-count", v.line, "assignment mismatch: 1 variable but several values");
            return;
        }
        if let Some(e) = v.values.first() {
            let mut op = self.check_expr(e);
            if !op.is_invalid() {
                if op.mode != Mode::Const {
                    self.unsup(v.line, "package-level variable with non-constant initializer");
                }
                match declared {
                    Some(t) if t != T_INVALID => {
                        self.assign_to(&mut op, t, "variable declaration");
                    }
                    Some(_) => {}
                    None => {
                        self.default_operand(&mut op, "variable declaration");
                        ty = op.ty;
                    }
                }
                if op.mode == Mode::Const && !op.is_invalid() {
                    init = op.val.clone();
                }
            }
        } else if declared.is_none() {
            return;
        }
        if name.name == "_" {
            return;
        }
        if let Some(&o) = self.pkg_scope.get(&name.name) {
            if let Obj::Var { res: Res::Global(g), .. } = self.objs[o].clone() {
                self.info.globals[g as usize].ty = ty;
                self.info.globals[g as usize].init = init;
                if let Obj::Var { ty: t, .. } = &mut self.objs[o] {
                    *t = ty;
                }
            }
        }
    }

    pub(crate) fn check_func_body(&mut self, di: usize, f: &FuncDecl) {
        let idx = self.func_of_decl[&di];
        let sig = self.info.funcs[idx as usize].sig;
        let (ptys, rtys) = match self.info.types.get(sig).clone() {
            Ty::Func(p, r) => (p, r),
            _ => {
                // signature invalid: still walk the body for name resolution
                // errors? Types of parameters are unknown; skip quietly.
                return;
            }
        };
        let body = match &f.body {
            Some(b) => b,
            None => return,
        };
        let mut declared = HashSet::new();
        collect_declared(&body.stmts, &mut declared);
        self.fctx = Some(FuncCtx { results: rtys.clone(), nlocals: 0, declared_names: declared, locals: Vec::new(), loop_depth: 0, breakable_depth: 0 });
        self.push_scope();
        if let Some(r) = &f.recv {
            let rt = self.info.type_exprs.get(&r.ty.id).copied().unwrap_or(T_INVALID);
            match &r.name {
                Some(n) => {
                    self.declare_local(n, rt, true);
                }
                None => {
                    self.hidden_slot();
                }
            }
        }
        for (p, t) in f.params.iter().zip(ptys.iter()) {
            match &p.name {
                Some(n) => {
                    self.declare_local(n, *t, true);
                }
                None => {
                    self.hidden_slot();
                }
            }
        }
        self.check_stmts(&body.stmts);
        if !rtys.is_empty() && !self.terminating_list(&body.stmts) {
            self.err("missing-return", f.end_line, "missing return");
        }
        self.pop_scope();
        let fctx = self.fctx.take().unwrap();
        for o in fctx.locals {
            if !self.used[o] {
                if let Obj::Var { line, .. } = &self.objs[o] {
                    let line = *line;
                    let name = self.local_name_of(o);
                    self.err("unused-variable", line, format!("declared and not used: {}", name));
                }
            }
        }
        self.info.funcs[idx as usize].nlocals = fctx.nlocals;
    }

    fn local_name_of(&self, o: usize) -> String {
        match &self.objs[o] {
            Obj::Var { name, .. } => name.clone(),
            _ => String::new(),
        }
    }
}

fn collect_declared(stmts: &[Stmt], out: &mut HashSet<String>) {
    for s in stmts {
        collect_declared_stmt(s, out);
    }
}

fn collect_declared_stmt(s: &Stmt, out: &mut HashSet<String>) {
    match &s.kind {
        StmtKind::Var(v) => {
            for n in &v.names {
                out.insert(n.name.clone());
            }
        }
        StmtKind::ShortVar { names, .. } => {
            for n in names {
                out.insert(n.name.clone());
            }
        }
        StmtKind::If { init, then, els, .. } => {
            if let Some(i) = init {
                collect_declared_stmt(i, out);
            }
            collect_declared(&then.stmts, out);
            if let Some(e) = els {
                collect_declared_stmt(e, out);
            }
        }
        StmtKind::For { init, post, body, .. } => {
            if let Some(i) = init {
                collect_declared_stmt(i, out);
            }
            if let Some(p) = post {
                collect_declared_stmt(p, out);
            }
            collect_declared(&body.stmts, out);
        }
        StmtKind::Switch { init, clauses, .. } => {
            if let Some(i) = init {
                collect_declared_stmt(i, out);
            }
            for c in clauses {
                collect_declared(&c.body, out);
            }
        }
        StmtKind::TypeSwitch { init, bind, clauses, .. } => {
            if let Some(i) = init {
                collect_declared_stmt(i, out);
            }
            if let Some(b) = bind {
                out.insert(b.name.clone());
            }
            for c in clauses {
                collect_declared(&c.body, out);
            }
        }
        StmtKind::Block(b) => collect_declared(&b.stmts, out),
        _ => {}
    }
}
