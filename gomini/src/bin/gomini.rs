//! gomini CLI: `gomini vet <file.go>`, `gomini run <file.go>`.
//! Also usable as a `go` shim: `go run <file.go>` (argv[1] == "run").

use std::io::Write;

fn usage() -> ! {
    eprintln!("usage: gomini vet <file.go> | gomini run [--sched=det|random:<seed>] [--budget=N] <file.go> | gomini version");
    std::process::exit(64);
}

fn main() {
    let args: Vec<String> = std::env::args().collect();
    if args.len() < 2 {
        usage();
    }
    let invoked_as_go = std::path::Path::new(&args[0]).file_name().map_or(false, |n| n == "go");
    match args[1].as_str() {
        "version" => {
            println!("go version gomini0.1 (Go subset interpreter) linux/amd64");
        }
        "vet" => {
            let mut status = 0;
            for f in &args[2..] {
                let src = match std::fs::read_to_string(f) {
                    Ok(s) => s,
                    Err(e) => {
                        eprintln!("{}: {}", f, e);
                        std::process::exit(1);
                    }
                };
                let rep = gomini::vet_source(&src);
                for e in &rep.errors {
                    println!("{}:{}: [{}] {}", f, e.line, e.kind, e.msg);
                    status = 1;
                }
                for u in &rep.unsupported {
                    println!("{}: unsupported: {}", f, u);
                    if status == 0 {
                        status = 3;
                    }
                }
            }
            std::process::exit(status);
        }
        "run" => {
            let mut cfg = gomini::RunConfig::default();
            let mut file = None;
            for a in &args[2..] {
                if let Some(s) = a.strip_prefix("--sched=") {
                    if s == "det" {
                        cfg.sched = gomini::Sched::Deterministic;
                    } else if let Some(seed) = s.strip_prefix("random:") {
                        cfg.sched = gomini::Sched::Random { seed: seed.parse().unwrap_or(0) };
                    } else {
                        usage();
                    }
                } else if let Some(s) = a.strip_prefix("--budget=") {
                    cfg.step_budget = s.parse().unwrap_or(cfg.step_budget);
                } else if a.starts_with('-') {
                    // flags of the real go tool are ignored
                } else if file.is_none() {
                    file = Some(a.clone());
                }
            }
            let file = match file {
                Some(f) => f,
                None => usage(),
            };
            let src = match std::fs::read_to_string(&file) {
                Ok(s) => s,
                Err(e) => {
                    eprintln!("{}: {}", file, e);
                    std::process::exit(1);
                }
            };
            let parsed = match gomini::parse(&src) {
                Ok(p) => p,
                Err(e) => {
                    // like `go run` on a compile error
                    eprintln!("# command-line-arguments");
                    match &e {
                        gomini::ParseError::Syntax { line, col, msg } => {
                            eprintln!("./{}:{}:{}: syntax error: {}", base_name(&file), line, col, msg);
                            std::process::exit(1);
                        }
                        gomini::ParseError::Unsupported { line, what } => {
                            eprintln!("gomini: unsupported: line {}: {}", line, what);
                            std::process::exit(3);
                        }
                    }
                }
            };
            let rep = gomini::vet(&parsed);
            if !rep.errors.is_empty() {
                eprintln!("# command-line-arguments");
                for e in &rep.errors {
                    eprintln!("./{}:{}: {}", base_name(&file), e.line, e.msg);
                }
                std::process::exit(1);
            }
            let res = gomini::run(&parsed, &cfg);
            let _ = std::io::stdout().write_all(&res.stdout);
            let _ = std::io::stdout().flush();
            let workdir = std::path::Path::new(&file).parent().map(|p| p.to_string_lossy().into_owned()).unwrap_or_default();
            let workdir = if workdir.is_empty() { ".".to_string() } else { workdir };
            let stderr = res.stderr.replace("${WORKDIR}", &workdir);
            let _ = std::io::stderr().write_all(stderr.as_bytes());
            match &res.exit {
                gomini::Exit::Ok => {}
                gomini::Exit::Panic { .. } | gomini::Exit::Deadlock => {
                    if invoked_as_go || true {
                        eprintln!("exit status 2");
                    }
                    // `go run` itself exits with status 1 when the program
                    // fails; the binary would exit with 2
                    std::process::exit(if invoked_as_go { 1 } else { 2 });
                }
                gomini::Exit::Budget => {
                    eprintln!("gomini: step/output budget exhausted");
                    std::process::exit(3);
                }
                gomini::Exit::Unsupported(w) => {
                    eprintln!("gomini: unsupported: {}", w);
                    std::process::exit(3);
                }
            }
        }
        _ => usage(),
    }
}

fn base_name(p: &str) -> String {
    std::path::Path::new(p).file_name().map(|n| n.to_string_lossy().into_owned()).unwrap_or_else(|| p.to_string())
}
