//! Small shared utilities: PRNG, hashing, text helpers.

/// SplitMix64 seeding + xoshiro256** stream.
#[derive(Clone, Debug)]
pub struct Rng {
    s: [u64; 4],
}

fn splitmix(x: &mut u64) -> u64 {
    *x = x.wrapping_add(0x9E3779B97F4A7C15);
    let mut z = *x;
    z = (z ^ (z >> 30)).wrapping_mul(0xBF58476D1CE4E5B9);
    z = (z ^ (z >> 27)).wrapping_mul(0x94D049BB133111EB);
    z ^ (z >> 31)
}

impl Rng {
    pub fn new(seed: u64) -> Rng {
        let mut x = seed;
        let s = [
            splitmix(&mut x),
            splitmix(&mut x),
            splitmix(&mut x),
            splitmix(&mut x),
        ];
        Rng { s }
    }
    /// Stream keyed by (seed, label, a, b): reproducible per case.
    pub fn keyed(seed: u64, label: &str, a: u64, b: u64) -> Rng {
        let mut h = fnv64(label.as_bytes());
        h ^= seed.wrapping_mul(0x9E3779B97F4A7C15);
        h = h.rotate_left(17) ^ a.wrapping_mul(0xD6E8FEB86659FD93);
        h = h.rotate_left(29) ^ b.wrapping_mul(0xCA5A826395121157);
        Rng::new(h)
    }
    pub fn next_u64(&mut self) -> u64 {
        let r = self.s[1].wrapping_mul(5).rotate_left(7).wrapping_mul(9);
        let t = self.s[1] << 17;
        self.s[2] ^= self.s[0];
        self.s[3] ^= self.s[1];
        self.s[1] ^= self.s[2];
        self.s[0] ^= self.s[3];
        self.s[2] ^= t;
        self.s[3] = self.s[3].rotate_left(45);
        r
    }
    /// uniform in 0..n (n>0)
    pub fn below(&mut self, n: usize) -> usize {
        debug_assert!(n > 0);
        (self.next_u64() % (n as u64)) as usize
    }
    pub fn range(&mut self, lo: i64, hi_incl: i64) -> i64 {
        let span = (hi_incl - lo) as u64 + 1;
        lo + (self.next_u64() % span) as i64
    }
    pub fn chance(&mut self, num: u32, den: u32) -> bool {
        (self.next_u64() % den as u64) < num as u64
    }
    pub fn bool(&mut self) -> bool {
        self.next_u64() & 1 == 1
    }
    pub fn pick<T: Copy>(&mut self, xs: &[T]) -> T {
        xs[self.below(xs.len())]
    }
    pub fn pick_ref<'a, T>(&mut self, xs: &'a [T]) -> &'a T {
        &xs[self.below(xs.len())]
    }
    pub fn shuffle<T>(&mut self, xs: &mut [T]) {
        for i in (1..xs.len()).rev() {
            let j = self.below(i + 1);
            xs.swap(i, j);
        }
    }
    pub fn f64(&mut self) -> f64 {
        (self.next_u64() >> 11) as f64 / (1u64 << 53) as f64
    }
}

pub fn fnv64(bytes: &[u8]) -> u64 {
    let mut h: u64 = 0xcbf29ce484222325;
    for b in bytes {
        h ^= *b as u64;
        h = h.wrapping_mul(0x100000001b3);
    }
    h
}

pub fn hash_str(s: &str) -> u64 {
    fnv64(s.as_bytes())
}

pub fn hex64(h: u64) -> String {
    format!("{:016x}", h)
}

pub fn truncate(s: &str, max: usize) -> String {
    if s.len() <= max {
        return s.to_string();
    }
    let mut end = max;
    while !s.is_char_boundary(end) {
        end -= 1;
    }
    format!("{}...[{} more bytes]", &s[..end], s.len() - end)
}

pub fn env_u64(name: &str, default: u64) -> u64 {
    std::env::var(name)
        .ok()
        .and_then(|v| v.trim().parse::<u64>().ok())
        .unwrap_or(default)
}

pub fn verif_root() -> std::path::PathBuf {
    std::env::var("VERIF_ROOT")
        .map(std::path::PathBuf::from)
        .unwrap_or_else(|_| std::path::PathBuf::from("/verif"))
}

pub fn repo_root() -> std::path::PathBuf {
    std::path::PathBuf::from("/repo")
}

/// Scratch directory on tmpfs if available, else under /verif/out/scratch.
pub fn scratch_base() -> std::path::PathBuf {
    let shm = std::path::Path::new("/dev/shm");
    if shm.is_dir() {
        shm.to_path_buf()
    } else {
        verif_root().join("out/scratch")
    }
}

/// Pinned witness inputs of recorded findings for a property: (finding id, file text).
pub fn known_witnesses(prop: &str) -> Vec<(String, String)> {
    let mut out = Vec::new();
    let dir = verif_root().join("findings");
    if let Ok(rd) = std::fs::read_dir(&dir) {
        let mut ents: Vec<_> = rd.filter_map(|e| e.ok()).map(|e| e.path()).collect();
        ents.sort();
        for p in ents {
            let name = p.file_stem().map(|s| s.to_string_lossy().to_string()).unwrap_or_default();
            if name.starts_with(&format!("{}-", prop)) && p.is_file() {
                if let Ok(t) = std::fs::read_to_string(&p) {
                    out.push((name, t));
                }
            }
        }
    }
    out
}
