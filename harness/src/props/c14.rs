//! C14: separate compilation is equivalent to whole-program compilation.
//! Every project (8 corpus projects, generated projects, and mutated - possibly invalid - variants of
//! them) is observed through the whole-program entry point and through check/build/link with the
//! artifacts round-tripped through files, for every topological package order (capped): acceptance must
//! agree, accepted programs must behave identically (executed Go), and `check` and `build` must emit
//! the same interface.
use crate::goexec::{self, Term, Vet};
use crate::projdrv;
use crate::projgen::{self, Project};
use crate::runner::{self, Case, Ctx, PropSpec};
use crate::util::{self, Rng, hash_str};
use crate::capi;
use serde_json::json;
use std::collections::BTreeMap;
use std::path::{Path, PathBuf};

pub static SPEC: PropSpec = PropSpec {
    id: "C14",
    level: "exploration",
    rule: "projects: the 8 corpus projects; three projects in which a package imports itself (driven through the separate path in the order a user would give); six projects with packages of unusual content (types only, generic types only, a trait only - used statically and through dyn -, a method-less marker trait in a library / in Main, empty struct + one-variant enum + empty trait); 72 transitive-visibility projects (Main reaches an item of a package that only a dependency of its dependencies imports - impl, field, inherent path, annotation, dot call, enum pattern, static function, value passed through - over 7 assignments of names to the chain, with import controls); generated projects with 1-5 library packages (dependency DAGs with diamonds, cross-package structs in signatures, generic functions and enums, traits with impls for local and primitive types, impls of a foreign trait for a local type, 1-3 source files per package); and textual mutations of them (one import dropped from one file of a multi-file package, all imports of a package dropped, a call redirected to a function that does not exist, a return type changed, an impl removed, a definition duplicated in a second file, a package declaration changed) that usually make the project invalid. each is compiled whole and separately under every topological order of its package graph (at most 8): acceptance parity, equal behaviour of the two Go programs (stdout / termination, and the model's expected stdout for unmutated generated projects), check interface == build interface for every package. non-trivial: projects accepted both ways and executed; distinct by source hash",
    eval_counter: "project_observations",
    assumptions: &["behaviour is compared through gomini; artifacts are written and re-read through the same serde_json path the CLI uses"],
    crash_is_violation: false,
    stack_mib: 512,
    case_cpu_s: 300,
    shards: 0,
    run,
    floors: &[("project_observations", 300, 8_000), ("accepted_both_ways_and_equal", 60, 1_500), ("rejected_both_ways", 20, 600), ("orders_tried", 150, 4_000), ("interfaces_check_equals_build", 200, 5_000)],
    finish: None,
};

/// all topological orders of the package graph (deps: package -> packages it imports), capped
fn topo_orders(pkgs: &[String], deps: &BTreeMap<String, Vec<String>>, cap: usize) -> Vec<Vec<String>> {
    fn rec(pkgs: &[String], deps: &BTreeMap<String, Vec<String>>, done: &mut Vec<String>, out: &mut Vec<Vec<String>>, cap: usize) {
        if out.len() >= cap {
            return;
        }
        if done.len() == pkgs.len() {
            out.push(done.clone());
            return;
        }
        for p in pkgs {
            if done.contains(p) {
                continue;
            }
            let ready = deps.get(p).map_or(true, |ds| ds.iter().all(|d| done.contains(d) || !pkgs.contains(d)));
            if ready {
                done.push(p.clone());
                rec(pkgs, deps, done, out, cap);
                done.pop();
            }
        }
    }
    let mut out = Vec::new();
    rec(pkgs, deps, &mut Vec::new(), &mut out, cap);
    out
}

fn run_go(go: &str) -> Result<(String, String), String> {
    let gp = goexec::parse(go);
    match goexec::vet(&gp) {
        Vet::Accept => {}
        Vet::Unsupported(u) => return Err(format!("vet unsupported: {}", u)),
        Vet::Reject(errs) => return Ok((format!("<invalid go: {} {}>", errs[0].0, errs[0].2), "invalid".into())),
    }
    let r = goexec::run(&gp, 20_000_000, gomini::Sched::Deterministic);
    match r.term {
        Term::Ok => Ok((r.stdout, "ok".into())),
        Term::Fail(k) => Ok((r.stdout, format!("fail:{}", k))),
        Term::Budget => Err("budget".into()),
        Term::Unsupported(u) => Err(format!("run unsupported: {}", u)),
    }
}

/// observe one project directory both ways; `expected` = model stdout when known
fn observe(c: &mut Case, label: &str, root: &Path, art_base: &Path, expected: Option<&str>, what: &str) {
    c.count("project_observations", 1);
    let srcs: String = {
        let mut all = String::new();
        let mut stack = vec![root.to_path_buf()];
        let mut files: Vec<PathBuf> = Vec::new();
        while let Some(d) = stack.pop() {
            if let Ok(rd) = std::fs::read_dir(&d) {
                for e in rd.flatten() {
                    let p = e.path();
                    if p.is_dir() {
                        stack.push(p);
                    } else if p.extension().map_or(false, |x| x == "gom") {
                        files.push(p);
                    }
                }
            }
        }
        files.sort();
        for f in files {
            all.push_str(&format!("// ---- {}\n{}\n", f.strip_prefix(root).unwrap_or(&f).display(), std::fs::read_to_string(&f).unwrap_or_default()));
        }
        all
    };
    runner::note_input(&srcs);
    let whole = match runner::guard(|| projdrv::observe_whole(root)) {
        Ok(o) => o,
        Err(p) => {
            c.inconclusive(format!("compiler panic at {} (whole-program; a C04 event)", p.site));
            return;
        }
    };
    let whole_ok = whole.get("whole/result").map_or(false, |r| r == "ok");
    let whole_go = whole.get("whole/dump/go").cloned();
    let (order0, dirs, deps) = match projdrv::discover(root) {
        Ok(x) => x,
        Err(e) => {
            // discovery itself fails (cycle, missing package ..): whole must have failed too
            if whole_ok {
                c.violation("C14:accepted-whole-but-undiscoverable".to_string(), format!("whole-program compile accepts a project whose package graph cannot be discovered: {}", util::truncate(&e, 160)), json!({"label": label, "what": what, "sources": util::truncate(&srcs, 8000)}));
            } else {
                c.count("rejected_both_ways", 1);
            }
            return;
        }
    };
    let orders = topo_orders(&order0, &deps, 8);
    let whole_run = if whole_ok { whole_go.as_ref().map(|g| run_go(g)) } else { None };
    if let Some(Err(e)) = &whole_run {
        c.inconclusive(format!("gomini: {}", e));
        return;
    }
    let mut any_accept = false;
    for (oi, order) in orders.iter().enumerate() {
        c.count("orders_tried", 1);
        let art = art_base.join(format!("art{}", oi));
        let _ = std::fs::remove_dir_all(&art);
        let sep = match runner::guard(|| projdrv::observe_separate(root, order, &dirs, &art)) {
            Ok(s) => s,
            Err(p) => {
                let _ = std::fs::remove_dir_all(&art);
                if whole_ok {
                    // the whole-program path accepts the project: the separate path must produce the same program, not crash
                    c.violation(
                        format!("C14:separate-path-crashes:{}", crate::diff::msg_class(&p.site)),
                        format!("whole-program compile accepts the project, check/build/link in order {:?} crashes at {}: {}", order, p.site, util::truncate(&p.message, 140)),
                        json!({"label": label, "what": what, "order": order, "sources": util::truncate(&srcs, 8000)}),
                    );
                } else {
                    c.inconclusive(format!("compiler panic at {} (separate; a C04 event)", p.site));
                }
                return;
            }
        };
        let _ = std::fs::remove_dir_all(&art);
        // check vs build interface
        for pkg in order {
            if let (Some(a), Some(b)) = (sep.obs.get(&format!("sep/{}/check.interface", pkg)), sep.obs.get(&format!("sep/{}/build.interface", pkg))) {
                if a != b {
                    c.violation("C14:check-and-build-interfaces-differ".to_string(), format!("`check` and `build` of package {} emit different interfaces", pkg), json!({"label": label, "what": what, "package": pkg, "order": order, "sources": util::truncate(&srcs, 8000)}));
                    return;
                }
                c.count("interfaces_check_equals_build", 1);
            }
            let check_failed = sep.obs.contains_key(&format!("sep/{}/check.err", pkg));
            let build_failed = sep.obs.contains_key(&format!("sep/{}/build.err", pkg));
            if check_failed != build_failed {
                c.violation("C14:check-and-build-disagree-on-acceptance".to_string(), format!("package {}: check {} but build {}", pkg, if check_failed { "fails" } else { "succeeds" }, if build_failed { "fails" } else { "succeeds" }), json!({"label": label, "what": what, "package": pkg, "order": order, "sources": util::truncate(&srcs, 8000)}));
                return;
            }
        }
        if sep.accepted != whole_ok {
            let why: Vec<String> = sep.obs.iter().filter(|(k, _)| k.ends_with(".err")).map(|(k, v)| format!("{}: {}", k, util::truncate(v, 200))).collect();
            let mech = if whole_ok { "separate-rejects" } else { "separate-accepts" };
            // classify by the whole-program diagnostic when the whole path rejects
            let wd = whole.get("whole/diagnostics").cloned().unwrap_or_default();
            let class = if wd.contains("not imported") { "missing-import" } else if wd.is_empty() { "none" } else { "other-diagnostic" };
            c.violation(
                format!("C14:acceptance-differs:{}:{}", mech, class),
                format!("whole-program compile {} the project, separate compilation in order {:?} {} it ({})", if whole_ok { "accepts" } else { "rejects" }, order, if sep.accepted { "accepts" } else { "rejects" }, what),
                json!({"label": label, "what": what, "order": order, "whole_diagnostics": util::truncate(&wd, 1500), "separate_errors": why, "sources": util::truncate(&srcs, 8000)}),
            );
            return;
        }
        if sep.accepted {
            any_accept = true;
            let Some(lgo) = &sep.linked_go else { continue };
            let lrun = match run_go(lgo) {
                Ok(r) => r,
                Err(e) => {
                    c.inconclusive(format!("gomini: {}", e));
                    return;
                }
            };
            if let Some(Ok(wr)) = &whole_run {
                if *wr != lrun {
                    c.violation(
                        "C14:behaviour-differs".to_string(),
                        format!("the linked program (order {:?}) behaves differently from the whole-program one: {:?} vs {:?}", order, util::truncate(&lrun.0, 120), util::truncate(&wr.0, 120)),
                        json!({"label": label, "what": what, "order": order, "whole_stdout": wr.0, "whole_term": wr.1, "linked_stdout": lrun.0, "linked_term": lrun.1, "sources": util::truncate(&srcs, 8000)}),
                    );
                    return;
                }
            }
            if let Some(exp) = expected {
                if lrun.1 == "ok" && lrun.0 != exp {
                    c.violation("C14:linked-program-prints-other-output".to_string(), "the linked program does not print what the project means".to_string(), json!({"label": label, "what": what, "order": order, "expected": exp, "got": lrun.0, "sources": util::truncate(&srcs, 8000)}));
                    return;
                }
            }
            if whole_go.as_deref() == Some(lgo.as_str()) {
                c.count("linked_go_text_identical_to_whole", 1);
            }
        }
    }
    if any_accept {
        c.count("accepted_both_ways_and_equal", 1);
        c.nontrivial(hash_str(&srcs));
    } else {
        c.count("rejected_both_ways", 1);
    }
}

/// textual mutations of rendered project files; returns a description
fn mutate(files: &mut Vec<(PathBuf, String)>, rng: &mut Rng) -> Option<String> {
    let kind = rng.below(10);
    // group file indices by package directory
    let mut by_pkg: BTreeMap<String, Vec<usize>> = BTreeMap::new();
    for (i, (p, _)) in files.iter().enumerate() {
        let pkg = p.parent().map(|d| d.display().to_string()).unwrap_or_default();
        by_pkg.entry(pkg).or_default().push(i);
    }
    match kind {
        0 | 1 => {
            // drop one import line from one file of a multi-file package (the sibling keeps it)
            let multi: Vec<&Vec<usize>> = by_pkg.values().filter(|v| v.len() >= 2).collect();
            if multi.is_empty() {
                return None;
            }
            let group = *rng.pick_ref(&multi);
            let cands: Vec<usize> = group.iter().copied().filter(|i| files[*i].1.lines().any(|l| l.starts_with("import "))).collect();
            if cands.is_empty() {
                return None;
            }
            let fi = *rng.pick_ref(&cands);
            let imports: Vec<String> = files[fi].1.lines().filter(|l| l.starts_with("import ")).map(|l| l.to_string()).collect();
            let drop = rng.pick_ref(&imports).clone();
            files[fi].1 = files[fi].1.replacen(&format!("{}\n", drop), "", 1);
            Some(format!("dropped `{}` from {} only", drop, files[fi].0.display()))
        }
        2 => {
            let pkgs: Vec<&Vec<usize>> = by_pkg.values().filter(|v| v.iter().any(|i| files[*i].1.contains("\nimport "))).collect();
            if pkgs.is_empty() {
                return None;
            }
            let group = (*rng.pick_ref(&pkgs)).clone();
            let first = group.iter().find(|i| files[**i].1.contains("\nimport ")).copied()?;
            let drop = files[first].1.lines().find(|l| l.starts_with("import "))?.to_string();
            for i in group {
                files[i].1 = files[i].1.replacen(&format!("{}\n", drop), "", 1);
            }
            Some(format!("dropped `{}` from every file of its package", drop))
        }
        3 => {
            let cands: Vec<usize> = (0..files.len()).filter(|i| files[*i].1.contains("::f(")).collect();
            if cands.is_empty() {
                return None;
            }
            let fi = *rng.pick_ref(&cands);
            files[fi].1 = files[fi].1.replacen("::f(", "::nosuch(", 1);
            Some(format!("call redirected to a missing function in {}", files[fi].0.display()))
        }
        4 => {
            let cands: Vec<usize> = (0..files.len()).filter(|i| files[*i].1.contains("fn sum(s: S) -> int32")).collect();
            if cands.is_empty() {
                return None;
            }
            let fi = *rng.pick_ref(&cands);
            files[fi].1 = files[fi].1.replacen("fn sum(s: S) -> int32", "fn sum(s: S) -> string", 1);
            Some(format!("return type of sum changed in {}", files[fi].0.display()))
        }
        5 => {
            let cands: Vec<usize> = (0..files.len()).filter(|i| files[*i].1.contains("impl T for int32")).collect();
            if cands.is_empty() {
                return None;
            }
            let fi = *rng.pick_ref(&cands);
            let text = files[fi].1.clone();
            let start = text.find("impl T for int32")?;
            let end = text[start..].find("\n\n").map(|e| start + e)?;
            files[fi].1 = format!("{}{}", &text[..start], &text[end..]);
            Some(format!("impl T for int32 removed from {}", files[fi].0.display()))
        }
        6 => {
            let multi: Vec<&Vec<usize>> = by_pkg.values().filter(|v| v.len() >= 2).collect();
            if multi.is_empty() {
                return None;
            }
            let group = *rng.pick_ref(&multi);
            let fi = group[group.len() - 1];
            files[fi].1.push_str("\nfn mk(v: int32) -> int32 { v }\n");
            Some(format!("second definition of mk added to {}", files[fi].0.display()))
        }
        8 | 9 => {
            // a package that imports itself (a dependency cycle of length one), in a library or in Main
            let cands: Vec<usize> = (0..files.len()).filter(|i| files[*i].1.starts_with("package ")).collect();
            if cands.is_empty() {
                return None;
            }
            let fi = *rng.pick_ref(&cands);
            let first_line = files[fi].1.lines().next()?.to_string();
            let own = first_line.trim_start_matches("package ").trim().to_string();
            if kind == 9 && own != "Main" {
                // Main only
                return None;
            }
            files[fi].1 = files[fi].1.replacen(&first_line, &format!("{}\nimport {}", first_line, own), 1);
            Some(format!("{} imports its own package {}", files[fi].0.display(), own))
        }
        _ => {
            let cands: Vec<usize> = (0..files.len()).filter(|i| files[*i].1.starts_with("package ") && !files[*i].1.starts_with("package Main")).collect();
            if cands.is_empty() {
                return None;
            }
            let fi = *rng.pick_ref(&cands);
            let first_line = files[fi].1.lines().next()?.to_string();
            files[fi].1 = files[fi].1.replacen(&first_line, "package Elsewhere", 1);
            Some(format!("package declaration of {} changed", files[fi].0.display()))
        }
    }
}

fn run(ctx: &mut Ctx) {
    let tier = ctx.tier;
    let seed = ctx.seed;
    if ctx.replay_input.is_some() {
        println!("replay: the replay file stores the project sources");
        return;
    }
    let scratch = capi::scratch_dir().clone();
    // corpus projects
    for (i, (name, files)) in crate::props::c13::corpus_projects().into_iter().enumerate() {
        if !ctx.mine(i as u64) {
            continue;
        }
        let root = scratch.join(format!("c14c-{}", i));
        let art = scratch.join(format!("c14c-{}-art", i));
        let _ = std::fs::remove_dir_all(&root);
        let order: Vec<usize> = (0..files.len()).collect();
        let label = format!("corpus-project/{}", name);
        ctx.case(&label.clone(), |c| {
            if projgen::materialize(&root, &files, &order).is_err() {
                c.inconclusive("cannot materialise project");
                return;
            }
            observe(c, &label, &root, &art, None, "corpus project");
            c.sample(json!({"workload": "corpus project", "name": name}));
        });
        let _ = std::fs::remove_dir_all(&root);
        let _ = std::fs::remove_dir_all(&art);
    }
    // packages without any function (only types / only a trait): their exports must reach the linked program
    {
        let scen: Vec<(&str, Vec<(&str, &str)>, &str)> = vec![
            (
                "type-only-package",
                vec![
                    ("Shapes/lib.gom", "package Shapes\n\nstruct Pt { x: int32, y: int32 }\n\nenum Kind { Dot, Line(int32) }\n"),
                    ("Geo/lib.gom", "package Geo\nimport Shapes\n\nfn mk(x: int32) -> Shapes::Pt { Shapes::Pt { x: x, y: x + 1 } }\n\nfn len(k: Shapes::Kind) -> int32 { match k { Shapes::Kind::Dot => 0, Shapes::Kind::Line(n) => n } }\n"),
                    ("main.gom", "package Main\nimport Shapes\nimport Geo\n\nfn main() {\n    let p = Geo::mk(4);\n    let _ = string_println(int32_to_string(p.x * 10 + p.y));\n    let _ = string_println(int32_to_string(Geo::len(Shapes::Kind::Line(7)) + Geo::len(Shapes::Kind::Dot)));\n    ()\n}\n"),
                ],
                "45\n7\n",
            ),
            (
                "generic-type-only-package",
                vec![
                    ("Boxes/lib.gom", "package Boxes\n\nstruct Bx[T] { it: T }\n\nenum Opt[T] { Some(T), None }\n"),
                    ("main.gom", "package Main\nimport Boxes\n\nfn unwrap(o: Boxes::Opt[int32]) -> int32 { match o { Boxes::Opt::Some(v) => v, Boxes::Opt::None => 0 - 1 } }\n\nfn main() {\n    let b: Boxes::Bx[int32] = Boxes::Bx { it: 5 };\n    let _ = string_println(int32_to_string(b.it + unwrap(Boxes::Opt::Some(6)) + unwrap(Boxes::Opt::None)));\n    ()\n}\n"),
                ],
                "10\n",
            ),
            (
                "trait-only-package",
                vec![
                    ("Shown/lib.gom", "package Shown\n\ntrait Show {\n    fn show(Self) -> string;\n}\n"),
                    ("Things/lib.gom", "package Things\nimport Shown\n\nstruct Th { v: int32 }\n\nfn mk(v: int32) -> Th { Th { v: v } }\n\nimpl Shown::Show for Th {\n    fn show(self: Th) -> string { \"th\" + int32_to_string(self.v) }\n}\n"),
                    ("main.gom", "package Main\nimport Shown\nimport Things\n\nfn via(d: dyn Shown::Show) -> string { Shown::Show::show(d) }\n\nfn main() {\n    let t = Things::mk(3);\n    let _ = string_println(Shown::Show::show(t));\n    let u = Things::mk(4);\n    let _ = string_println(via(u));\n    ()\n}\n"),
                ],
                "th3\nth4\n",
            ),
            (
                "marker-trait-package",
                vec![
                    ("Tag/lib.gom", "package Tag\n\ntrait Marked {}\n"),
                    ("Shapes/lib.gom", "package Shapes\nimport Tag\n\nstruct Sq { s: int32 }\n\nimpl Tag::Marked for Sq {}\n\nfn mk(s: int32) -> Sq { Sq { s: s } }\n\nfn side[T: Tag::Marked](t: T, k: int32) -> int32 { k }\n"),
                    ("main.gom", "package Main\nimport Tag\nimport Shapes\n\nfn main() {\n    let q = Shapes::mk(4);\n    let _ = string_println(int32_to_string(q.s + Shapes::side(q, 5)));\n    ()\n}\n"),
                ],
                "9\n",
            ),
            (
                "marker-trait-in-main",
                vec![
                    ("Shapes/lib.gom", "package Shapes\n\nstruct Sq { s: int32 }\n\nfn mk(s: int32) -> Sq { Sq { s: s } }\n"),
                    ("main.gom", "package Main\nimport Shapes\n\ntrait Marked {}\n\nstruct Loc { v: int32 }\n\nimpl Marked for Loc {}\n\nfn main() {\n    let q = Shapes::mk(4);\n    let l = Loc { v: 2 };\n    let _ = string_println(int32_to_string(q.s + l.v));\n    ()\n}\n"),
                ],
                "6\n",
            ),
            (
                "empty-shells",
                vec![
                    ("Hollow/lib.gom", "package Hollow\n\nstruct Unit0 {}\n\nenum One { Only }\n\ntrait Nothing {}\n\nimpl Nothing for Unit0 {}\n\nfn mk() -> Unit0 { Unit0 {} }\n"),
                    ("main.gom", "package Main\nimport Hollow\n\nfn code(o: Hollow::One) -> int32 { match o { Hollow::One::Only => 7 } }\n\nfn main() {\n    let u = Hollow::mk();\n    let _ = string_println(int32_to_string(code(Hollow::One::Only)));\n    ()\n}\n"),
                ],
                "7\n",
            ),
        ];
        for (i, (name, files, expected)) in scen.into_iter().enumerate() {
            if !ctx.mine(50_000 + i as u64) {
                continue;
            }
            let files: Vec<(PathBuf, String)> = files.into_iter().map(|(p, t)| (PathBuf::from(p), t.to_string())).collect();
            let root = scratch.join(format!("c14s-{}", i));
            let art = scratch.join(format!("c14s-{}-art", i));
            let _ = std::fs::remove_dir_all(&root);
            let order: Vec<usize> = (0..files.len()).collect();
            let label = format!("function-less-package/{}", name);
            ctx.case(&label.clone(), |c| {
                if projgen::materialize(&root, &files, &order).is_err() {
                    c.inconclusive("cannot materialise project");
                    return;
                }
                observe(c, &label, &root, &art, Some(expected), "package without functions");
                c.sample(json!({"workload": "function-less package", "name": name}));
            });
            let _ = std::fs::remove_dir_all(&root);
            let _ = std::fs::remove_dir_all(&art);
        }
    }
    // visibility through the package graph: Main reaches items of a package it does NOT import (only a dependency of
    // its dependencies does) in 8 ways, over all assignments of three name sets to the chain (the order in which
    // packages are checked follows names): whatever the verdict is, both ways of compiling must give the same one
    {
        let uses: [(&str, &str); 8] = [
            ("impl-of-transitive-package", "    let _ = string_println(TP::Show::show(MID::make()));\n"),
            ("field-of-transitive-type", "    let _ = string_println(int32_to_string(MID::make().x));\n"),
            ("inherent-path-of-transitive-type", "    let _ = string_println(int32_to_string(DATA::Point::norm(MID::make())));\n"),
            ("annotation-with-transitive-type", "    let p: DATA::Point = MID::make();\n    let _ = string_println(\"ok\");\n"),
            ("dot-call-on-transitive-type", "    let _ = string_println(int32_to_string(MID::make().norm()));\n"),
            ("pattern-of-transitive-enum", "    let _ = string_println(int32_to_string(match MID::kind() { DATA::Kind::A => 1, _ => 2 }));\n"),
            ("static-function-of-transitive-type", "    let _ = string_println(int32_to_string(DATA::Point::origin().x));\n"),
            ("value-passed-through", "    let _ = string_println(int32_to_string(MID::sum(MID::make())));\n"),
        ];
        let name_sets: [[&str; 3]; 7] = [["Aa", "Mm", "Zz"], ["Aa", "Zz", "Mm"], ["Mm", "Aa", "Zz"], ["Mm", "Zz", "Aa"], ["Zz", "Aa", "Mm"], ["Zz", "Mm", "Aa"], ["Lib", "LibX", "Li"]];
        let mut k = 0u64;
        for (uname, utext) in uses.iter() {
            for ns in name_sets.iter() {
                for with_import in [false, true] {
                    k += 1;
                    if !ctx.mine(60_000 + k) {
                        continue;
                    }
                    // controls (every used package imported) on two of the seven name sets only
                    if with_import && !(ns[0] == "Aa" && ns[1] == "Mm" || ns[0] == "Zz" && ns[1] == "Mm") {
                        continue;
                    }
                    let (tp, data, mid) = (ns[0], ns[1], ns[2]);
                    let sub = |t: &str| t.replace("TP", tp).replace("DATA", data).replace("MID", mid);
                    let files: Vec<(PathBuf, String)> = vec![
                        (PathBuf::from(format!("{}/lib.gom", tp)), sub("package TP\n\ntrait Show {\n    fn show(Self) -> string;\n}\n")),
                        (
                            PathBuf::from(format!("{}/lib.gom", data)),
                            sub("package DATA\nimport TP\n\nstruct Point { x: int32, y: int32 }\n\nenum Kind { A, B(int32) }\n\nimpl Point {\n    fn norm(self: Point) -> int32 { self.x + self.y }\n    fn origin() -> Point { Point { x: 0, y: 0 } }\n}\n\nimpl TP::Show for Point {\n    fn show(self: Point) -> string { \"Point(\" + int32_to_string(self.x) + \", \" + int32_to_string(self.y) + \")\" }\n}\n"),
                        ),
                        (
                            PathBuf::from(format!("{}/lib.gom", mid)),
                            sub("package MID\nimport DATA\n\nfn make() -> DATA::Point { DATA::Point { x: 3, y: 4 } }\n\nfn kind() -> DATA::Kind { DATA::Kind::A }\n\nfn sum(p: DATA::Point) -> int32 { p.x + p.y }\n"),
                        ),
                        (PathBuf::from("main.gom"), sub(&format!("package Main\nimport MID\nimport TP\n{}\nfn main() {{\n{}    ()\n}}\n", if with_import { "import DATA\n" } else { "" }, utext))),
                    ];
                    let root = scratch.join(format!("c14v-{}", k));
                    let art = scratch.join(format!("c14v-{}-art", k));
                    let _ = std::fs::remove_dir_all(&root);
                    let order: Vec<usize> = (0..files.len()).collect();
                    let label = format!("transitive-visibility/{}/{}-{}-{}/{}", uname, tp, data, mid, if with_import { "imported" } else { "not-imported" });
                    ctx.case(&label.clone(), |c| {
                        if projgen::materialize(&root, &files, &order).is_err() {
                            c.inconclusive("cannot materialise project");
                            return;
                        }
                        observe(c, &label, &root, &art, None, "use of a package that only a dependency imports");
                        c.count("transitive_visibility_projects", 1);
                        if k % 16 == 1 {
                            c.sample(json!({"workload": "transitive visibility", "use": uname, "names": [tp, data, mid]}));
                        }
                    });
                    let _ = std::fs::remove_dir_all(&root);
                    let _ = std::fs::remove_dir_all(&art);
                }
            }
        }
    }
    // a package that imports itself: the whole-program path cannot even order such a project, so the separate path is
    // driven with the order a user would give (library first); both must give the same verdict
    for (i, (who, lib_hdr, main_hdr)) in [("library", "package Lib\nimport Lib\n", "package Main\nimport Lib\n"), ("main", "package Lib\n", "package Main\nimport Lib\nimport Main\n"), ("control", "package Lib\n", "package Main\nimport Lib\n")].into_iter().enumerate() {
        if !ctx.mine(65_000 + i as u64) {
            continue;
        }
        let files: Vec<(PathBuf, String)> = vec![
            (PathBuf::from("Lib/lib.gom"), format!("{}\nfn f(x: int32) -> int32 {{ x + 1 }}\n", lib_hdr)),
            (PathBuf::from("main.gom"), format!("{}\nfn main() {{\n    let _ = string_println(int32_to_string(Lib::f(1)));\n    ()\n}}\n", main_hdr)),
        ];
        let root = scratch.join(format!("c14i-{}", i));
        let art = scratch.join(format!("c14i-{}-art", i));
        let _ = std::fs::remove_dir_all(&root);
        let order: Vec<usize> = (0..files.len()).collect();
        let label = format!("self-import/{}", who);
        ctx.case(&label.clone(), |c| {
            if projgen::materialize(&root, &files, &order).is_err() {
                c.inconclusive("cannot materialise project");
                return;
            }
            let srcs: String = files.iter().map(|(p, t)| format!("// ---- {}\n{}\n", p.display(), t)).collect();
            runner::note_input(&srcs);
            let whole = runner::guard(|| projdrv::observe_whole(&root));
            let mut dirs: BTreeMap<String, PathBuf> = BTreeMap::new();
            dirs.insert("Lib".into(), root.join("Lib"));
            dirs.insert("Main".into(), root.clone());
            let sep = runner::guard(|| projdrv::observe_separate(&root, &["Lib".to_string(), "Main".to_string()], &dirs, &art));
            match (whole, sep) {
                (Ok(w), Ok(sp)) => {
                    let whole_ok = w.get("whole/result").map_or(false, |r| r == "ok");
                    c.count("project_observations", 1);
                    c.count("self_import_projects", 1);
                    if whole_ok != sp.accepted {
                        c.violation(
                            format!("C14:acceptance-differs:self-import:{}", who),
                            format!("a project whose {} package imports itself: whole-program compile {} it, check / build / link {} it", who, if whole_ok { "accepts" } else { "rejects" }, if sp.accepted { "accepts" } else { "rejects" }),
                            json!({"label": label, "sources": srcs, "whole_diagnostics": w.get("whole/diagnostics")}),
                        );
                    } else if who == "control" && !whole_ok {
                        c.inconclusive("the control project is rejected");
                    }
                }
                _ => c.inconclusive("compiler panic (a C04 event)"),
            }
        });
        let _ = std::fs::remove_dir_all(&root);
        let _ = std::fs::remove_dir_all(&art);
    }
    // generated projects and their mutants
    let np = tier.pickn(96u64, 2_400u64) / ctx.nshards as u64 + 1;
    for i in 0..np {
        let mut rng = Rng::keyed(seed, "c14-proj", ctx.shard as u64, i);
        let mut proj = Project::generate(&mut rng, 5);
        // multi-file packages matter here
        for l in proj.libs.iter_mut() {
            if rng.chance(2, 3) {
                l.n_files = 2 + rng.below(2) as u8;
                l.mixed_case_files = rng.chance(1, 3);
            }
        }
        let mut files = proj.render();
        // half of the projects: every file imports only the packages it mentions itself
        // (the package's import set is then the union over its files, no single file has it)
        if rng.bool() {
            for (_, text) in files.iter_mut() {
                let imports: Vec<String> = text.lines().filter(|l| l.starts_with("import ")).map(|l| l.to_string()).collect();
                for imp in imports {
                    let pkg = imp.trim_start_matches("import ").trim().to_string();
                    if !text.contains(&format!("{}::", pkg)) {
                        *text = text.replacen(&format!("{}\n", imp), "", 1);
                    }
                }
            }
        }
        let root = scratch.join(format!("c14p-{}-{}", ctx.shard, i));
        let art = scratch.join(format!("c14p-{}-{}-art", ctx.shard, i));
        let order: Vec<usize> = (0..files.len()).collect();
        let label = format!("project/{}/{}", ctx.shard, i);
        let _ = std::fs::remove_dir_all(&root);
        ctx.case(&label.clone(), |c| {
            if projgen::materialize(&root, &files, &order).is_err() {
                c.inconclusive("cannot materialise project");
                return;
            }
            observe(c, &label, &root, &art, Some(&proj.expected_stdout()), "generated project");
            if i == 0 {
                c.sample(json!({"workload": "generated project", "packages": proj.libs.iter().map(|l| format!("{}({} files)", l.name, l.n_files)).collect::<Vec<_>>()}));
            }
        });
        let _ = std::fs::remove_dir_all(&root);
        // three mutants
        for m in 0..3 {
            let mut mfiles = files.clone();
            let Some(desc) = mutate(&mut mfiles, &mut rng) else { continue };
            let label = format!("mutant/{}/{}/{}", ctx.shard, i, m);
            let _ = std::fs::remove_dir_all(&root);
            ctx.case(&label.clone(), |c| {
                if projgen::materialize(&root, &mfiles, &order).is_err() {
                    c.inconclusive("cannot materialise project");
                    return;
                }
                c.count("mutants", 1);
                c.count(&format!("mutants:{}", desc.split_whitespace().take(2).collect::<Vec<_>>().join("-")), 1);
                observe(c, &label, &root, &art, None, &desc);
                if i == 0 {
                    c.sample(json!({"workload": "mutant", "mutation": desc}));
                }
            });
            let _ = std::fs::remove_dir_all(&root);
        }
        let _ = std::fs::remove_dir_all(&art);
    }
    capi::cleanup_scratch();
}
