//! C11: source text is read as written - precedence, associativity, literal fidelity.
//! A. operator trees: every tree with <= 3 (quick) / 4 (thorough) operator nodes is printed with the
//!    minimal parentheses the documented grammar requires (spaced and tight) and parsed by the real
//!    parser + lowering; the resulting ast::Expr must be exactly the tree.
//! B. whole generated programs: minimal-paren print, max-paren print and trivia-perturbed prints must
//!    give the same ast::File (modulo node pointers).
//! C. literals through execution: strings spelled with every escape form, multi-line strings, integer and
//!    float spellings are printed / matched by the compiled program; stdout must be the denoted characters.
use crate::exec;
use crate::gl::ast::{PrintOpts, print_program};
use crate::gl::pgen::{Features, generate};
use crate::goexec::Term;
use crate::runner::{self, Case, Ctx, PropSpec};
use crate::util::{self, Rng, hash_str};
use serde_json::json;

pub static SPEC: PropSpec = PropSpec {
    id: "C11",
    level: "exploration",
    rule: "trees: all expression trees with <= 3 (quick) / <= 4 (thorough) operator nodes over 12 binary operators, unary - and !, call with 0 and 1 arguments, field access and tuple projection (18 / 558 / 21,510 / 927,954 trees with 1 / 2 / 3 / 4 nodes), each printed spaced and tight with only the parentheses the documented precedence table requires, parsed and lowered by the real front end and compared node by node with the tree; plus random trees up to 9 nodes with tuples, 2-argument calls, literals. types: random type expressions (function types with 0-2 parameters nested in parameters and results, tuples, arrays, Vec / Ref / user generic applications, dyn) printed with the arrow right-associative and parsed back. programs: generated programs printed with minimal parentheses, with maximal parentheses and with random trivia (spaces, newlines, comments) between tokens must lower to the same ast::File. literals: strings over a hostile alphabet spelled with raw characters / short escapes / \\uXXXX escapes / surrogate pairs, multi-line strings with hostile lines and indentation, integer spellings with leading zeros, float spellings - printed, concatenated and matched by the compiled program (executed Go). non-trivial: every tree / program / literal; distinct by content hash",
    eval_counter: "trees",
    assumptions: &["nested tuple projection is printed as (t.0).1 because `t.0.1` lexes as a float (documented lexer behaviour)", "literal fidelity is observed through gomini's execution of the emitted Go"],
    crash_is_violation: false,
    stack_mib: 256,
    case_cpu_s: 120,
    shards: 0,
    run,
    floors: &[("trees", 22_000, 900_000), ("trees_roundtrip_ok", 44_000, 1_800_000), ("programs_same_ast", 100, 2_000), ("string_literals_checked", 300, 6_000), ("multiline_literals_checked", 100, 2_000), ("type_expressions_roundtrip_ok", 1_500, 40_000)],
    finish: None,
};

// ------------------------------------------------------------------------------------------ operator trees

#[derive(Clone, Debug, PartialEq)]
enum T {
    Id(String),
    Int(u32),
    Str(String),
    Bool(bool),
    Un(u8, Box<T>),
    Bin(u8, Box<T>, Box<T>),
    Call(Box<T>, Vec<T>),
    Field(Box<T>, String),
    Proj(Box<T>, usize),
    Tuple(Vec<T>),
}

const BINOPS: [(&str, u8); 12] = [("||", 1), ("&&", 2), ("==", 3), ("!=", 3), ("<", 4), (">", 4), ("<=", 4), (">=", 4), ("+", 5), ("-", 5), ("*", 6), ("/", 6)];
const UNOPS: [&str; 2] = ["-", "!"];

fn prec(t: &T) -> u8 {
    match t {
        T::Bin(op, ..) => BINOPS[*op as usize].1,
        T::Un(..) => 7,
        T::Call(..) | T::Field(..) | T::Proj(..) => 8,
        _ => 9,
    }
}

fn sexp(t: &T, o: &mut String) {
    match t {
        T::Id(s) => o.push_str(s),
        T::Int(v) => o.push_str(&v.to_string()),
        T::Str(s) => {
            o.push('"');
            o.push_str(s);
            o.push('"');
        }
        T::Bool(b) => o.push_str(if *b { "true" } else { "false" }),
        T::Un(op, x) => {
            o.push_str(if *op == 0 { "(neg " } else { "(not " });
            sexp(x, o);
            o.push(')');
        }
        T::Bin(op, l, r) => {
            o.push('(');
            o.push_str(BINOPS[*op as usize].0);
            o.push(' ');
            sexp(l, o);
            o.push(' ');
            sexp(r, o);
            o.push(')');
        }
        T::Call(f, args) => {
            o.push_str("(call ");
            sexp(f, o);
            for a in args {
                o.push(' ');
                sexp(a, o);
            }
            o.push(')');
        }
        T::Field(x, n) => {
            o.push_str("(field ");
            sexp(x, o);
            o.push(' ');
            o.push_str(n);
            o.push(')');
        }
        T::Proj(x, k) => {
            o.push_str("(proj ");
            sexp(x, o);
            o.push(' ');
            o.push_str(&k.to_string());
            o.push(')');
        }
        T::Tuple(xs) => {
            o.push_str("(tuple");
            for a in xs {
                o.push(' ');
                sexp(a, o);
            }
            o.push(')');
        }
    }
}

/// minimal parentheses per the documented table; `tight` leaves out optional blanks; `all` puts every operand, callee,
/// argument and tuple item into (redundant) parentheses as well - they must not change the tree
fn print_mode(t: &T, tight: bool, all: bool, o: &mut String) {
    let paren = |x: &T, need: bool, o: &mut String| {
        if need || all {
            o.push('(');
            print_mode(x, tight, all, o);
            o.push(')');
        } else {
            print_mode(x, tight, all, o);
        }
    };
    match t {
        T::Id(s) => o.push_str(s),
        T::Int(v) => o.push_str(&v.to_string()),
        T::Str(s) => {
            o.push('"');
            o.push_str(s);
            o.push('"');
        }
        T::Bool(b) => o.push_str(if *b { "true" } else { "false" }),
        T::Un(op, x) => {
            o.push_str(UNOPS[*op as usize]);
            paren(x, prec(x) < 7, o);
        }
        T::Bin(op, l, r) => {
            let p = BINOPS[*op as usize].1;
            paren(l, prec(l) < p, o);
            if !tight {
                o.push(' ');
            }
            o.push_str(BINOPS[*op as usize].0);
            if !tight {
                o.push(' ');
            }
            paren(r, prec(r) <= p, o);
        }
        T::Call(f, args) => {
            paren(f, prec(f) < 8, o);
            o.push('(');
            for (i, a) in args.iter().enumerate() {
                if i > 0 {
                    o.push_str(if tight { "," } else { ", " });
                }
                paren(a, false, o);
            }
            o.push(')');
        }
        T::Field(x, n) => {
            paren(x, prec(x) < 8, o);
            o.push('.');
            o.push_str(n);
        }
        T::Proj(x, k) => {
            // `t.0.1` and `1.0` lex as floats: those parentheses are required by the lexer
            let lexical = matches!(**x, T::Proj(..) | T::Int(_));
            paren(x, prec(x) < 8 || lexical, o);
            o.push('.');
            o.push_str(&k.to_string());
        }
        T::Tuple(xs) => {
            o.push('(');
            for (i, a) in xs.iter().enumerate() {
                if i > 0 {
                    o.push_str(if tight { "," } else { ", " });
                }
                paren(a, false, o);
            }
            // a one-element tuple is written with its trailing comma (`(e,)`; `(e)` is a parenthesised expression);
            // longer tuples may carry one (here: in the spaced print when the first item is a number)
            if xs.len() == 1 || (!tight && matches!(xs.first(), Some(T::Int(_)))) {
                o.push(',');
            }
            o.push(')');
        }
    }
}

fn print(t: &T, tight: bool, o: &mut String) {
    print_mode(t, tight, false, o)
}

fn ast_sexp(e: &ast::ast::Expr, o: &mut String) -> Result<(), String> {
    use ast::ast::Expr as E;
    match e {
        E::EPath { path, .. } => o.push_str(&path.display()),
        E::EInt { value, .. } => o.push_str(value),
        E::EBool { value, .. } => o.push_str(if *value { "true" } else { "false" }),
        E::EString { value, .. } => {
            o.push('"');
            o.push_str(value);
            o.push('"');
        }
        E::EUnary { op, expr, .. } => {
            let n = format!("{:?}", op);
            o.push_str(if n == "Neg" { "(neg " } else { "(not " });
            ast_sexp(expr, o)?;
            o.push(')');
        }
        E::EBinary { op, lhs, rhs, .. } => {
            o.push('(');
            o.push_str(op.symbol());
            o.push(' ');
            ast_sexp(lhs, o)?;
            o.push(' ');
            ast_sexp(rhs, o)?;
            o.push(')');
        }
        E::ECall { func, args, .. } => {
            o.push_str("(call ");
            ast_sexp(func, o)?;
            for a in args {
                o.push(' ');
                ast_sexp(a, o)?;
            }
            o.push(')');
        }
        E::EField { expr, field, .. } => {
            o.push_str("(field ");
            ast_sexp(expr, o)?;
            o.push(' ');
            o.push_str(&field.0);
            o.push(')');
        }
        E::EProj { tuple, index, .. } => {
            o.push_str("(proj ");
            ast_sexp(tuple, o)?;
            o.push(' ');
            o.push_str(&index.to_string());
            o.push(')');
        }
        E::ETuple { items, .. } => {
            o.push_str("(tuple");
            for a in items {
                o.push(' ');
                ast_sexp(a, o)?;
            }
            o.push(')');
        }
        other => return Err(format!("unexpected node {}", util::truncate(&format!("{:?}", other), 80))),
    }
    Ok(())
}

fn parse_file(src: &str) -> Result<ast::ast::File, String> {
    let path = crate::capi::single_root().join("main.gom");
    match runner::guard(|| compiler::pipeline::pipeline::parse_ast_file(&path, src)) {
        Ok(Ok(f)) => Ok(f),
        Ok(Err(e)) => Err(format!("{}: {}", crate::capi::err_stage(&e), crate::capi::err_messages(&e).join("; "))),
        Err(p) => Err(format!("panic at {}", p.site)),
    }
}

/// parse `let vK = <text>;` lines in one function; returns per line the lowered expression's s-expression
fn parse_exprs(texts: &[String]) -> Result<Vec<Result<String, String>>, String> {
    let mut src = String::from("fn main() -> unit {\n");
    for (i, t) in texts.iter().enumerate() {
        src.push_str(&format!("    let v{} = {};\n", i, t));
    }
    src.push_str("    ()\n}\n");
    runner::note_input(&src);
    let f = parse_file(&src)?;
    let mut out = Vec::new();
    for it in &f.toplevels {
        if let ast::ast::Item::Fn(func) = it {
            if let ast::ast::Expr::EBlock { exprs, .. } = &func.body {
                for e in exprs {
                    if let ast::ast::Expr::ELet { value, .. } = e {
                        let mut s = String::new();
                        out.push(ast_sexp(value, &mut s).map(|_| s));
                    }
                }
            }
        }
    }
    if out.len() != texts.len() {
        return Err(format!("{} let statements came back for {} lines", out.len(), texts.len()));
    }
    Ok(out)
}

const ATOMS: [&str; 6] = ["a", "b", "c", "d", "e", "g"];

/// enumerate all trees with exactly n operator nodes; leaves are numbered left to right
fn enumerate(n: usize, memo: &mut Vec<Vec<T>>) {
    // memo[k] = trees with k nodes using placeholder leaves Id("_")
    while memo.len() <= n {
        let k = memo.len();
        let mut out = Vec::new();
        if k == 0 {
            out.push(T::Id("_".into()));
        } else {
            // unary-shaped
            for sub in memo[k - 1].clone() {
                out.push(T::Un(0, Box::new(sub.clone())));
                out.push(T::Un(1, Box::new(sub.clone())));
                out.push(T::Call(Box::new(sub.clone()), vec![]));
                out.push(T::Field(Box::new(sub.clone()), "fld".into()));
                out.push(T::Proj(Box::new(sub), 0));
            }
            // binary-shaped
            for i in 0..k {
                let j = k - 1 - i;
                for l in memo[i].clone() {
                    for r in memo[j].clone() {
                        for op in 0..12u8 {
                            out.push(T::Bin(op, Box::new(l.clone()), Box::new(r.clone())));
                        }
                        out.push(T::Call(Box::new(l.clone()), vec![r.clone()]));
                    }
                }
            }
        }
        memo.push(out);
    }
}

fn number_leaves(t: &mut T, k: &mut usize) {
    match t {
        T::Id(s) if s == "_" => {
            *s = ATOMS[*k % ATOMS.len()].to_string();
            *k += 1;
        }
        T::Un(_, x) | T::Field(x, _) | T::Proj(x, _) => number_leaves(x, k),
        T::Bin(_, l, r) => {
            number_leaves(l, k);
            number_leaves(r, k);
        }
        T::Call(f, args) => {
            number_leaves(f, k);
            for a in args {
                number_leaves(a, k);
            }
        }
        T::Tuple(xs) => {
            for a in xs {
                number_leaves(a, k);
            }
        }
        _ => {}
    }
}

fn random_tree(rng: &mut Rng, budget: &mut i32) -> T {
    if *budget <= 0 || rng.chance(1, 5) {
        return match rng.below(8) {
            0 => T::Int(rng.below(100) as u32),
            1 => T::Str("s".into()),
            2 => T::Bool(rng.bool()),
            _ => T::Id(rng.pick(&ATOMS).to_string()),
        };
    }
    *budget -= 1;
    match rng.below(20) {
        0..=9 => {
            let op = rng.below(12) as u8;
            T::Bin(op, Box::new(random_tree(rng, budget)), Box::new(random_tree(rng, budget)))
        }
        10 | 11 => T::Un(rng.below(2) as u8, Box::new(random_tree(rng, budget))),
        12 | 13 | 14 => {
            let n = rng.below(3);
            // a literal or tuple callee can never be typed and is refused when lowered: not generated
            let mut f = random_tree(rng, budget);
            if matches!(f, T::Int(_) | T::Str(_) | T::Bool(_) | T::Tuple(_)) {
                f = T::Id(rng.pick(&ATOMS).to_string());
            }
            T::Call(Box::new(f), (0..n).map(|_| random_tree(rng, budget)).collect())
        }
        15 | 16 => T::Field(Box::new(random_tree(rng, budget)), rng.pick(&["fld", "x", "len"]).to_string()),
        17 | 18 => T::Proj(Box::new(random_tree(rng, budget)), rng.below(3) as usize),
        _ => {
            let n = 1 + rng.below(3);
            T::Tuple((0..n).map(|_| random_tree(rng, budget)).collect())
        }
    }
}

/// classes of trees where a violation is a recorded (known) limitation are given their own signature
fn tree_class(t: &T) -> &'static str {
    fn has_nonpath_callee(t: &T) -> bool {
        match t {
            T::Call(f, args) => {
                let callee_ok = matches!(**f, T::Id(_) | T::Field(..) | T::Call(..));
                !callee_ok || has_nonpath_callee(f) || args.iter().any(has_nonpath_callee)
            }
            T::Un(_, x) | T::Field(x, _) | T::Proj(x, _) => has_nonpath_callee(x),
            T::Bin(_, l, r) => has_nonpath_callee(l) || has_nonpath_callee(r),
            T::Tuple(xs) => xs.iter().any(has_nonpath_callee),
            _ => false,
        }
    }
    if has_nonpath_callee(t) { "callee-is-operator-expression" } else { "operators" }
}

fn check_batch(c: &mut Case, trees: &[T], workload: &str) {
    for (tight, all) in [(false, false), (true, false), (false, true)] {
        let texts: Vec<String> = trees
            .iter()
            .map(|t| {
                let mut s = String::new();
                print_mode(t, tight, all, &mut s);
                s
            })
            .collect();
        let results = match parse_exprs(&texts) {
            Ok(r) => r,
            Err(_) => {
                // find the offending lines one by one
                texts.iter().map(|t| parse_exprs(std::slice::from_ref(t)).and_then(|mut v| v.pop().unwrap())).collect()
            }
        };
        for ((t, text), got) in trees.iter().zip(texts.iter()).zip(results.iter()) {
            let mut want = String::new();
            sexp(t, &mut want);
            c.count("trees_printed", 1);
            match got {
                Ok(g) if *g == want => c.count("trees_roundtrip_ok", 1),
                Ok(g) => c.violation(
                    format!("C11:misparsed:{}", tree_class(t)),
                    format!("`{}` is read as {} instead of {}", text, g, want),
                    json!({"workload": workload, "text": text, "expected_tree": want, "parsed_tree": g}),
                ),
                Err(m) => c.violation(
                    format!("C11:tree-rejected:{}:{}", tree_class(t), crate::diff::msg_class(m)),
                    format!("`{}` (tree {}) is rejected: {}", text, want, util::truncate(m, 160)),
                    json!({"workload": workload, "text": text, "expected_tree": want, "error": m}),
                ),
            }
        }
    }
    c.count("trees", trees.len() as u64);
}

// ------------------------------------------------------------------------------------------ type expressions

#[derive(Clone, Debug)]
enum Ty {
    Prim(&'static str),
    Named(&'static str),
    Tuple(Vec<Ty>),
    Array(Box<Ty>, usize),
    App(&'static str, Vec<Ty>),
    Func(Vec<Ty>, Box<Ty>),
    Dyn(&'static str),
}

fn ty_print(t: &Ty, o: &mut String) {
    match t {
        Ty::Prim(p) | Ty::Named(p) => o.push_str(p),
        Ty::Dyn(n) => {
            o.push_str("dyn ");
            o.push_str(n);
        }
        Ty::Tuple(ts) => {
            o.push('(');
            for (i, a) in ts.iter().enumerate() {
                if i > 0 {
                    o.push_str(", ");
                }
                ty_print(a, o);
            }
            o.push(')');
        }
        Ty::Array(e, n) => {
            o.push('[');
            ty_print(e, o);
            o.push_str(&format!("; {}]", n));
        }
        Ty::App(n, args) => {
            o.push_str(n);
            o.push('[');
            for (i, a) in args.iter().enumerate() {
                if i > 0 {
                    o.push_str(", ");
                }
                ty_print(a, o);
            }
            o.push(']');
        }
        // the arrow is right-associative: a function result needs no parentheses, a function parameter sits in
        // the parameter list's own parentheses
        Ty::Func(ps, r) => {
            o.push('(');
            for (i, a) in ps.iter().enumerate() {
                if i > 0 {
                    o.push_str(", ");
                }
                ty_print(a, o);
            }
            o.push_str(") -> ");
            ty_print(r, o);
        }
    }
}

fn ty_sexp(t: &Ty, o: &mut String) {
    match t {
        Ty::Prim(p) | Ty::Named(p) => o.push_str(p),
        Ty::Dyn(n) => o.push_str(&format!("(dyn {})", n)),
        Ty::Tuple(ts) => {
            o.push_str("(tuple");
            for a in ts {
                o.push(' ');
                ty_sexp(a, o);
            }
            o.push(')');
        }
        Ty::Array(e, n) => {
            o.push_str(&format!("(array {} ", n));
            ty_sexp(e, o);
            o.push(')');
        }
        Ty::App(n, args) => {
            o.push_str(&format!("(app {}", n));
            for a in args {
                o.push(' ');
                ty_sexp(a, o);
            }
            o.push(')');
        }
        Ty::Func(ps, r) => {
            o.push_str("(fn (");
            for (i, a) in ps.iter().enumerate() {
                if i > 0 {
                    o.push(' ');
                }
                ty_sexp(a, o);
            }
            o.push_str(") ");
            ty_sexp(r, o);
            o.push(')');
        }
    }
}

fn ast_ty_sexp(t: &ast::ast::TypeExpr, o: &mut String) {
    use ast::ast::TypeExpr as T;
    match t {
        T::TUnit => o.push_str("unit"),
        T::TBool => o.push_str("bool"),
        T::TInt8 => o.push_str("int8"),
        T::TInt16 => o.push_str("int16"),
        T::TInt32 => o.push_str("int32"),
        T::TInt64 => o.push_str("int64"),
        T::TUint8 => o.push_str("uint8"),
        T::TUint16 => o.push_str("uint16"),
        T::TUint32 => o.push_str("uint32"),
        T::TUint64 => o.push_str("uint64"),
        T::TFloat32 => o.push_str("float32"),
        T::TFloat64 => o.push_str("float64"),
        T::TString => o.push_str("string"),
        T::TTuple { typs } => {
            o.push_str("(tuple");
            for a in typs {
                o.push(' ');
                ast_ty_sexp(a, o);
            }
            o.push(')');
        }
        T::TCon { path } => o.push_str(&path.display()),
        T::TDyn { trait_path } => o.push_str(&format!("(dyn {})", trait_path.display())),
        T::TApp { ty, args } => {
            o.push_str("(app ");
            ast_ty_sexp(ty, o);
            for a in args {
                o.push(' ');
                ast_ty_sexp(a, o);
            }
            o.push(')');
        }
        T::TArray { len, elem } => {
            o.push_str(&format!("(array {} ", len));
            ast_ty_sexp(elem, o);
            o.push(')');
        }
        T::TFunc { params, ret_ty } => {
            o.push_str("(fn (");
            for (i, a) in params.iter().enumerate() {
                if i > 0 {
                    o.push(' ');
                }
                ast_ty_sexp(a, o);
            }
            o.push_str(") ");
            ast_ty_sexp(ret_ty, o);
            o.push(')');
        }
    }
}

fn random_ty(rng: &mut Rng, depth: u32) -> Ty {
    if depth == 0 || rng.chance(1, 4) {
        return match rng.below(7) {
            0 => Ty::Prim("int32"),
            1 => Ty::Prim("bool"),
            2 => Ty::Prim("string"),
            3 => Ty::Prim("unit"),
            4 => Ty::Prim("uint8"),
            5 => Ty::Named("Pt"),
            _ => Ty::Dyn("Sh"),
        };
    }
    match rng.below(9) {
        0 | 1 | 2 | 3 => {
            let n = rng.below(3);
            Ty::Func((0..n).map(|_| random_ty(rng, depth - 1)).collect(), Box::new(random_ty(rng, depth - 1)))
        }
        4 => Ty::Tuple((0..2 + rng.below(2)).map(|_| random_ty(rng, depth - 1)).collect()),
        5 => Ty::Array(Box::new(random_ty(rng, depth - 1)), 1 + rng.below(3)),
        6 => Ty::App("Vec", vec![random_ty(rng, depth - 1)]),
        7 => Ty::App("Ref", vec![random_ty(rng, depth - 1)]),
        _ => Ty::App("Bx", vec![random_ty(rng, depth - 1), random_ty(rng, depth - 1)]),
    }
}

/// each type is written in three positions (parameter, result, let annotation) of one file
fn check_types(c: &mut Case, types: &[Ty]) {
    let mut src = String::from("struct Pt { x: int32 }\nstruct Bx[A, B] { a: A, b: B }\ntrait Sh { fn sh(Self) -> int32; }\n");
    let texts: Vec<String> = types
        .iter()
        .map(|t| {
            let mut s = String::new();
            ty_print(t, &mut s);
            s
        })
        .collect();
    for (i, t) in texts.iter().enumerate() {
        src.push_str(&format!("fn p{}(x: {}) -> unit {{ () }}\n", i, t));
    }
    runner::note_input(&src);
    let f = match parse_file(&src) {
        Ok(f) => f,
        Err(m) => {
            c.violation(format!("C11:type-expression-rejected:{}", crate::diff::msg_class(&m)), format!("a file of type expressions does not parse: {}", util::truncate(&m, 160)), json!({"source": src}));
            return;
        }
    };
    let mut k = 0usize;
    for it in &f.toplevels {
        if let ast::ast::Item::Fn(func) = it {
            if let Some((_, pty)) = func.params.first() {
                if k >= types.len() {
                    break;
                }
                let mut got = String::new();
                ast_ty_sexp(pty, &mut got);
                let mut want = String::new();
                ty_sexp(&types[k], &mut want);
                if got == want {
                    c.count("type_expressions_roundtrip_ok", 1);
                    c.nontrivial(hash_str(&want));
                } else {
                    let arrows = texts[k].matches("->").count();
                    c.violation(
                        format!("C11:type-misparsed:{}", if arrows >= 2 { "several-arrows" } else { "other" }),
                        format!("type `{}` is read as {} instead of {}", texts[k], got, want),
                        json!({"text": texts[k], "expected_tree": want, "parsed_tree": got}),
                    );
                }
                k += 1;
            }
        }
    }
    c.count("type_expressions", types.len() as u64);
}

// ------------------------------------------------------------------------------------------ whole programs

/// Debug rendering of the lowered file with the node pointers removed
fn ast_shape(f: &ast::ast::File) -> String {
    let s = format!("{:?}", f);
    let mut out = String::with_capacity(s.len());
    let b = s.as_bytes();
    let mut i = 0;
    while i < b.len() {
        let rest = &s[i..];
        let hit = if rest.starts_with("astptr: ") { Some(8) } else if rest.starts_with("ast: ") { Some(5) } else { None };
        if let Some(skip) = hit {
            // skip `Name { ... }` with balanced braces
            let mut j = i + skip;
            let mut depth = 0i32;
            while j < b.len() {
                match b[j] {
                    b'{' => depth += 1,
                    b'}' => {
                        depth -= 1;
                        if depth == 0 {
                            j += 1;
                            break;
                        }
                    }
                    b',' if depth == 0 => break,
                    _ => {}
                }
                j += 1;
            }
            out.push_str("@");
            i = j;
        } else {
            let ch = rest.chars().next().unwrap();
            out.push(ch);
            i += ch.len_utf8();
        }
    }
    out
}

/// re-join the tokens of `src` with random trivia (never removing a separation that was there)
fn perturb_trivia(src: &str, rng: &mut Rng) -> String {
    let toks = lexer::lex(src);
    let mut out = String::new();
    let mut prev_multiline = false;
    for t in toks.iter() {
        if t.kind.is_trivia() {
            if prev_multiline {
                // the line break ends the multi-line literal: keep it as written
                out.push_str(t.text);
                continue;
            }
            if t.kind == lexer::TokenKind::Comment {
                out.push_str(t.text);
                continue;
            }
            match rng.below(6) {
                0 => out.push_str(t.text),
                1 => out.push_str("\n\n\t  "),
                2 => out.push_str(" // note: x + y * (z)\n"),
                3 => out.push_str("  \t "),
                4 => out.push_str("\r\n"),
                _ => out.push_str(" //\n   // second \"comment\" line\n "),
            }
            continue;
        }
        // optional trivia in front of a token that had none
        if !out.is_empty() && !prev_multiline && !out.ends_with(|c: char| c.is_whitespace()) && rng.chance(1, 4) {
            out.push_str(match rng.below(3) {
                0 => " ",
                1 => "\n",
                _ => " // c\n",
            });
        }
        out.push_str(t.text);
        prev_multiline = t.kind == lexer::TokenKind::MultilineStr;
    }
    out
}

// ------------------------------------------------------------------------------------------ literals

/// one character of a string literal: (source spelling, denoted characters)
fn spell_char(ch: char, rng: &mut Rng) -> String {
    let short = match ch {
        '"' => Some("\\\""),
        '\\' => Some("\\\\"),
        '\n' => Some("\\n"),
        '\r' => Some("\\r"),
        '\t' => Some("\\t"),
        '\u{8}' => Some("\\b"),
        '\u{c}' => Some("\\f"),
        _ => None,
    };
    let must_escape = (ch as u32) < 0x20 || ch == '"' || ch == '\\';
    let mode = rng.below(4);
    if let Some(s) = short {
        if mode < 3 || (ch as u32) > 0xFFFF {
            return s.to_string();
        }
    }
    if ch == '/' && mode == 0 {
        return "\\/".into();
    }
    if must_escape || mode == 3 {
        let v = ch as u32;
        if v <= 0xFFFF {
            let hex = if rng.bool() { format!("{:04x}", v) } else { format!("{:04X}", v) };
            return format!("\\u{}", hex);
        }
        let w = v - 0x10000;
        return format!("\\u{:04x}\\u{:04X}", 0xD800 + (w >> 10), 0xDC00 + (w & 0x3FF));
    }
    ch.to_string()
}

const HOSTILE: &[char] = &[
    'a', 'Z', '0', ' ', '"', '\\', '\n', '\t', '\r', '\u{8}', '\u{c}', '/', '\'', '%', '{', '}', '$', '`', 'é', 'ß', '中', '\u{1F600}', '\u{10000}', '\u{103FF}', '\u{10400}', '\u{1F3FF}', '\u{10FFFF}', '\u{10FC00}', '\u{FFFF}', '\u{D7FF}', '\u{E000}', '\u{7f}', '\u{1}', '\u{1f}', '\u{a0}', '\u{2028}', 'n', 'u', 'x', '#',
    // C1 controls and other characters a Go printer may want to escape (a one-byte `\x85` is not U+0085)
    '\u{80}', '\u{85}', '\u{9f}', '\u{ad}', '\u{feff}', '\u{200b}', '\u{2029}', '\u{e}', '\u{fffd}',
];

fn go_println_bytes(s: &str) -> String {
    format!("{}\n", s)
}

fn string_literals(c: &mut Case, rng: &mut Rng, n: usize, label: &str) {
    // each literal: printed alone, concatenated, and matched against a differently spelled copy
    let mut src = String::from("fn main() -> unit {\n");
    let mut expected = String::new();
    let mut contents = Vec::new();
    for k in 0..n {
        let len = rng.below(7) as usize;
        let content: String = (0..len).map(|_| rng.pick(HOSTILE)).collect();
        let sp1: String = content.chars().map(|ch| spell_char(ch, rng)).collect();
        let sp2: String = content.chars().map(|ch| spell_char(ch, rng)).collect();
        src.push_str(&format!("    let s{k} = \"{sp1}\";\n    let _ = string_println(\"[\" + s{k} + \"]\");\n    let _ = string_println(match s{k} {{ \"{sp2}\" => \"same\", _ => \"differs\" }});\n"));
        expected.push_str(&go_println_bytes(&format!("[{}]", content)));
        expected.push_str("same\n");
        contents.push((content, sp1, sp2));
    }
    src.push_str("    ()\n}\n");
    if let Some((out, term, stderr)) = exec::run_source(c, "C11", label, &src, 5_000_000) {
        if !matches!(term, Term::Ok) {
            c.violation("C11:string-literal-program-fails".to_string(), format!("program of string literals fails: {}", util::truncate(&stderr, 200)), json!({"label": label, "source": src}));
            return;
        }
        if out != expected {
            // locate the first differing literal
            let at = out.bytes().zip(expected.bytes()).position(|(a, b)| a != b).unwrap_or(out.len().min(expected.len()));
            let mut acc = 0usize;
            let mut which = 0usize;
            for (k, (content, _, _)) in contents.iter().enumerate() {
                acc += content.len() + 3 + 5;
                if acc > at {
                    which = k;
                    break;
                }
            }
            let (content, sp1, sp2) = &contents[which.min(contents.len() - 1)];
            c.violation(
                "C11:string-literal-denotes-other-characters".to_string(),
                format!("string literal \"{}\" (pattern spelling \"{}\") does not denote {:?} at run time", sp1, sp2, content),
                json!({"label": label, "literal": sp1, "pattern": sp2, "denotes": content, "source": src, "expected_stdout": expected, "got_stdout": out}),
            );
            return;
        }
        c.count("string_literals_checked", n as u64);
        for (content, sp1, _) in &contents {
            c.nontrivial(hash_str(&format!("{}|{}", content, sp1)));
        }
    }
}

fn multiline_literals(c: &mut Case, rng: &mut Rng, n: usize, label: &str) {
    const LINE_ALPHA: &[&str] = &["a", "B", " ", "  ", "\"", "\\", "\\\\", "\\n", "\t", "'", "//", "é", "中", "{", "}", "%d", ";", ",", "x"];
    let mut src = String::from("fn main() -> unit {\n");
    let mut expected = String::new();
    let mut lits = Vec::new();
    for k in 0..n {
        let nlines = 2 + rng.below(4) as usize;
        let lines: Vec<String> = (0..nlines)
            .map(|_| {
                let m = rng.below(6);
                (0..m).map(|_| rng.pick(LINE_ALPHA)).collect::<String>()
            })
            .collect();
        let mut lit = String::new();
        for (i, l) in lines.iter().enumerate() {
            if i > 0 {
                lit.push_str(rng.pick(&["        ", "\t", "", "    \t  "]));
            }
            lit.push_str("\\\\");
            lit.push_str(l);
            lit.push('\n');
        }
        src.push_str(&format!("    let m{k} = {lit}    ;\n    let _ = string_println(\"<\" + m{k} + \">\");\n"));
        expected.push_str(&go_println_bytes(&format!("<{}>", lines.join("\n"))));
        lits.push((lit, lines));
    }
    src.push_str("    ()\n}\n");
    if let Some((out, term, stderr)) = exec::run_source(c, "C11", label, &src, 5_000_000) {
        if !matches!(term, Term::Ok) {
            c.violation("C11:multiline-literal-program-fails".to_string(), format!("program of multi-line literals fails: {}", util::truncate(&stderr, 200)), json!({"label": label, "source": src}));
            return;
        }
        if out != expected {
            c.violation(
                "C11:multiline-literal-denotes-other-characters".to_string(),
                "a multi-line string literal does not denote its lines joined by newlines".to_string(),
                json!({"label": label, "source": src, "expected_stdout": expected, "got_stdout": out}),
            );
            return;
        }
        c.count("multiline_literals_checked", n as u64);
        for (lit, _) in &lits {
            c.nontrivial(hash_str(lit));
        }
    }
}

fn number_literals(c: &mut Case, rng: &mut Rng, label: &str) {
    // integer spellings with leading zeros / suffixes; float spellings with leading / trailing zeros
    let mut src = String::from("fn main() -> unit {\n");
    let mut expected = String::new();
    let mut n = 0u64;
    for _ in 0..40 {
        let v = match rng.below(4) {
            0 => rng.below(10),
            1 => rng.below(1000),
            2 => 8 + rng.below(2) * 70,
            _ => rng.below(2_000_000_000),
        };
        let zeros = "0".repeat(rng.below(4) as usize);
        let (suffix, conv) = *rng.pick_ref(&[("", "int32_to_string"), ("i32", "int32_to_string"), ("i64", "int64_to_string"), ("u32", "uint32_to_string"), ("u64", "uint64_to_string")]);
        src.push_str(&format!("    let _ = string_println({conv}({zeros}{v}{suffix}));\n"));
        expected.push_str(&format!("{}\n", v));
        n += 1;
    }
    for _ in 0..40 {
        let ip = rng.below(1000);
        let frac_digits = 1 + rng.below(6) as usize;
        let frac: String = (0..frac_digits).map(|_| char::from(b'0' + rng.below(10) as u8)).collect();
        let zeros = "0".repeat(rng.below(3) as usize);
        let tz = "0".repeat(rng.below(3) as usize);
        let text = format!("{zeros}{ip}.{frac}{tz}");
        let val: f64 = format!("{ip}.{frac}").parse().unwrap();
        // compare against the same value written canonically: equality decides, not formatting
        let canon = crate::gl::ast::float_src(false, val);
        src.push_str(&format!("    let _ = string_println(bool_to_string({text} == {canon}) + bool_to_string({text}f64 == {canon}));\n"));
        expected.push_str("truetrue\n");
        n += 1;
    }
    src.push_str("    ()\n}\n");
    if let Some((out, term, stderr)) = exec::run_source(c, "C11", label, &src, 5_000_000) {
        if !matches!(term, Term::Ok) {
            c.violation("C11:number-literal-program-fails".to_string(), format!("program of number literals fails: {}", util::truncate(&stderr, 200)), json!({"label": label, "source": src}));
            return;
        }
        if out != expected {
            let bad = out.lines().zip(expected.lines()).position(|(a, b)| a != b).unwrap_or(0);
            c.violation(
                "C11:number-literal-denotes-other-value".to_string(),
                format!("number literal in `{}` denotes another value: prints {:?}, expected {:?}", src.lines().nth(bad + 1).unwrap_or("").trim(), out.lines().nth(bad), expected.lines().nth(bad)),
                json!({"label": label, "source": src, "expected_stdout": expected, "got_stdout": out}),
            );
            return;
        }
        c.count("number_literals_checked", n);
    }
}

// ------------------------------------------------------------------------------------------ driver

fn run(ctx: &mut Ctx) {
    let tier = ctx.tier;
    let seed = ctx.seed;
    if let Some(v) = ctx.replay_input.clone() {
        if let Some(text) = v.get("text").and_then(|t| t.as_str()) {
            println!("replay: parsing `{}`", text);
            println!("{:?}", parse_exprs(&[text.to_string()]));
        }
        return;
    }
    // A. exhaustive operator trees
    let max_nodes = tier.pick(3usize, 4usize);
    let mut memo: Vec<Vec<T>> = Vec::new();
    enumerate(max_nodes, &mut memo);
    let mut batch_no = 0u64;
    for n in 1..=max_nodes {
        let all = &memo[n];
        if ctx.shard == 0 {
            ctx.add_stat(&format!("exhaustive:trees_with_{}_operator_nodes", n), all.len() as u64);
        }
        for chunk in all.chunks(200) {
            batch_no += 1;
            if !ctx.mine(batch_no) {
                continue;
            }
            let trees: Vec<T> = chunk
                .iter()
                .map(|t| {
                    let mut t = t.clone();
                    let mut k = 0usize;
                    number_leaves(&mut t, &mut k);
                    t
                })
                .collect();
            let label = format!("trees/{}/{}", n, batch_no);
            ctx.case(&label, |c| {
                check_batch(c, &trees, "exhaustive operator trees");
                for t in &trees {
                    let mut s = String::new();
                    sexp(t, &mut s);
                    c.nontrivial(hash_str(&s));
                }
                if batch_no % 97 == 1 {
                    let mut s = String::new();
                    print(&trees[trees.len() / 2], false, &mut s);
                    let mut w = String::new();
                    sexp(&trees[trees.len() / 2], &mut w);
                    c.sample(json!({"workload": format!("exhaustive trees, {} nodes", n), "text": s, "tree": w}));
                }
            });
        }
    }
    // random larger trees
    let nrand = tier.pickn(4_000u64, 120_000u64) / ctx.nshards as u64 + 1;
    let mut j = 0u64;
    while j < nrand {
        let mut trees = Vec::new();
        for k in 0..100 {
            let mut rng = Rng::keyed(seed, "c11-tree", ctx.shard as u64, j + k);
            let mut budget = 2 + rng.below(8) as i32;
            trees.push(random_tree(&mut rng, &mut budget));
        }
        let label = format!("random-trees/{}/{}", ctx.shard, j);
        ctx.case(&label, |c| {
            check_batch(c, &trees, "random trees");
            c.count("random_trees", trees.len() as u64);
            if j == 0 {
                let mut s = String::new();
                print(&trees[0], true, &mut s);
                c.sample(json!({"workload": "random trees (tight print)", "text": s}));
            }
        });
        j += 100;
    }
    // A2. type expressions (arrow associativity, nesting of tuples / arrays / applications / function types)
    let nty = tier.pickn(40u64, 1_200u64) / ctx.nshards as u64 + 1;
    for j in 0..nty {
        let mut rng = Rng::keyed(seed, "c11-ty", ctx.shard as u64, j);
        let mut types: Vec<Ty> = (0..40).map(|_| random_ty(&mut rng, 3)).collect();
        // the curried shapes explicitly
        types.push(Ty::Func(vec![Ty::Prim("int32")], Box::new(Ty::Func(vec![Ty::Prim("bool")], Box::new(Ty::Prim("string"))))));
        types.push(Ty::Func(vec![Ty::Func(vec![Ty::Prim("int32")], Box::new(Ty::Prim("bool")))], Box::new(Ty::Prim("string"))));
        types.push(Ty::Func(vec![], Box::new(Ty::Func(vec![], Box::new(Ty::Func(vec![Ty::Prim("unit")], Box::new(Ty::Prim("int32"))))))));
        let label = format!("types/{}/{}", ctx.shard, j);
        ctx.case(&label, |c| {
            check_types(c, &types);
            if j == 0 {
                let mut s = String::new();
                ty_print(&types[40], &mut s);
                c.sample(json!({"workload": "type expressions", "text": s}));
            }
        });
    }
    // B. whole programs: min parens / max parens / trivia
    let nprog = tier.pickn(160u64, 3_200u64) / ctx.nshards as u64 + 1;
    for j in 0..nprog {
        let mut rng = Rng::keyed(seed, "c11-prog", ctx.shard as u64, j);
        let mut f = Features::base();
        f.n_fns = 3;
        f.ident_mode = rng.below(3) as u8;
        let (prog, _) = generate(&mut rng, f);
        let label = format!("programs/{}/{}", ctx.shard, j);
        ctx.case(&label, |c| {
            let min = print_program(&prog, PrintOpts { max_parens: false });
            let max = print_program(&prog, PrintOpts { max_parens: true });
            runner::note_input(&min);
            let base = match parse_file(&min) {
                Ok(f) => ast_shape(&f),
                Err(m) => {
                    c.violation(format!("C11:generated-program-rejected:{}", crate::diff::msg_class(&m)), format!("a generated program does not parse: {}", util::truncate(&m, 160)), json!({"label": label, "source": min}));
                    return;
                }
            };
            let mut variants: Vec<(&str, String)> = vec![("max-parens", max)];
            for _ in 0..3 {
                variants.push(("trivia", perturb_trivia(&min, &mut rng)));
            }
            for (kind, text) in variants {
                runner::note_input(&text);
                match parse_file(&text) {
                    Ok(f) => {
                        let sh = ast_shape(&f);
                        if sh != base {
                            let at = sh.bytes().zip(base.bytes()).position(|(a, b)| a != b).unwrap_or(0);
                            c.violation(
                                format!("C11:variant-parses-differently:{}", kind),
                                format!("the {} variant of a program lowers to another tree (first difference near `{}`)", kind, util::truncate(&base[at.saturating_sub(60)..(at + 60).min(base.len())].replace('\n', " "), 130)),
                                json!({"label": label, "variant": kind, "minimal": min, "variant_text": text}),
                            );
                            return;
                        }
                        c.count(&format!("variants_same_ast:{}", kind), 1);
                    }
                    Err(m) => {
                        c.violation(format!("C11:variant-rejected:{}:{}", kind, crate::diff::msg_class(&m)), format!("the {} variant of an accepted program is rejected: {}", kind, util::truncate(&m, 160)), json!({"label": label, "variant": kind, "minimal": min, "variant_text": text}));
                        return;
                    }
                }
            }
            c.count("programs_same_ast", 1);
            c.nontrivial(hash_str(&min));
            if j == 0 {
                c.sample(json!({"workload": "program variants", "bytes": min.len(), "variants": 4}));
            }
        });
    }
    // C. literals
    let nlit = tier.pick(2u64, 26u64);
    for j in 0..nlit {
        let mut rng = Rng::keyed(seed, "c11-lit", ctx.shard as u64, j);
        let label = format!("strings/{}/{}", ctx.shard, j);
        ctx.case(&label, |c| {
            string_literals(c, &mut rng, 15, &label);
            if j == 0 {
                c.sample(json!({"workload": "string literals", "alphabet": HOSTILE.iter().map(|ch| format!("{:?}", ch)).collect::<Vec<_>>().join(" ")}));
            }
        });
        let label = format!("multiline/{}/{}", ctx.shard, j);
        ctx.case(&label, |c| {
            multiline_literals(c, &mut rng, 6, &label);
            if j == 0 {
                c.sample(json!({"workload": "multi-line literals", "per_program": 6}));
            }
        });
        if j % 4 == 0 {
            let label = format!("numbers/{}/{}", ctx.shard, j);
            ctx.case(&label, |c| number_literals(c, &mut rng, &label));
        }
    }
    crate::capi::cleanup_scratch();
}
