//! C05: names resolve lexically - innermost binding wins, bindings never leak.
//! Scope-torture programs: every binder kind (parameter, let, tuple let, match-arm variable, enum-arm
//! variable, closure parameter) binds one of three names to a unique constant; uses print the value, which
//! identifies the binder the use resolved to. Expected output comes from refsem (environment stack).
//! Negative twins: a use placed after the end of its binder's scope / before its introduction must be
//! rejected with an unresolved-name diagnostic.
use crate::diff::{self, DiffOpts, Outcome};
use crate::gl::ast::*;
use crate::gl::pgen::{Features, generate};
use crate::runner::{self, Ctx, PropSpec};
use crate::util::{self, Rng, hash_str};
use crate::capi;
use serde_json::json;

pub static SPEC: PropSpec = PropSpec {
    id: "C05",
    level: "exploration",
    rule: "programs: scope-torture functions over the names x, y, z built from 13 constructs (integer-literal match with a catch-all arm that binds or ignores the value, struct patterns in a let and in a match arm, use, let, let referring to the shadowed binding, tuple let, match arm with tuple pattern, match arms with enum patterns, closure with parameter called later, if/else blocks, loop body, nested block) nested up to depth 4, every binder bound to a unique constant and every use printed; plus callee-shadowing functions (locals - function-typed parameters, let-bound closures and function values, tuple-pattern / match-arm variables, closure parameters - named like the top-level functions f and g, used in call position and as values at every nesting; each function value adds its own constant); plus generated programs with a three-name identifier pool. negative: the same programs with one extra use of a name placed (a) after the construct that bound it ended, (b) before its let, (c) in the sibling arm / branch - each must be rejected with an unresolved-name diagnostic naming it. non-trivial: accepted programs whose uses resolved to >= 5 distinct binders; distinct by (construct nest path) hash",
    eval_counter: "uses_checked",
    assumptions: &["relative to refsem's environment-stack semantics and gomini"],
    crash_is_violation: false,
    stack_mib: 256,
    case_cpu_s: 120,
    shards: 0,
    run,
    floors: &[("uses_checked", 5_000, 150_000), ("programs_agree", 150, 4_000), ("leaks_rejected", 150, 4_000), ("random_programs_agree", 60, 1_500), ("callee_programs_agree", 100, 2_500), ("calls_of_locals_named_like_functions", 2_000, 50_000), ("two_package_programs_agree", 60, 1_500), ("two_package_leaks_rejected", 20, 500)],
    finish: None,
};

fn i(v: i128) -> Expr {
    Expr::Int(IntTy::I32, v, false)
}
fn var(x: &str) -> Expr {
    Expr::Var(x.into())
}
fn bi(f: &str, args: Vec<Expr>) -> Expr {
    Expr::Builtin(f.into(), args)
}
fn add(a: Expr, b: Expr) -> Expr {
    Expr::Binary(BinOp::Add, Box::new(a), Box::new(b))
}
fn let_(n: &str, e: Expr) -> Stmt {
    Stmt::Let(Pat::Var(n.into()), None, e)
}
fn discard(e: Expr) -> Stmt {
    Stmt::Let(Pat::Wild, None, e)
}
fn show(tag: usize, name: &str) -> Stmt {
    discard(bi("string_println", vec![add(Expr::Str(format!("u{}:{}=", tag, name)), bi("int32_to_string", vec![var(name)]))]))
}

const NAMES: [&str; 3] = ["x", "y", "z"];

struct G<'a> {
    rng: &'a mut Rng,
    next_const: i128,
    next_use: usize,
    uses: u64,
    path_hash: u64,
    /// when set: the name `q` is bound inside exactly one inner construct and used illegally at the recorded place
    leak: Option<LeakPlan>,
    leak_done: bool,
    leak_kind: &'static str,
    constructs: u32,
    /// an after-scope binder was just planted: the illegal use follows the enclosing top-level construct
    pending_after: bool,
}

#[derive(Clone, Copy, PartialEq)]
enum LeakPlan {
    AfterScope,
    BeforeLet,
    Sibling,
}

impl<'a> G<'a> {
    fn konst(&mut self) -> i128 {
        self.next_const += 1;
        self.next_const
    }
    fn use_of(&mut self, scope: &[&'static str]) -> Stmt {
        let n = *self.rng.pick_ref(scope);
        self.next_use += 1;
        self.uses += 1;
        show(self.next_use, n)
    }
    fn name(&mut self) -> &'static str {
        *self.rng.pick_ref(&NAMES)
    }

    /// statements of a block; `scope` = names visible at entry (all int32)
    fn block(&mut self, depth: u32, scope: &[&'static str], nstmts: usize) -> Vec<Stmt> {
        let mut sc: Vec<&'static str> = scope.to_vec();
        let mut out = Vec::new();
        for _ in 0..nstmts {
            let k = if depth == 0 { self.rng.below(5) } else { self.rng.below(14) };
            // 4 (at depth 0) and 11, 12: struct patterns
            let k = if depth == 0 && k == 4 { 11 } else { k };
            self.path_hash = self.path_hash.wrapping_mul(1099511628211).wrapping_add(k as u64 + 17 * depth as u64);
            self.constructs += 1;
            match k {
                0 | 1 => out.push(self.use_of(&sc)),
                2 => {
                    let n = self.name();
                    let c = self.konst();
                    // `let q` use-before-let leak
                    if self.leak == Some(LeakPlan::BeforeLet) && !self.leak_done && self.rng.chance(1, 3) {
                        self.leak_done = true;
                        self.leak_kind = "use-before-let";
                        out.push(show(9000, "q"));
                        out.push(let_("q", i(c)));
                        out.push(show(9001, "q"));
                        continue;
                    }
                    out.push(let_(n, i(c)));
                    if !sc.contains(&n) {
                        sc.push(n);
                    }
                }
                3 => {
                    // let n = <shadowed m> + c : the right-hand side sees the previous binding
                    let n = self.name();
                    let m = *self.rng.pick_ref(&sc);
                    let c = self.konst() * 1000;
                    out.push(let_(n, add(var(m), i(c))));
                    if !sc.contains(&n) {
                        sc.push(n);
                    }
                }
                4 => {
                    let a = self.name();
                    let mut b = self.name();
                    if a == b {
                        b = NAMES[(NAMES.iter().position(|n| *n == a).unwrap() + 1) % 3];
                    }
                    let m = *self.rng.pick_ref(&sc);
                    let c = self.konst();
                    out.push(Stmt::Let(Pat::Tuple(vec![Pat::Var(a.into()), Pat::Var(b.into())]), None, Expr::Tuple(vec![i(c), add(var(m), i(500_000))])));
                    for n in [a, b] {
                        if !sc.contains(&n) {
                            sc.push(n);
                        }
                    }
                }
                5 => {
                    // match arm binding two names
                    let a = self.name();
                    let mut b = self.name();
                    if a == b {
                        b = NAMES[(NAMES.iter().position(|n| *n == a).unwrap() + 2) % 3];
                    }
                    let (c1, c2) = (self.konst(), self.konst());
                    let mut inner = sc.clone();
                    for n in [a, b] {
                        if !inner.contains(&n) {
                            inner.push(n);
                        }
                    }
                    let body = self.inner_block(depth - 1, &inner, &mut out, &sc);
                    out.push(discard(Expr::Match(Box::new(Expr::Tuple(vec![i(c1), i(c2)])), vec![(Pat::Tuple(vec![Pat::Var(a.into()), Pat::Var(b.into())]), body)])));
                }
                6 => {
                    // two enum arms binding the same name differently
                    let a = self.name();
                    let (c1, c2) = (self.konst(), self.konst());
                    let mut inner = sc.clone();
                    if !inner.contains(&a) {
                        inner.push(a);
                    }
                    let which = self.rng.bool();
                    let scrut = if which {
                        Expr::Constr { enum_name: "Sc".into(), variant: "P".into(), ty: Ty::Enum("Sc".into(), vec![]), args: vec![i(c1), i(c2)], qualified: true }
                    } else {
                        Expr::Constr { enum_name: "Sc".into(), variant: "Q".into(), ty: Ty::Enum("Sc".into(), vec![]), args: vec![i(c1)], qualified: true }
                    };
                    let b1 = self.inner_block(depth - 1, &inner, &mut out, &sc);
                    let sibling_leak = self.leak == Some(LeakPlan::Sibling) && !self.leak_done && self.rng.chance(1, 2);
                    // the second arm may bind nothing: its uses of the name then mean the enclosing binder again
                    let second_binds = self.rng.bool();
                    let b2 = if sibling_leak {
                        // first arm binds q (pattern), second arm uses it
                        self.leak_done = true;
                        self.leak_kind = "sibling-arm";
                        Expr::Block(vec![show(9002, "q")], Some(Box::new(Expr::Unit)))
                    } else if second_binds {
                        self.inner_block(depth - 1, &inner, &mut out, &sc)
                    } else {
                        let outer = sc.clone();
                        self.inner_block(depth - 1, &outer, &mut out, &sc)
                    };
                    let p1 = if sibling_leak {
                        Pat::Constr { enum_name: "Sc".into(), variant: "P".into(), args: vec![Pat::Var(a.into()), Pat::Var("q".into())], qualified: true }
                    } else {
                        Pat::Constr { enum_name: "Sc".into(), variant: "P".into(), args: vec![Pat::Var(a.into()), Pat::Wild], qualified: true }
                    };
                    out.push(discard(Expr::Match(Box::new(scrut), vec![(p1, b1), (Pat::Constr { enum_name: "Sc".into(), variant: "Q".into(), args: vec![if second_binds || sibling_leak { Pat::Var(a.into()) } else { Pat::Wild }], qualified: true }, b2)])));
                }
                7 => {
                    // closure with a parameter; called after more binders were introduced
                    let p = self.name();
                    let mut inner = sc.clone();
                    if !inner.contains(&p) {
                        inner.push(p);
                    }
                    let body = self.inner_block(depth - 1, &inner, &mut out, &sc);
                    let fname = format!("clo{}", self.konst());
                    out.push(let_(&fname, Expr::Closure { params: vec![(p.to_string(), Some(I32))], body: Box::new(body) }));
                    // shadow something between creation and call: the closure must keep what it saw
                    let n = self.name();
                    let c = self.konst();
                    out.push(let_(n, i(c)));
                    if !sc.contains(&n) {
                        sc.push(n);
                    }
                    let arg = self.konst();
                    out.push(discard(Expr::CallValue(Box::new(var(&fname)), vec![i(arg)])));
                }
                8 => {
                    let m = *self.rng.pick_ref(&sc);
                    let t = self.inner_block(depth - 1, &sc.clone(), &mut out, &sc);
                    let f = self.inner_block(depth - 1, &sc.clone(), &mut out, &sc);
                    out.push(discard(Expr::If(Box::new(Expr::Binary(BinOp::Gt, Box::new(var(m)), Box::new(i(self.rng.range(0, 60) as i128)))), Box::new(t), Box::new(f))));
                }
                9 => {
                    // loop running twice; the body's binders are fresh per iteration and do not leak
                    let cnt = format!("cnt{}", self.konst());
                    let mut stmts = self.block(depth - 1, &sc, 3);
                    stmts.push(discard(bi("ref_set", vec![var(&cnt), add(bi("ref_get", vec![var(&cnt)]), i(1))])));
                    out.push(let_(&cnt, bi("ref", vec![i(0)])));
                    out.push(Stmt::Expr(Expr::While(Box::new(Expr::Binary(BinOp::Lt, Box::new(bi("ref_get", vec![var(&cnt)])), Box::new(i(2)))), Box::new(Expr::Block(stmts, None)))));
                }
                11 => {
                    // struct pattern in a let: both binders may shadow visible names
                    let a = self.name();
                    let mut b = self.name();
                    if a == b {
                        b = NAMES[(NAMES.iter().position(|n| *n == a).unwrap() + 1) % 3];
                    }
                    let m = *self.rng.pick_ref(&sc);
                    let c = self.konst();
                    let lit = Expr::StructLit { name: "Sp".into(), ty: Ty::Struct("Sp".into(), vec![]), fields: vec![("p".into(), i(c)), ("q".into(), add(var(m), i(700_000)))] };
                    out.push(Stmt::Let(Pat::Struct { name: "Sp".into(), fields: vec![("p".into(), Pat::Var(a.into())), ("q".into(), Pat::Var(b.into()))] }, None, lit));
                    for n in [a, b] {
                        if !sc.contains(&n) {
                            sc.push(n);
                        }
                    }
                }
                12 => {
                    // struct pattern in a match arm
                    let a = self.name();
                    let c = self.konst();
                    let mut inner = sc.clone();
                    if !inner.contains(&a) {
                        inner.push(a);
                    }
                    let body = self.inner_block(depth - 1, &inner, &mut out, &sc);
                    let lit = Expr::StructLit { name: "Sp".into(), ty: Ty::Struct("Sp".into(), vec![]), fields: vec![("p".into(), i(c)), ("q".into(), i(0))] };
                    out.push(discard(Expr::Match(Box::new(lit), vec![(Pat::Struct { name: "Sp".into(), fields: vec![("p".into(), Pat::Var(a.into())), ("q".into(), Pat::Wild)] }, body)])));
                }
                13 => {
                    // integer-literal match with a catch-all arm (`_`, or a variable that binds the scrutinee's value):
                    // the catch-all arm is the decision tree's default branch
                    let m = *self.rng.pick_ref(&sc);
                    let lit = self.rng.range(0, 3) as i128;
                    let first = self.inner_block(depth - 1, &sc.clone(), &mut out, &sc);
                    let (pat, inner) = if self.rng.bool() {
                        (Pat::Wild, sc.clone())
                    } else {
                        let n = self.name();
                        let mut inner = sc.clone();
                        if !inner.contains(&n) {
                            inner.push(n);
                        }
                        (Pat::Var(n.into()), inner)
                    };
                    let second = self.inner_block(depth - 1, &inner, &mut out, &sc);
                    out.push(discard(Expr::Match(Box::new(var(m)), vec![(Pat::Int(IntTy::I32, lit, false), first), (pat, second)])));
                }
                _ => {
                    let b = self.inner_block(depth - 1, &sc.clone(), &mut out, &sc);
                    out.push(discard(b));
                }
            }
        }
        out
    }

    /// an inner block (unit-valued); may host the `q` binder of an after-scope leak, whose illegal use is pushed
    /// into `after` (the enclosing statement list) by the caller's next statement
    fn inner_block(&mut self, depth: u32, scope: &[&'static str], _enclosing: &mut Vec<Stmt>, _outer: &[&'static str]) -> Expr {
        let n = 2 + self.rng.below(3) as usize;
        let mut stmts = self.block(depth, scope, n);
        if self.leak == Some(LeakPlan::AfterScope) && !self.leak_done && self.rng.chance(1, 3) {
            self.leak_done = true;
            self.leak_kind = "after-scope";
            let c = self.konst();
            stmts.push(let_("q", i(c)));
            stmts.push(show(9003, "q"));
            self.pending_after = true;
        }
        Expr::Block(stmts, Some(Box::new(Expr::Unit)))
    }
}

fn scope_program(rng: &mut Rng, leak: Option<LeakPlan>) -> Option<(Program, u64, u64, &'static str)> {
    let mut prog = Program::default();
    prog.items.push(Item::Struct(StructDecl { name: "Sp".into(), tparams: vec![], fields: vec![("p".into(), I32), ("q".into(), I32)], derives: vec![] }));
    prog.items.push(Item::Enum(EnumDecl { name: "Sc".into(), tparams: vec![], variants: vec![("P".into(), vec![I32, I32]), ("Q".into(), vec![I32])], derives: vec![] }));
    let mut g = G { rng, next_const: 100, next_use: 0, uses: 0, path_hash: 1469598103934665603, leak, leak_done: false, leak_kind: "", constructs: 0, pending_after: false };
    let mut main_stmts = Vec::new();
    for k in 0..3 {
        let depth = 2 + g.rng.below(3) as u32;
        let mut stmts = Vec::new();
        // top-level statements one by one so that an after-scope use can follow the construct that hosted the binder
        for _ in 0..6 {
            let mut part = g.block(depth, &["x", "y"], 1);
            stmts.append(&mut part);
            if g.pending_after {
                g.pending_after = false;
                stmts.push(show(9004, "q"));
            }
        }
        stmts.push(show(8000 + k, "x"));
        prog.items.push(Item::Fn(FnDecl { name: format!("scope{}", k), tparams: vec![], params: vec![("x".into(), I32), ("y".into(), I32)], ret: Ty::Unit, body: Expr::Block(stmts, Some(Box::new(Expr::Unit))) }));
        let (a, b) = (g.konst(), g.konst());
        main_stmts.push(discard(Expr::Call { name: format!("scope{}", k), targs: vec![], args: vec![i(a), i(b)] }));
    }
    prog.items.push(Item::Fn(FnDecl { name: "main".into(), tparams: vec![], params: vec![], ret: Ty::Unit, body: Expr::Block(main_stmts, Some(Box::new(Expr::Unit))) }));
    if leak.is_some() && !g.leak_done {
        return None;
    }
    Some((prog, g.uses, g.path_hash, g.leak_kind))
}

/// names that are BOTH top-level functions and local binders of function type: in call position (`f(3)`) and as a
/// value (`let h = f`) the innermost local wins while it is in scope and the top-level function is meant again
/// after its block ends. Every function value adds its own constant, so the printed number names the binder.
struct CG<'a> {
    rng: &'a mut Rng,
    next_const: i128,
    next_use: usize,
    uses: u64,
    local_calls: u64,
    path_hash: u64,
}
const FNAMES: [&str; 2] = ["f", "g"];
impl<'a> CG<'a> {
    fn konst(&mut self) -> i128 {
        self.next_const += 1;
        self.next_const
    }
    /// the expression `n` as a value / callee: local variable when bound, top-level function otherwise
    fn call(&mut self, n: &'static str, locals: &[&'static str], arg: Expr) -> Expr {
        if locals.contains(&n) {
            self.local_calls += 1;
            Expr::CallValue(Box::new(var(n)), vec![arg])
        } else {
            Expr::Call { name: n.into(), targs: vec![], args: vec![arg] }
        }
    }
    fn value(&mut self, n: &'static str, locals: &[&'static str]) -> Expr {
        if locals.contains(&n) { var(n) } else { Expr::FnRef(n.into()) }
    }
    fn show_call(&mut self, n: &'static str, locals: &[&'static str]) -> Stmt {
        self.next_use += 1;
        self.uses += 1;
        let c = self.rng.range(0, 9) as i128;
        let e = self.call(n, locals, i(c));
        discard(bi("string_println", vec![add(Expr::Str(format!("c{}:{}({})=", self.next_use, n, c)), bi("int32_to_string", vec![e]))]))
    }
    fn block(&mut self, depth: u32, locals: &[&'static str], nstmts: usize) -> Vec<Stmt> {
        let mut lc: Vec<&'static str> = locals.to_vec();
        let mut out = Vec::new();
        for _ in 0..nstmts {
            let k = if depth == 0 { self.rng.below(5) } else { self.rng.below(10) };
            self.path_hash = self.path_hash.wrapping_mul(1099511628211).wrapping_add(k as u64 + 31 * depth as u64);
            let n = *self.rng.pick_ref(&FNAMES);
            match k {
                0 | 1 => out.push(self.show_call(n, &lc)),
                2 => {
                    // let-bound closure literal named like the top-level function
                    let c = self.konst() * 10_000;
                    out.push(let_(n, Expr::Closure { params: vec![("k".into(), Some(I32))], body: Box::new(add(var("k"), i(c))) }));
                    if !lc.contains(&n) {
                        lc.push(n);
                    }
                }
                3 => {
                    // let-bound function value: one of the helper functions, or the OTHER name's current meaning
                    let h = format!("h{}", self.rng.below(4));
                    let other = FNAMES[(FNAMES.iter().position(|x| *x == n).unwrap() + 1) % 2];
                    let v = if self.rng.bool() { Expr::FnRef(h) } else { self.value(other, &lc) };
                    out.push(let_(n, v));
                    if !lc.contains(&n) {
                        lc.push(n);
                    }
                }
                4 => {
                    // the name used as a value, then called through another variable
                    let alias = format!("al{}", self.konst());
                    let v = self.value(n, &lc);
                    out.push(let_(&alias, v));
                    self.next_use += 1;
                    self.uses += 1;
                    out.push(discard(bi("string_println", vec![add(Expr::Str(format!("c{}:via {}=", self.next_use, n)), bi("int32_to_string", vec![Expr::CallValue(Box::new(var(&alias)), vec![i(1)])]))])));
                }
                5 => {
                    // tuple pattern binder
                    let h = format!("h{}", self.rng.below(4));
                    out.push(Stmt::Let(Pat::Tuple(vec![Pat::Var(n.into()), Pat::Wild]), None, Expr::Tuple(vec![Expr::FnRef(h), i(0)])));
                    if !lc.contains(&n) {
                        lc.push(n);
                    }
                }
                6 => {
                    // match-arm binder
                    let h = format!("h{}", self.rng.below(4));
                    let mut inner = lc.clone();
                    if !inner.contains(&n) {
                        inner.push(n);
                    }
                    let body = self.inner(depth - 1, &inner);
                    out.push(discard(Expr::Match(Box::new(Expr::Tuple(vec![Expr::FnRef(h), i(1)])), vec![(Pat::Tuple(vec![Pat::Var(n.into()), Pat::Wild]), body)])));
                }
                7 => {
                    // closure parameter of function type named like the top-level function
                    let mut inner = lc.clone();
                    if !inner.contains(&n) {
                        inner.push(n);
                    }
                    let body = self.inner(depth - 1, &inner);
                    let cname = format!("clo{}", self.konst());
                    out.push(let_(&cname, Expr::Closure { params: vec![(n.to_string(), Some(Ty::Func(vec![I32], Box::new(I32))))], body: Box::new(body) }));
                    let h = format!("h{}", self.rng.below(4));
                    out.push(discard(Expr::CallValue(Box::new(var(&cname)), vec![Expr::FnRef(h)])));
                }
                _ => {
                    // nested block: its binders end with it
                    let b = self.inner(depth - 1, &lc.clone());
                    out.push(discard(b));
                }
            }
        }
        out
    }
    fn inner(&mut self, depth: u32, locals: &[&'static str]) -> Expr {
        let n = 2 + self.rng.below(3) as usize;
        let mut stmts = self.block(depth, locals, n);
        // the last statement of a block is a call: the innermost binder at the end of the block
        let nm = *self.rng.pick_ref(&FNAMES);
        let lc: Vec<&'static str> = {
            // recompute what the block bound (lets at this level)
            let mut v = locals.to_vec();
            for st in &stmts {
                if let Stmt::Let(p, _, _) = st {
                    let mut names = Vec::new();
                    match p {
                        Pat::Var(x) => names.push(x.clone()),
                        Pat::Tuple(ps) => ps.iter().for_each(|q| {
                            if let Pat::Var(x) = q {
                                names.push(x.clone())
                            }
                        }),
                        _ => {}
                    }
                    for x in names {
                        if let Some(f) = FNAMES.iter().find(|f| **f == x) {
                            if !v.contains(f) {
                                v.push(f);
                            }
                        }
                    }
                }
            }
            v
        };
        stmts.push(self.show_call(nm, &lc));
        Expr::Block(stmts, Some(Box::new(Expr::Unit)))
    }
}

fn callee_program(rng: &mut Rng) -> (Program, u64, u64, u64) {
    let mut prog = Program::default();
    let fty = Ty::Func(vec![I32], Box::new(I32));
    for (k, n) in FNAMES.iter().enumerate() {
        prog.items.push(Item::Fn(FnDecl { name: n.to_string(), tparams: vec![], params: vec![("k".into(), I32)], ret: I32, body: Expr::Block(vec![], Some(Box::new(add(var("k"), i(1000 * (k as i128 + 1)))))) }));
    }
    for k in 0..4 {
        prog.items.push(Item::Fn(FnDecl { name: format!("h{}", k), tparams: vec![], params: vec![("k".into(), I32)], ret: I32, body: Expr::Block(vec![], Some(Box::new(add(var("k"), i(100 * (k as i128 + 1)))))) }));
    }
    let mut g = CG { rng, next_const: 0, next_use: 0, uses: 0, local_calls: 0, path_hash: 1469598103934665603 };
    let mut main_stmts = Vec::new();
    for k in 0..3 {
        // scope0: no parameter shadows; scope1: parameter f; scope2: parameters f and g
        let params: Vec<(String, Ty)> = FNAMES.iter().take(k).map(|n| (n.to_string(), fty.clone())).collect();
        let locals: Vec<&'static str> = FNAMES.iter().take(k).copied().collect();
        let depth = 2 + g.rng.below(2) as u32;
        let mut stmts = g.block(depth, &locals, 7);
        // after all blocks: what the names mean at function level
        let lc: Vec<&'static str> = {
            let mut v = locals.clone();
            for st in &stmts {
                if let Stmt::Let(p, _, _) = st {
                    let names: Vec<String> = match p {
                        Pat::Var(x) => vec![x.clone()],
                        Pat::Tuple(ps) => ps.iter().filter_map(|q| if let Pat::Var(x) = q { Some(x.clone()) } else { None }).collect(),
                        _ => vec![],
                    };
                    for x in names {
                        if let Some(f) = FNAMES.iter().find(|f| **f == x) {
                            if !v.contains(f) {
                                v.push(f);
                            }
                        }
                    }
                }
            }
            v
        };
        for n in FNAMES {
            stmts.push(g.show_call(n, &lc));
        }
        prog.items.push(Item::Fn(FnDecl { name: format!("scope{}", k), tparams: vec![], params, ret: Ty::Unit, body: Expr::Block(stmts, Some(Box::new(Expr::Unit))) }));
        let args: Vec<Expr> = (0..k).map(|j| Expr::FnRef(format!("h{}", (j + k) % 4))).collect();
        main_stmts.push(discard(Expr::Call { name: format!("scope{}", k), targs: vec![], args }));
    }
    prog.items.push(Item::Fn(FnDecl { name: "main".into(), tparams: vec![], params: vec![], ret: Ty::Unit, body: Expr::Block(main_stmts, Some(Box::new(Expr::Unit))) }));
    (prog, g.uses, g.local_calls, g.path_hash)
}

fn run(ctx: &mut Ctx) {
    let tier = ctx.tier;
    let seed = ctx.seed;
    if ctx.replay_input.is_some() {
        println!("replay: the replay file stores the full source and both outputs");
        return;
    }
    let opts = DiffOpts { prop: "C05", vet_is_violation: true, budget: 2_000_000, print: PrintOpts::default() };
    let n = tier.pickn(400u64, 9_000u64) / ctx.nshards as u64 + 1;
    for j in 0..n {
        // positive
        let mut rng = Rng::keyed(seed, "c05-scope", ctx.shard as u64, j);
        let (prog, uses, path, _) = scope_program(&mut rng, None).unwrap();
        let label = format!("scope/{}/{}", ctx.shard, j);
        ctx.case(&label.clone(), |c| {
            match diff::run_diff(c, &prog, &label, &opts) {
                Outcome::Agree { .. } => {
                    c.count("programs_agree", 1);
                    c.count("uses_checked", uses);
                    c.nontrivial(path);
                }
                Outcome::Rejected(st, msg) => c.violation(
                    format!("C05:well-scoped-program-rejected:{}", diff::msg_class(&msg)),
                    format!("a well-scoped program is rejected ({}): {}", st, util::truncate(&msg, 200)),
                    json!({"label": label, "source": print_program(&prog, PrintOpts::default())}),
                ),
                Outcome::Inconclusive(r) => diff::inconclusive_unless_crash(c, "C05", &r, &label, &print_program(&prog, PrintOpts::default())),
                Outcome::Violation => {}
            }
            if j == 0 {
                c.sample(json!({"workload": "scope torture", "uses": uses, "source_head": util::truncate(&print_program(&prog, PrintOpts::default()), 700)}));
            }
        });
        // negative twin
        let plan = [LeakPlan::AfterScope, LeakPlan::BeforeLet, LeakPlan::Sibling][(j % 3) as usize];
        let mut rng = Rng::keyed(seed, "c05-leak", ctx.shard as u64, j);
        let Some((prog, _, _, kind)) = scope_program(&mut rng, Some(plan)) else {
            continue;
        };
        let label = format!("leak/{}/{}", ctx.shard, j);
        ctx.case(&label.clone(), |c| {
            let src = print_program(&prog, PrintOpts::default());
            runner::note_input(&src);
            match runner::guard(|| capi::compile_single(&src).map(|_| ())) {
                Ok(Ok(())) => c.violation(
                    format!("C05:leaked-binding-accepted:{}", kind),
                    format!("a use of `q` outside the scope of its binder ({}) is accepted", kind),
                    json!({"label": label, "kind": kind, "source": src}),
                ),
                Ok(Err(e)) => {
                    let msgs = capi::err_messages(&e);
                    let named = msgs.iter().any(|m| m.contains("Unresolved") && m.contains('q'));
                    if named {
                        c.count("leaks_rejected", 1);
                        c.count(&format!("leaks_rejected:{}", kind), 1);
                        c.nontrivial(hash_str(&src));
                    } else {
                        c.violation(
                            format!("C05:leak-rejected-without-unresolved-name:{}", kind),
                            format!("the out-of-scope use of `q` is rejected, but not as an unresolved name: {}", util::truncate(&msgs.join("; "), 200)),
                            json!({"label": label, "kind": kind, "source": src, "messages": msgs}),
                        );
                    }
                }
                Err(p) => c.violation(
                    format!("C05:leak-crashes-compiler:{}", kind),
                    format!("the out-of-scope use of `q` crashes the compiler at {}", p.site),
                    json!({"label": label, "kind": kind, "source": src}),
                ),
            }
            if j < 3 {
                c.sample(json!({"workload": format!("leak twin: {}", kind)}));
            }
        });
    }
    // locals named like top-level functions, in call position and as values
    let n = tier.pickn(160u64, 4_000u64) / ctx.nshards as u64 + 1;
    for j in 0..n {
        let mut rng = Rng::keyed(seed, "c05-callee", ctx.shard as u64, j);
        let (prog, uses, local_calls, path) = callee_program(&mut rng);
        let label = format!("callee/{}/{}", ctx.shard, j);
        ctx.case(&label.clone(), |c| {
            match diff::run_diff(c, &prog, &label, &opts) {
                Outcome::Agree { .. } => {
                    c.count("callee_programs_agree", 1);
                    c.count("uses_checked", uses);
                    c.count("calls_of_locals_named_like_functions", local_calls);
                    c.nontrivial(path);
                }
                Outcome::Rejected(st, msg) => c.violation(
                    format!("C05:well-scoped-program-rejected:{}", diff::msg_class(&msg)),
                    format!("a well-scoped program (locals named like top-level functions) is rejected ({}): {}", st, util::truncate(&msg, 200)),
                    json!({"label": label, "source": print_program(&prog, PrintOpts::default())}),
                ),
                Outcome::Inconclusive(r) => diff::inconclusive_unless_crash(c, "C05", &r, &label, &print_program(&prog, PrintOpts::default())),
                Outcome::Violation => {}
            }
            if j == 0 {
                c.sample(json!({"workload": "callee shadowing", "uses": uses, "source_head": util::truncate(&print_program(&prog, PrintOpts::default()), 900)}));
            }
        });
    }
    // the same programs as the entry file of a two-package project whose imported package declares enums with
    // variants spelled like the local names (x, y, z, q, k, ...; not like Main's top-level functions, whose Go names would collide with the variants' Go types - C19's business): an imported package's variants are reached
    // through its name only, so every use still means the local binder, and the illegal uses of `q` stay unresolved
    let imported = "package Lib\n\nenum Names { x, y, z, q, k }\n\nenum Mixed { sh, other, acc, cnt, p, n }\n\nfn lib_id(v: int32) -> int32 { v }\n";
    let n = tier.pickn(96u64, 2_400u64) / ctx.nshards as u64 + 1;
    for j in 0..n {
        let mut rng = Rng::keyed(seed, if j % 2 == 0 { "c05-scope" } else { "c05-callee" }, ctx.shard as u64, j / 2);
        let (prog, uses) = if j % 2 == 0 {
            let (p, u, _, _) = scope_program(&mut rng, None).unwrap();
            (p, u)
        } else {
            let (p, u, _, _) = callee_program(&mut rng);
            (p, u)
        };
        let label = format!("two-package/{}/{}", ctx.shard, j);
        ctx.case(&label.clone(), |c| {
            let exp = crate::gl::eval::run_program(&prog, 2_000_000);
            if exp.stop.is_some() {
                c.inconclusive("refsem did not finish the scope program");
                return;
            }
            let main_src = format!("package Main\nimport Lib\n\n{}", print_program(&prog, PrintOpts::default()));
            let files = vec![(std::path::PathBuf::from("Lib/lib.gom"), imported.to_string()), (std::path::PathBuf::from("main.gom"), main_src)];
            if let Some((out, term, _)) = crate::exec::run_project(c, "C05", &label, &files, 4_000_000) {
                if out == exp.stdout && matches!(term, crate::goexec::Term::Ok) {
                    c.count("two_package_programs_agree", 1);
                    c.count("uses_checked", uses);
                } else {
                    c.violation(
                        "C05:stdout-differs:imported-package-with-equally-named-variants".to_string(),
                        "a use of a local prints another value when an imported package declares a variant of that name".to_string(),
                        json!({"label": label, "files": files.iter().map(|(p, t)| json!({"path": p.display().to_string(), "text": t})).collect::<Vec<_>>(), "expected": util::truncate(&exp.stdout, 2000), "got": util::truncate(&out, 2000)}),
                    );
                }
            }
        });
        // negative twin: the unbound `q` must stay unresolved although Lib has a variant `q`
        if j % 2 == 0 {
            let plan = [LeakPlan::AfterScope, LeakPlan::BeforeLet, LeakPlan::Sibling][((j / 2) % 3) as usize];
            let mut rng = Rng::keyed(seed, "c05-leak2", ctx.shard as u64, j);
            let Some((prog, _, _, kind)) = scope_program(&mut rng, Some(plan)) else { continue };
            let label = format!("two-package-leak/{}/{}", ctx.shard, j);
            ctx.case(&label.clone(), |c| {
                let main_src = format!("package Main\nimport Lib\n\n{}", print_program(&prog, PrintOpts::default()));
                let files = vec![(std::path::PathBuf::from("Lib/lib.gom"), imported.to_string()), (std::path::PathBuf::from("main.gom"), main_src.clone())];
                let root = crate::util::scratch_base().join(format!("c05l-{}-{}", std::process::id(), util::hex64(hash_str(&main_src))));
                let _ = std::fs::remove_dir_all(&root);
                let order: Vec<usize> = (0..files.len()).collect();
                if crate::projgen::materialize(&root, &files, &order).is_err() {
                    c.inconclusive("cannot materialise project");
                    return;
                }
                runner::note_input(&main_src);
                let whole = runner::guard(|| crate::projdrv::observe_whole(&root));
                let _ = std::fs::remove_dir_all(&root);
                match whole {
                    Ok(o) => {
                        let ok = o.get("whole/result").map_or(false, |r| r == "ok");
                        let d = o.get("whole/diagnostics").cloned().unwrap_or_default();
                        if ok {
                            c.violation(format!("C05:leaked-binding-accepted:{}:two-package", kind), format!("a use of `q` outside the scope of its binder ({}) is accepted when an imported package declares a variant `q`", kind), json!({"label": label, "kind": kind, "source": main_src, "library": imported}));
                        } else if d.contains("Unresolved") && d.contains('q') {
                            c.count("leaks_rejected", 1);
                            c.count("two_package_leaks_rejected", 1);
                        } else {
                            c.violation(format!("C05:leak-rejected-without-unresolved-name:{}:two-package", kind), format!("the out-of-scope use of `q` is rejected, but not as an unresolved name: {}", util::truncate(&d, 200)), json!({"label": label, "kind": kind, "source": main_src, "library": imported, "diagnostics": d}));
                        }
                    }
                    Err(p) => c.violation(format!("C05:leak-crashes-compiler:{}:two-package", kind), format!("the out-of-scope use of `q` crashes the compiler at {}", p.site), json!({"label": label, "kind": kind, "source": main_src})),
                }
            });
        }
    }
    // generated programs with the three-name pool
    let n = tier.pickn(120u64, 3_000u64) / ctx.nshards as u64 + 1;
    let opts2 = DiffOpts { prop: "C05", vet_is_violation: false, budget: 400_000, print: PrintOpts::default() };
    for j in 0..n {
        let mut rng = Rng::keyed(seed, "c05-gen", ctx.shard as u64, j);
        let mut f = Features::base();
        f.n_fns = 4;
        f.ident_mode = 1;
        let (prog, _) = generate(&mut rng, f);
        let label = format!("gen/{}/{}", ctx.shard, j);
        ctx.case(&label.clone(), |c| match diff::run_diff(c, &prog, &label, &opts2) {
            Outcome::Agree { .. } => c.count("random_programs_agree", 1),
            Outcome::Rejected(st, msg) if msg.contains("Unresolved") => c.violation(
                format!("C05:well-scoped-program-rejected:{}", diff::msg_class(&msg)),
                format!("a generated well-scoped program is rejected ({}): {}", st, util::truncate(&msg, 200)),
                json!({"label": label, "source": print_program(&prog, PrintOpts::default())}),
            ),
            Outcome::Inconclusive(r) => c.inconclusive(diff::msg_class(&r)),
            _ => {}
        });
    }
    crate::capi::cleanup_scratch();
}
