//! Type-directed random generator of GL programs.
use super::ast::*;
use crate::util::Rng;
use std::collections::BTreeMap;

#[derive(Clone, Debug)]
pub struct Features {
    pub int_widths: bool,
    pub floats: bool,
    pub strings: bool,
    pub tuples: bool,
    pub arrays: bool,
    pub vecs: bool,
    pub refs: bool,
    pub structs: bool,
    pub enums: bool,
    pub generic_types: bool,
    pub generic_fns: bool,
    pub closures: bool,
    /// closures may be returned from functions / stored in tuples
    pub closure_flows: bool,
    /// top-level functions used as values (let, array, call through variable)
    pub fn_values: bool,
    pub traits: bool,
    pub dyn_traits: bool,
    pub inherent: bool,
    pub whiles: bool,
    pub matches: bool,
    pub nested_patterns: bool,
    pub shadowing: bool,
    /// effect ticks (prints) in sub-expression positions
    pub ticks: bool,
    /// operands of && / || may have effects / fail
    pub effectful_logic: bool,
    /// runtime failures (division by a zero variable, out-of-range index, missing arm) are generated on purpose
    pub failures: bool,
    /// identifier pool: 0 plain, 1 heavy reuse (shadowing), 2 adversarial names
    pub ident_mode: u8,
    /// struct literals may list their fields in another order than the declaration
    pub struct_lit_permute: bool,
    pub max_depth: u32,
    pub n_fns: usize,
}

impl Features {
    pub fn base() -> Features {
        Features {
            int_widths: true,
            floats: false,
            strings: true,
            tuples: true,
            arrays: true,
            vecs: true,
            refs: true,
            structs: true,
            enums: true,
            generic_types: true,
            generic_fns: true,
            closures: true,
            closure_flows: true,
            fn_values: true,
            traits: true,
            dyn_traits: true,
            inherent: true,
            whiles: true,
            matches: true,
            nested_patterns: true,
            shadowing: true,
            ticks: true,
            effectful_logic: true,
            failures: false,
            ident_mode: 0,
            struct_lit_permute: false,
            max_depth: 4,
            n_fns: 5,
        }
    }
}

#[derive(Clone, Debug)]
pub struct Var {
    pub name: String,
    pub ty: Ty,
    /// value is a closure literal bound by let (calls through it are direct)
    pub is_closure: bool,
    /// the binder's type is syntactically evident to the typer (parameter or annotated let)
    pub known: bool,
}

pub struct Gen<'r> {
    pub rng: &'r mut Rng,
    pub f: Features,
    pub prog: Program,
    pub structs: Vec<StructDecl>,
    pub enums: Vec<EnumDecl>,
    pub traits: Vec<TraitDecl>,
    /// (trait, type) pairs with an impl
    pub trait_impls: Vec<(String, Ty)>,
    /// inherent methods: type name -> (method name, extra param types, ret)
    pub inherent: Vec<(Ty, String, Vec<Ty>, Ty)>,
    pub fns: Vec<FnDecl>,
    pub show_fns: BTreeMap<Ty, String>,
    pub show_items: Vec<FnDecl>,
    counter: u32,
    /// feature tags used by this program
    pub tags: std::collections::BTreeSet<&'static str>,
    /// type parameters in scope (name -> bounds)
    tparams: Vec<(String, Vec<String>)>,
    tick_counter: u32,
    cur_fn_index: usize,
    /// closure literals may appear in any position of function type (argument, field, element);
    /// off in the clean lattice because the backend cannot type such flows (known finding)
    pub closure_literals_anywhere: bool,
    /// dyn coercion of values whose impl is on a generic instance (probe only; recorded finding)
    pub dyn_generic_instances: bool,
    force_closure_once: bool,
}

const PLAIN_NAMES: &[&str] = &["a", "b", "c", "d", "x", "y", "z", "n", "m", "k", "acc", "tmp", "val", "res", "item", "left", "right", "p", "q", "r", "s", "t", "u", "v", "w"];
const ADVERSARIAL_NAMES: &[&str] = &[
    "func", "var", "map", "chan", "range", "defer", "select", "switch", "case", "default", "const", "goto", "interface", "len", "append", "nil",
    "any", "panic", "println", "error", "t7", "x3", "mtmp0", "ret12", "cond1", "env4", "main0", "x__3", "Tuple2_int32_int32", "ref_int32_x", "fmt",
    "make", "new", "cap", "copy", "iota", "byte", "rune", "int", "uint", "float", "jump", "ptr", "self_", "ret", "t0", "t1", "t2", "x0", "x1",
];

impl<'r> Gen<'r> {
    pub fn new(rng: &'r mut Rng, f: Features) -> Gen<'r> {
        Gen {
            rng,
            f,
            prog: Program::default(),
            structs: Vec::new(),
            enums: Vec::new(),
            traits: Vec::new(),
            trait_impls: Vec::new(),
            inherent: Vec::new(),
            fns: Vec::new(),
            show_fns: BTreeMap::new(),
            show_items: Vec::new(),
            counter: 0,
            tags: Default::default(),
            tparams: Vec::new(),
            tick_counter: 0,
            cur_fn_index: 0,
            closure_literals_anywhere: false,
            dyn_generic_instances: false,
            force_closure_once: false,
        }
    }

    fn tag(&mut self, t: &'static str) {
        self.tags.insert(t);
    }

    pub fn fresh(&mut self, scope: &[Var]) -> String {
        self.counter += 1;
        match self.f.ident_mode {
            1 => {
                // heavy reuse: a tiny pool, so binders shadow each other constantly
                let n = *self.rng.pick_ref(&["x", "y", "z"]);
                n.to_string()
            }
            2 => {
                let n = self.rng.pick(ADVERSARIAL_NAMES);
                if scope.iter().any(|v| v.name == n) && self.rng.bool() { format!("{}v{}", n, self.counter) } else { n.to_string() }
            }
            _ => {
                if self.f.shadowing && self.rng.chance(1, 4) {
                    self.rng.pick(PLAIN_NAMES).to_string()
                } else {
                    format!("{}{}", self.rng.pick(PLAIN_NAMES), self.counter)
                }
            }
        }
    }

    // ------------------------------------------------------------ types

    pub fn gen_int_ty(&mut self) -> IntTy {
        if self.f.int_widths && self.rng.chance(1, 3) { self.rng.pick(&ALL_INTS) } else { IntTy::I32 }
    }

    /// a type whose values can be generated and shown
    pub fn gen_type(&mut self, depth: u32) -> Ty {
        let mut opts: Vec<u8> = vec![0, 0, 0, 1, 2];
        if self.f.strings {
            opts.extend([3, 3]);
        }
        if self.f.floats {
            opts.push(4);
        }
        if depth > 0 {
            if self.f.tuples {
                opts.extend([5, 5]);
            }
            if self.f.arrays {
                opts.push(6);
            }
            if self.f.vecs {
                opts.push(7);
            }
            if self.f.refs {
                opts.push(8);
            }
            if self.f.structs && !self.structs.is_empty() {
                opts.extend([9, 9]);
            }
            if self.f.enums && !self.enums.is_empty() {
                opts.extend([10, 10]);
            }
        }
        match self.rng.pick(&opts) {
            0 => Ty::Int(self.gen_int_ty()),
            1 => Ty::Bool,
            2 => Ty::Unit,
            3 => Ty::Str,
            4 => {
                if self.rng.bool() {
                    Ty::F64
                } else {
                    Ty::F32
                }
            }
            5 => {
                let n = 2 + self.rng.below(2);
                Ty::Tuple((0..n).map(|_| self.gen_type(depth - 1)).collect())
            }
            6 => Ty::Array(Box::new(self.gen_type(depth - 1)), 1 + self.rng.below(3)),
            7 => Ty::Vec(Box::new(self.gen_type(depth - 1))),
            8 => Ty::Ref(Box::new(self.gen_type(depth - 1))),
            9 => {
                let s = self.rng.pick_ref(&self.structs).clone();
                let args = s.tparams.iter().map(|_| self.gen_type(depth - 1)).collect();
                Ty::Struct(s.name.clone(), args)
            }
            _ => {
                let e = self.rng.pick_ref(&self.enums).clone();
                let args = e.tparams.iter().map(|_| self.gen_type(depth - 1)).collect();
                Ty::Enum(e.name.clone(), args)
            }
        }
    }

    fn struct_fields(&self, name: &str, args: &[Ty]) -> Vec<(String, Ty)> {
        let s = self.structs.iter().find(|s| s.name == name).expect("struct");
        let m: Vec<(String, Ty)> = s.tparams.iter().cloned().zip(args.iter().cloned()).collect();
        s.fields.iter().map(|(f, t)| (f.clone(), t.subst(&m))).collect()
    }
    fn enum_variants(&self, name: &str, args: &[Ty]) -> Vec<(String, Vec<Ty>)> {
        let e = self.enums.iter().find(|s| s.name == name).expect("enum");
        let m: Vec<(String, Ty)> = e.tparams.iter().cloned().zip(args.iter().cloned()).collect();
        e.variants.iter().map(|(v, ts)| (v.clone(), ts.iter().map(|t| t.subst(&m)).collect())).collect()
    }

    // ------------------------------------------------------------ declarations

    pub fn gen_decls(&mut self) {
        if self.f.structs {
            let n = 1 + self.rng.below(3);
            for i in 0..n {
                let generic = self.f.generic_types && self.rng.chance(1, 3);
                let tparams = if generic { vec!["A".to_string()] } else { vec![] };
                let nf = 1 + self.rng.below(3);
                let mut fields = Vec::new();
                for j in 0..nf {
                    let t = if generic && j == 0 { Ty::Param("A".into()) } else { self.gen_type(1) };
                    fields.push((format!("f{}", j), t));
                }
                let d = StructDecl { name: format!("S{}", i), tparams, fields, derives: vec![] };
                self.structs.push(d);
            }
        }
        if self.f.enums {
            let n = 1 + self.rng.below(3);
            for i in 0..n {
                let generic = self.f.generic_types && self.rng.chance(1, 3);
                let tparams = if generic { vec!["A".to_string()] } else { vec![] };
                let nv = 2 + self.rng.below(3);
                let mut variants = Vec::new();
                for j in 0..nv {
                    let np = if j == 0 { 0 } else { self.rng.below(3) };
                    let mut ts = Vec::new();
                    for k in 0..np {
                        ts.push(if generic && k == 0 { Ty::Param("A".into()) } else { self.gen_type(1) });
                    }
                    variants.push((format!("E{}v{}", i, j), ts));
                }
                if generic && !variants.iter().any(|(_, ts)| ts.iter().any(|t| t.has_param())) {
                    variants.push((format!("E{}vg", i), vec![Ty::Param("A".into())]));
                }
                self.enums.push(EnumDecl { name: format!("E{}", i), tparams, variants, derives: vec![] });
            }
        }
        for s in self.structs.clone() {
            self.prog.items.push(Item::Struct(s));
        }
        for e in self.enums.clone() {
            self.prog.items.push(Item::Enum(e));
        }
        if self.f.traits {
            let n = 1 + self.rng.below(2);
            for i in 0..n {
                let nm = 1 + self.rng.below(3);
                let mut methods = Vec::new();
                // method names of one trait may be affixes of each other (`t0m0` / `x_t0m0` / `t0m0_x`, the longer
                // one first or last) and then share one signature: picking an implementation by a partial name match
                // yields a well-typed call of the wrong method
                let scheme = self.rng.below(5);
                let (extra0, ret0) = (if self.rng.chance(1, 3) { vec![I32] } else { vec![] }, if self.rng.bool() { I32 } else { Ty::Str });
                for j in 0..nm {
                    let extra = if self.rng.chance(1, 3) { vec![I32] } else { vec![] };
                    let ret = if self.rng.bool() { I32 } else { Ty::Str };
                    let base = format!("t{}m0", i);
                    let (name, related) = match (scheme, j) {
                        (1, 0) | (2, 1) | (3, 0) | (4, 1) => (base, true),
                        (1, 1) | (2, 0) => (format!("x_{}", base), true),
                        (3, 1) | (4, 0) => (format!("{}_x", base), true),
                        _ => (format!("t{}m{}", i, j + 1), false),
                    };
                    if related { methods.push(MethodSig { name, extra: extra0.clone(), ret: ret0.clone() }) } else { methods.push(MethodSig { name, extra, ret }) }
                }
                // the second trait's name may extend the first one's
                let tname = if i == 1 && self.rng.bool() { "Tr0x".to_string() } else { format!("Tr{}", i) };
                let t = TraitDecl { name: tname, methods };
                self.traits.push(t.clone());
                self.prog.items.push(Item::Trait(t));
            }
        }
    }

    /// impls are generated after the functions they may call (helper fns only use builtins)
    pub fn gen_impls(&mut self) {
        if self.f.traits {
            for t in self.traits.clone() {
                // candidate implementor types: prims + non-generic structs/enums + one generic instance
                let mut cands: Vec<Ty> = vec![I32, Ty::Bool, Ty::Str];
                for s in &self.structs {
                    if s.tparams.is_empty() {
                        cands.push(Ty::Struct(s.name.clone(), vec![]));
                    } else {
                        cands.push(Ty::Struct(s.name.clone(), vec![I32]));
                        cands.push(Ty::Struct(s.name.clone(), vec![Ty::Str]));
                    }
                }
                for e in &self.enums {
                    if e.tparams.is_empty() {
                        cands.push(Ty::Enum(e.name.clone(), vec![]));
                    } else {
                        cands.push(Ty::Enum(e.name.clone(), vec![Ty::Bool]));
                    }
                }
                self.rng.shuffle(&mut cands);
                let k = 2 + self.rng.below(3);
                for ty in cands.into_iter().take(k) {
                    let mut methods = Vec::new();
                    for m in &t.methods {
                        let mut params = vec![("self".to_string(), ty.clone())];
                        for (i, e) in m.extra.iter().enumerate() {
                            params.push((format!("arg{}", i), e.clone()));
                        }
                        let scope: Vec<Var> = params.iter().map(|(n, t)| Var { name: n.clone(), ty: t.clone(), is_closure: false, known: true }).collect();
                        let body = self.gen_block(&m.ret, 2, &scope);
                        methods.push(FnDecl { name: m.name.clone(), tparams: vec![], params, ret: m.ret.clone(), body });
                    }
                    // an impl block may list the methods in another order than the trait does
                    if self.rng.chance(1, 3) {
                        methods.reverse();
                    }
                    self.trait_impls.push((t.name.clone(), ty.clone()));
                    self.prog.items.push(Item::Impl(ImplDecl { trait_name: Some(t.name.clone()), for_ty: ty, tparams: vec![], methods }));
                    self.tag("trait_impl");
                }
            }
        }
        if self.f.inherent {
            for s in self.structs.clone() {
                if !self.rng.chance(2, 3) {
                    continue;
                }
                let (for_ty, tparams) = if s.tparams.is_empty() {
                    (Ty::Struct(s.name.clone(), vec![]), vec![])
                } else {
                    (Ty::Struct(s.name.clone(), vec![Ty::Param("A".into())]), vec!["A".to_string()])
                };
                let saved = std::mem::replace(&mut self.tparams, tparams.iter().map(|p| (p.clone(), vec![])).collect());
                let nm = 1 + self.rng.below(2);
                let mut methods = Vec::new();
                for j in 0..nm {
                    let extra: Vec<Ty> = if self.rng.chance(1, 2) { vec![self.gen_type(0)] } else { vec![] };
                    // return a field type (possibly the type parameter) or a fresh simple type
                    let fields = self.struct_fields(&s.name, &match &for_ty {
                        Ty::Struct(_, a) => a.clone(),
                        _ => vec![],
                    });
                    let ret = if self.rng.bool() { self.rng.pick_ref(&fields).1.clone() } else { self.gen_type(0) };
                    let mut params = vec![("self".to_string(), for_ty.clone())];
                    for (i, e) in extra.iter().enumerate() {
                        params.push((format!("arg{}", i), e.clone()));
                    }
                    let scope: Vec<Var> = params.iter().map(|(n, t)| Var { name: n.clone(), ty: t.clone(), is_closure: false, known: true }).collect();
                    let body = self.gen_block(&ret, 2, &scope);
                    let name = format!("im{}_{}", s.name.to_lowercase(), j);
                    self.inherent.push((for_ty.clone(), name.clone(), extra.clone(), ret.clone()));
                    methods.push(FnDecl { name, tparams: vec![], params, ret, body });
                }
                self.tparams = saved;
                self.prog.items.push(Item::Impl(ImplDecl { trait_name: None, for_ty, tparams, methods }));
                self.tag("inherent_impl");
            }
        }
    }

    // ------------------------------------------------------------ literals

    fn int_lit(&mut self, t: IntTy) -> Expr {
        let v: i128 = match self.rng.below(10) {
            0 => 0,
            1 => 1,
            2 => t.max_val(),
            3 => t.max_val() - 1,
            4 => {
                if t.signed() {
                    t.min_val() + 1
                } else {
                    2
                }
            }
            5 | 6 => self.rng.range(0, 100) as i128,
            7 => {
                if t.signed() {
                    -(self.rng.range(1, 100) as i128)
                } else {
                    self.rng.range(100, 200) as i128
                }
            }
            _ => {
                let span = (t.max_val() - t.min_val()) as u128;
                let r = ((self.rng.next_u64() as u128) << 64 | self.rng.next_u64() as u128) % (span + 1);
                let v = t.min_val() + r as i128;
                if v == t.min_val() && t.signed() { v + 1 } else { v }
            }
        };
        self.mk_int(t, v)
    }

    /// literal with correct spelling: negative values as unary minus; suffix unless int32
    pub fn mk_int(&mut self, t: IntTy, v: i128) -> Expr {
        let suffix = t != IntTy::I32 || self.rng.chance(1, 8);
        if v < 0 {
            Expr::Unary(UnOp::Neg, Box::new(Expr::Int(t, -v, suffix)))
        } else {
            Expr::Int(t, v, suffix)
        }
    }

    fn str_lit(&mut self) -> Expr {
        const ALPHA: &[u8] = b"abcdefghijklmnopqrstuvwxyzABCXYZ0123456789 _-+*/=<>()[]{}:;,.!?#%&|^~@$'";
        let n = self.rng.below(8);
        let mut s = String::new();
        // one character in eight comes from a pool of characters that need care somewhere between the goml lexer and
        // the Go printer: escapes, C0 / C1 controls, DEL, non-ASCII, astral (added after a seeded change that printed
        // C1 controls as one-byte `\x85` escapes)
        const SPECIAL: &[char] = &['"', '\\', '\t', '\u{1}', '\u{1b}', '\u{7f}', '\u{80}', '\u{85}', '\u{9f}', '\u{a0}', '\u{ad}', '\u{e9}', '\u{4e2d}', '\u{2028}', '\u{feff}', '\u{1F600}'];
        for _ in 0..n {
            if self.rng.chance(1, 8) {
                s.push(self.rng.pick(SPECIAL));
            } else {
                s.push(self.rng.pick(ALPHA) as char);
            }
        }
        Expr::Str(s)
    }

    // ------------------------------------------------------------ expressions

    fn vars_of<'b>(&self, scope: &'b [Var], ty: &Ty) -> Vec<&'b Var> {
        // innermost binding of each name only (shadowing!)
        let mut out = Vec::new();
        for (i, v) in scope.iter().enumerate() {
            if &v.ty == ty && !scope[i + 1..].iter().any(|w| w.name == v.name) {
                out.push(v);
            }
        }
        out
    }

    fn tick_wrap(&mut self, e: Expr, ty: &Ty) -> Expr {
        if !self.f.ticks || !self.rng.chance(1, 6) {
            return e;
        }
        self.tick_counter += 1;
        self.tag("tick");
        let _ = ty;
        Expr::Block(
            vec![Stmt::Let(Pat::Wild, None, Expr::Builtin("string_println".into(), vec![Expr::Str(format!("tick{}", self.tick_counter))]))],
            Some(Box::new(e)),
        )
    }

    pub fn gen_expr(&mut self, ty: &Ty, depth: u32, scope: &[Var]) -> Expr {
        let e = self.gen_expr_inner(ty, depth, scope);
        if depth > 0 { self.tick_wrap(e, ty) } else { e }
    }

    fn gen_leaf(&mut self, ty: &Ty, scope: &[Var]) -> Expr {
        let anywhere = self.closure_literals_anywhere;
        let vars: Vec<&Var> = self.vars_of(scope, ty).into_iter().filter(|v| anywhere || !v.is_closure).collect();
        if !vars.is_empty() && self.rng.chance(2, 3) {
            let v = self.rng.pick_ref(&vars);
            return Expr::Var(v.name.clone());
        }
        match ty {
            Ty::Unit => Expr::Unit,
            Ty::Bool => Expr::Bool(self.rng.bool()),
            Ty::Int(t) => self.int_lit(*t),
            Ty::F32 => Expr::Float(true, (self.rng.range(-200, 200) as f64) / 8.0),
            Ty::F64 => Expr::Float(false, (self.rng.range(-2000, 2000) as f64) / 16.0),
            Ty::Str => self.str_lit(),
            Ty::Tuple(ts) => Expr::Tuple(ts.iter().map(|t| self.gen_leaf(t, scope)).collect()),
            Ty::Array(t, n) => Expr::Array((0..*n).map(|_| self.gen_leaf(t, scope)).collect()),
            Ty::Vec(t) => self.gen_vec(t, 0, scope),
            Ty::Ref(t) => Expr::Builtin("ref".into(), vec![self.gen_leaf(t, scope)]),
            Ty::Struct(n, a) => {
                let fields = self.struct_fields(n, a);
                Expr::StructLit { name: n.clone(), ty: ty.clone(), fields: fields.iter().map(|(f, t)| (f.clone(), self.gen_leaf(t, scope))).collect() }
            }
            Ty::Enum(n, a) => {
                let vs = self.enum_variants(n, a);
                // prefer a variant without recursion problems: any
                let (v, ts) = self.rng.pick_ref(&vs).clone();
                let e = Expr::Constr { enum_name: n.clone(), variant: v, ty: ty.clone(), args: ts.iter().map(|t| self.gen_leaf(t, scope)).collect(), qualified: self.rng.chance(1, 3) };
                self.annotate_if_underdetermined(e, ty)
            }
            Ty::Func(ps, r) => self.gen_func_value(ps, r, 0, scope),
            Ty::Param(_) | Ty::Dyn(_) => {
                // must come from scope
                let vars = self.vars_of(scope, ty);
                if let Some(v) = vars.first() {
                    Expr::Var(v.name.clone())
                } else if let Some(e) = self.gen_projection(ty, 0, scope) {
                    e
                } else {
                    Expr::Unit // unreachable by construction; makes the program ill-typed and visible
                }
            }
        }
    }

    /// wrap a constructor of a generic enum whose chosen variant does not mention every type
    /// parameter into an annotated let (the typer cannot infer the missing argument otherwise)
    fn annotate_if_underdetermined(&mut self, e: Expr, ty: &Ty) -> Expr {
        if let (Expr::Constr { enum_name, variant, .. }, Ty::Enum(_, targs)) = (&e, ty) {
            if targs.is_empty() {
                return e;
            }
            let decl = self.enums.iter().find(|d| &d.name == enum_name).unwrap();
            let payload = &decl.variants.iter().find(|(v, _)| v == variant).unwrap().1;
            let determined = decl.tparams.iter().all(|p| payload.iter().any(|t| mentions(t, p)));
            if determined {
                return e;
            }
            let n = format!("ann{}", self.counter);
            self.counter += 1;
            return Expr::Block(vec![Stmt::Let(Pat::Var(n.clone()), Some(ty.clone()), e)], Some(Box::new(Expr::Var(n))));
        }
        e
    }

    fn gen_vec(&mut self, elem: &Ty, depth: u32, scope: &[Var]) -> Expr {
        self.tag("vec");
        let n = self.rng.below(4);
        let mut stmts = Vec::new();
        let v0 = format!("vb{}_{}", self.counter, 0);
        self.counter += 1;
        stmts.push(Stmt::Let(Pat::Var(v0.clone()), Some(Ty::Vec(Box::new(elem.clone()))), Expr::Builtin("vec_new".into(), vec![])));
        let mut cur = v0;
        for i in 0..n {
            let next = format!("vb{}_{}", self.counter, i + 1);
            self.counter += 1;
            let item = if depth > 0 { self.gen_expr(elem, depth - 1, scope) } else { self.gen_leaf(elem, scope) };
            stmts.push(Stmt::Let(Pat::Var(next.clone()), None, Expr::Builtin("vec_push".into(), vec![Expr::Var(cur.clone()), item])));
            cur = next;
        }
        Expr::Block(stmts, Some(Box::new(Expr::Var(cur))))
    }

    fn gen_func_value(&mut self, ps: &[Ty], r: &Ty, depth: u32, scope: &[Var]) -> Expr {
        // a top-level function with that exact signature, or a closure literal
        let forced = std::mem::replace(&mut self.force_closure_once, false);
        if self.f.fn_values && !forced {
            let cands: Vec<String> = self
                .fns
                .iter()
                .filter(|f| f.tparams.is_empty() && f.params.len() == ps.len() && f.params.iter().zip(ps.iter()).all(|((_, a), b)| a == b) && &f.ret == r)
                .map(|f| f.name.clone())
                .collect();
            if !cands.is_empty() && (self.rng.bool() || !self.closure_literals_anywhere) {
                self.tag("fn_value");
                return Expr::FnRef(self.rng.pick_ref(&cands).clone());
            }
        }
        self.tag("closure");
        let mut inner: Vec<Var> = scope.to_vec();
        let mut params = Vec::new();
        for p in ps {
            let mut n = self.fresh(&inner);
            while params.iter().any(|(m, _): &(String, Option<Ty>)| m == &n) {
                self.counter += 1;
                n = format!("{}{}", n, self.counter);
            }
            inner.push(Var { name: n.clone(), ty: p.clone(), is_closure: false, known: true });
            params.push((n, Some(p.clone())));
        }
        let body = if depth > 0 { self.gen_expr(r, depth - 1, &inner) } else { self.gen_leaf(r, &inner) };
        Expr::Closure { params, body: Box::new(body) }
    }

    fn gen_expr_inner(&mut self, ty: &Ty, depth: u32, scope: &[Var]) -> Expr {
        if depth == 0 {
            return self.gen_leaf(ty, scope);
        }
        if let Ty::Func(ps, r) = ty {
            // function values never go through if / match / call strategies in the clean lattice
            // (a variable bound to a closure literal is a closure value: same gate as closure literals)
            let anywhere = self.closure_literals_anywhere;
            let vars: Vec<&Var> = self.vars_of(scope, ty).into_iter().filter(|v| anywhere || !v.is_closure).collect();
            if !vars.is_empty() && self.rng.bool() {
                return Expr::Var(self.rng.pick_ref(&vars).name.clone());
            }
            return self.gen_func_value(ps, r, depth - 1, scope);
        }
        // generic strategies first
        let roll = self.rng.below(100);
        if roll < 12 {
            return self.gen_leaf(ty, scope);
        }
        if roll < 22 {
            self.tag("if");
            let c = self.gen_expr(&Ty::Bool, depth - 1, scope);
            let t = self.gen_block(ty, depth - 1, scope);
            let f = self.gen_block(ty, depth - 1, scope);
            return Expr::If(Box::new(c), Box::new(t), Box::new(f));
        }
        if roll < 32 && self.f.matches {
            return self.gen_match(ty, depth, scope);
        }
        if roll < 40 {
            self.tag("block");
            return self.gen_block(ty, depth - 1, scope);
        }
        if roll < 55 {
            if let Some(e) = self.gen_call(ty, depth, scope) {
                return e;
            }
        }
        if roll < 63 {
            if let Some(e) = self.gen_projection(ty, depth, scope) {
                return e;
            }
        }
        if roll < 68 && self.f.closures {
            // immediately bound closure called in a block: { let f = |..| ..; f(args) }
            if !matches!(ty, Ty::Param(_) | Ty::Dyn(_)) {
                self.tag("closure_call");
                let nparams = self.rng.below(3);
                let ps: Vec<Ty> = (0..nparams).map(|_| self.gen_type(1)).collect();
                let clo = self.gen_func_value_closure_only(&ps, ty, depth - 1, scope);
                let fname = self.fresh(scope);
                // the arguments are evaluated where the closure's name is already bound
                let mut with_f = scope.to_vec();
                with_f.push(Var { name: fname.clone(), ty: Ty::Func(ps.clone(), Box::new(ty.clone())), is_closure: true, known: false });
                let args: Vec<Expr> = ps.iter().map(|p| self.gen_expr(p, depth - 1, &with_f)).collect();
                return Expr::Block(vec![Stmt::Let(Pat::Var(fname.clone()), None, clo)], Some(Box::new(Expr::CallValue(Box::new(Expr::Var(fname)), args))));
            }
        }
        // type specific
        match ty {
            Ty::Bool => {
                match self.rng.below(5) {
                    0 => Expr::Unary(UnOp::Not, Box::new(self.gen_expr(&Ty::Bool, depth - 1, scope))),
                    1 | 2 => {
                        self.tag("compare");
                        let t = if self.f.strings && self.rng.chance(1, 4) { Ty::Str } else { Ty::Int(self.gen_int_ty()) };
                        let op = self.rng.pick(&[BinOp::Lt, BinOp::Gt, BinOp::Le, BinOp::Ge, BinOp::Eq, BinOp::Ne]);
                        let op = if t == Ty::Str && !matches!(op, BinOp::Eq | BinOp::Ne) { BinOp::Eq } else { op };
                        Expr::Binary(op, Box::new(self.gen_expr(&t, depth - 1, scope)), Box::new(self.gen_expr(&t, depth - 1, scope)))
                    }
                    3 => {
                        self.tag("logic");
                        let op = if self.rng.bool() { BinOp::And } else { BinOp::Or };
                        let l = self.gen_expr(&Ty::Bool, depth - 1, scope);
                        let r = if self.f.effectful_logic { self.gen_expr(&Ty::Bool, depth - 1, scope) } else { self.gen_pure_bool(depth - 1, scope) };
                        Expr::Binary(op, Box::new(l), Box::new(r))
                    }
                    _ => self.gen_leaf(ty, scope),
                }
            }
            Ty::Int(t) => {
                self.tag("arith");
                let op = self.rng.pick(&[BinOp::Add, BinOp::Add, BinOp::Sub, BinOp::Mul, BinOp::Div]);
                let l = self.gen_expr(ty, depth - 1, scope);
                let r = if op == BinOp::Div {
                    if self.f.failures && self.rng.chance(1, 4) {
                        self.tag("div_var");
                        self.gen_expr(ty, depth - 1, scope)
                    } else {
                        // a non-zero literal divisor (never -1 to keep MIN/-1 for the numeric check)
                        let v = 2 + self.rng.below(7) as i128;
                        self.mk_int(*t, v.min(t.max_val()))
                    }
                } else {
                    self.gen_expr(ty, depth - 1, scope)
                };
                if self.rng.chance(1, 8) {
                    Expr::Unary(UnOp::Neg, Box::new(Expr::Binary(op, Box::new(l), Box::new(r))))
                } else {
                    Expr::Binary(op, Box::new(l), Box::new(r))
                }
            }
            Ty::F32 | Ty::F64 => {
                self.tag("float_arith");
                let op = self.rng.pick(&[BinOp::Add, BinOp::Sub, BinOp::Mul, BinOp::Div]);
                Expr::Binary(op, Box::new(self.gen_expr(ty, depth - 1, scope)), Box::new(self.gen_expr(ty, depth - 1, scope)))
            }
            Ty::Str => match self.rng.below(4) {
                0 | 1 => {
                    self.tag("concat");
                    Expr::Binary(BinOp::Add, Box::new(self.gen_expr(&Ty::Str, depth - 1, scope)), Box::new(self.gen_expr(&Ty::Str, depth - 1, scope)))
                }
                2 => {
                    self.tag("to_string");
                    let t = self.gen_int_ty();
                    Expr::Builtin(format!("{}_to_string", t.name()), vec![self.gen_expr(&Ty::Int(t), depth - 1, scope)])
                }
                _ => Expr::Builtin("bool_to_string".into(), vec![self.gen_expr(&Ty::Bool, depth - 1, scope)]),
            },
            Ty::Unit => {
                // a unit-valued effect
                match self.rng.below(3) {
                    0 => {
                        let s = self.gen_expr(&Ty::Str, depth - 1, scope);
                        Expr::Builtin("string_println".into(), vec![s])
                    }
                    1 if self.f.whiles => self.gen_while(depth, scope),
                    _ => Expr::Unit,
                }
            }
            Ty::Tuple(ts) => Expr::Tuple(ts.iter().map(|t| self.gen_expr(t, depth - 1, scope)).collect()),
            Ty::Array(t, n) => {
                if self.rng.chance(1, 3) {
                    self.tag("array_set");
                    // the array argument must have a syntactically evident type (a known variable or a
                    // literal): otherwise the builtin's wildcard length leaks into it (recorded finding)
                    let known: Vec<String> = self.vars_of(scope, ty).into_iter().filter(|v| v.known).map(|v| v.name.clone()).collect();
                    let base = if !known.is_empty() && self.rng.bool() {
                        Expr::Var(self.rng.pick_ref(&known).clone())
                    } else {
                        Expr::Array((0..*n).map(|_| self.gen_expr(t, depth - 1, scope)).collect())
                    };
                    let idx = self.rng.below(*n) as i128;
                    let v = self.gen_expr(t, depth - 1, scope);
                    Expr::Builtin("array_set".into(), vec![base, Expr::Int(IntTy::I32, idx, false), v])
                } else {
                    Expr::Array((0..*n).map(|_| self.gen_expr(t, depth - 1, scope)).collect())
                }
            }
            Ty::Vec(t) => self.gen_vec(t, depth - 1, scope),
            Ty::Ref(t) => Expr::Builtin("ref".into(), vec![self.gen_expr(t, depth - 1, scope)]),
            Ty::Struct(n, a) => {
                let mut fields = self.struct_fields(n, a);
                if self.f.struct_lit_permute && self.rng.bool() {
                    self.tag("struct_lit_permuted");
                    self.rng.shuffle(&mut fields);
                }
                Expr::StructLit { name: n.clone(), ty: ty.clone(), fields: fields.iter().map(|(f, t)| (f.clone(), self.gen_expr(t, depth - 1, scope))).collect() }
            }
            Ty::Enum(n, a) => {
                let vs = self.enum_variants(n, a);
                let (v, ts) = self.rng.pick_ref(&vs).clone();
                let e = Expr::Constr { enum_name: n.clone(), variant: v, ty: ty.clone(), args: ts.iter().map(|t| self.gen_expr(t, depth - 1, scope)).collect(), qualified: self.rng.chance(1, 3) };
                self.annotate_if_underdetermined(e, ty)
            }
            Ty::Func(ps, r) => self.gen_func_value(ps, r, depth - 1, scope),
            Ty::Param(_) | Ty::Dyn(_) => self.gen_leaf(ty, scope),
        }
    }

    fn gen_func_value_closure_only(&mut self, ps: &[Ty], r: &Ty, depth: u32, scope: &[Var]) -> Expr {
        self.force_closure_once = true;
        self.gen_func_value(ps, r, depth, scope)
    }

    /// a boolean expression without effects and without possible failure
    fn gen_pure_bool(&mut self, depth: u32, scope: &[Var]) -> Expr {
        let vars = self.vars_of(scope, &Ty::Bool);
        match self.rng.below(3) {
            0 if !vars.is_empty() => Expr::Var(self.rng.pick_ref(&vars).name.clone()),
            1 if depth > 0 => {
                let ivars = self.vars_of(scope, &I32);
                let l = if ivars.is_empty() { Expr::Int(IntTy::I32, self.rng.range(0, 9) as i128, false) } else { Expr::Var(self.rng.pick_ref(&ivars).name.clone()) };
                Expr::Binary(self.rng.pick(&[BinOp::Lt, BinOp::Eq, BinOp::Ge]), Box::new(l), Box::new(Expr::Int(IntTy::I32, self.rng.range(0, 9) as i128, false)))
            }
            _ => Expr::Bool(self.rng.bool()),
        }
    }

    /// { let ...; let ...; tail }
    pub fn gen_block(&mut self, ty: &Ty, depth: u32, scope: &[Var]) -> Expr {
        let mut inner: Vec<Var> = scope.to_vec();
        let mut stmts = Vec::new();
        let n = if depth == 0 { self.rng.below(2) } else { self.rng.below(4) };
        for _ in 0..n {
            let s = self.gen_stmt(depth, &mut inner);
            stmts.push(s);
        }
        let tail = self.gen_expr(ty, depth, &inner);
        Expr::Block(stmts, Some(Box::new(tail)))
    }

    /// `let d: dyn Tr = <value of an implementing type>;` (the coercion site) - returns the statement and binds d
    fn gen_dyn_let(&mut self, d: u32, inner: &mut Vec<Var>) -> Option<Stmt> {
        if self.trait_impls.is_empty() {
            return None;
        }
        // impls on generic instances (`impl Tr for S[int32]`) cannot be coerced to dyn in the clean lattice:
        // the dyn wrapper refers to an undefined function (recorded finding)
        let cands: Vec<(String, Ty)> = self
            .trait_impls
            .iter()
            .filter(|(_, t)| self.dyn_generic_instances || !matches!(t, Ty::Struct(_, a) | Ty::Enum(_, a) if !a.is_empty()))
            .cloned()
            .collect();
        if cands.is_empty() {
            return None;
        }
        let (tr, it) = self.rng.pick_ref(&cands).clone();
        // the coerced value must have a syntactically evident type (the typer refuses to coerce an
        // unresolved type): a known variable of that type, else a fresh annotated one
        let known: Vec<String> = self.vars_of(inner, &it).into_iter().filter(|v| v.known).map(|v| v.name.clone()).collect();
        let src = if !known.is_empty() && self.rng.bool() {
            Expr::Var(self.rng.pick_ref(&known).clone())
        } else {
            let v = self.gen_expr(&it, d, inner);
            let tmp = format!("dynsrc{}", self.counter);
            self.counter += 1;
            Expr::Block(vec![Stmt::Let(Pat::Var(tmp.clone()), Some(it.clone()), v)], Some(Box::new(Expr::Var(tmp))))
        };
        let n = self.fresh(inner);
        self.tag("dyn_coercion");
        inner.push(Var { name: n.clone(), ty: Ty::Dyn(tr.clone()), is_closure: false, known: true });
        Some(Stmt::Let(Pat::Var(n), Some(Ty::Dyn(tr.clone())), Expr::ToDyn(tr, Box::new(src))))
    }

    fn gen_stmt(&mut self, depth: u32, inner: &mut Vec<Var>) -> Stmt {
        let d = depth.saturating_sub(1);
        if self.f.dyn_traits && self.f.traits && self.rng.chance(1, 9) {
            if let Some(s) = self.gen_dyn_let(d, inner) {
                return s;
            }
        }
        if self.f.failures && self.rng.chance(1, 6) {
            // a discarded value: when its computation fails, the failure must still happen here
            self.tag("discarded_value");
            let t = self.gen_type(1);
            let e = self.gen_expr(&t, d, inner);
            return Stmt::Let(Pat::Wild, None, e);
        }
        match self.rng.below(10) {
            0 => {
                // effect statement
                let s = self.gen_expr(&Ty::Str, d, inner);
                Stmt::Let(Pat::Wild, None, Expr::Builtin("string_println".into(), vec![s]))
            }
            1 if self.f.refs => {
                // update of a Ref in scope
                let refs: Vec<Var> = inner.iter().filter(|v| matches!(v.ty, Ty::Ref(_))).cloned().collect();
                if let Some(r) = refs.last() {
                    if !inner.iter().rev().take_while(|v| v.name != r.name).any(|_| false) {
                        if let Ty::Ref(t) = &r.ty {
                            // only if the name is not shadowed by a later binding
                            let shadowed = inner.iter().rposition(|v| v.name == r.name).map(|i| inner[i].ty != r.ty).unwrap_or(false);
                            if !shadowed {
                                self.tag("ref_set");
                                let v = self.gen_expr(t, d, inner);
                                return Stmt::Let(Pat::Wild, None, Expr::Builtin("ref_set".into(), vec![Expr::Var(r.name.clone()), v]));
                            }
                        }
                    }
                }
                self.gen_let(d, inner)
            }
            2 if self.f.tuples => {
                // destructuring let of a tuple
                self.tag("let_tuple");
                let ts: Vec<Ty> = (0..2 + self.rng.below(2)).map(|_| self.gen_type(1)).collect();
                let e = self.gen_expr(&Ty::Tuple(ts.clone()), d, inner);
                let mut pats = Vec::new();
                let mut newvars = Vec::new();
                for t in &ts {
                    if self.rng.chance(1, 4) {
                        pats.push(Pat::Wild);
                    } else {
                        let n = self.fresh(inner);
                        if newvars.iter().any(|v: &Var| v.name == n) {
                            pats.push(Pat::Wild);
                        } else {
                            pats.push(Pat::Var(n.clone()));
                            newvars.push(Var { name: n, ty: t.clone(), is_closure: false, known: false });
                        }
                    }
                }
                inner.extend(newvars);
                Stmt::Let(Pat::Tuple(pats), None, e)
            }
            _ => self.gen_let(d, inner),
        }
    }

    fn gen_let(&mut self, d: u32, inner: &mut Vec<Var>) -> Stmt {
        let t = self.gen_type(2);
        let e = self.gen_expr(&t, d, inner);
        let n = self.fresh(inner);
        let ann = if self.rng.chance(1, 2) || matches!(t, Ty::Vec(_)) { Some(t.clone()) } else { None };
        inner.push(Var { name: n.clone(), ty: t, is_closure: false, known: ann.is_some() });
        Stmt::Let(Pat::Var(n), ann, e)
    }

    fn gen_while(&mut self, depth: u32, scope: &[Var]) -> Expr {
        self.tag("while");
        // { let i = ref(0); while ref_get(i) < N { body; ref_set(i, ref_get(i) + 1) } }
        let i = format!("loop_i{}", self.counter);
        self.counter += 1;
        let n = self.rng.below(4) as i128;
        let mut inner = scope.to_vec();
        inner.push(Var { name: i.clone(), ty: Ty::Ref(Box::new(I32)), is_closure: false, known: false });
        let mut body_stmts = Vec::new();
        // body must not touch the counter: hide it from the body's scope
        let body_scope: Vec<Var> = scope.to_vec();
        let k = 1 + self.rng.below(2);
        let mut bs = body_scope.clone();
        for _ in 0..k {
            let s = self.gen_stmt(depth.saturating_sub(1), &mut bs);
            body_stmts.push(s);
        }
        let get_i = Expr::Builtin("ref_get".into(), vec![Expr::Var(i.clone())]);
        body_stmts.push(Stmt::Let(
            Pat::Wild,
            None,
            Expr::Builtin("ref_set".into(), vec![Expr::Var(i.clone()), Expr::Binary(BinOp::Add, Box::new(get_i.clone()), Box::new(Expr::Int(IntTy::I32, 1, false)))]),
        ));
        // the body's let-bound names could shadow the counter name only if equal, which the naming scheme excludes
        let w = Expr::While(Box::new(Expr::Binary(BinOp::Lt, Box::new(get_i), Box::new(Expr::Int(IntTy::I32, n, false)))), Box::new(Expr::Block(body_stmts, None)));
        Expr::Block(vec![Stmt::Let(Pat::Var(i), None, Expr::Builtin("ref".into(), vec![Expr::Int(IntTy::I32, 0, false)])), Stmt::Expr(w)], Some(Box::new(Expr::Unit)))
    }

    /// a call producing `ty`: user function (earlier in the DAG), builtin accessor, method
    fn gen_call(&mut self, ty: &Ty, depth: u32, scope: &[Var]) -> Option<Expr> {
        let d = depth - 1;
        let mut cands: Vec<usize> = Vec::new();
        for (i, f) in self.fns.iter().enumerate() {
            if i >= self.cur_fn_index {
                break;
            }
            if matches!(f.ret, Ty::Func(..)) {
                continue; // closure-returning functions are only applied directly in main
            }
            if f.tparams.is_empty() {
                if &f.ret == ty {
                    cands.push(i);
                }
            } else if self.f.generic_fns {
                // generic: ret is Param A or mentions A; unify trivially when ret == Param(A)
                if let Ty::Param(_) = &f.ret {
                    if !matches!(ty, Ty::Param(_) | Ty::Dyn(_) | Ty::Func(..)) {
                        cands.push(i);
                    }
                } else if &f.ret == ty && !f.ret.has_param() {
                    cands.push(i);
                }
            }
        }
        // trait / inherent methods returning ty
        let mut mcands: Vec<(Option<String>, Ty, String, Vec<Ty>)> = Vec::new();
        for t in &self.traits {
            for m in &t.methods {
                if &m.ret == ty {
                    for (tn, it) in &self.trait_impls {
                        if tn == &t.name {
                            mcands.push((Some(t.name.clone()), it.clone(), m.name.clone(), m.extra.clone()));
                        }
                    }
                }
            }
        }
        for (it, name, extra, ret) in &self.inherent {
            if ret == ty && !it.has_param() {
                mcands.push((None, it.clone(), name.clone(), extra.clone()));
            }
        }
        // dynamic dispatch through a `dyn Tr` variable in scope
        let mut dcands: Vec<(String, String, String, Vec<Ty>)> = Vec::new();
        for (i, v) in scope.iter().enumerate() {
            if let Ty::Dyn(tr) = &v.ty {
                if scope[i + 1..].iter().any(|w| w.name == v.name) {
                    continue;
                }
                if let Some(t) = self.traits.iter().find(|t| &t.name == tr) {
                    for m in &t.methods {
                        if &m.ret == ty {
                            dcands.push((v.name.clone(), tr.clone(), m.name.clone(), m.extra.clone()));
                        }
                    }
                }
            }
        }
        if !dcands.is_empty() && self.rng.chance(1, 2) {
            let (var, tr, m, extra) = self.rng.pick_ref(&dcands).clone();
            let mut args = vec![Expr::Var(var)];
            for e in &extra {
                args.push(self.gen_expr(e, d, scope));
            }
            self.tag("dyn_call");
            return Some(Expr::AssocCall { head: tr, method: m, args });
        }
        let total = cands.len() + mcands.len();
        if total == 0 {
            return None;
        }
        let pick = self.rng.below(total);
        if pick < cands.len() {
            let f = self.fns[cands[pick]].clone();
            let mut targs: Vec<(String, Ty)> = Vec::new();
            if !f.tparams.is_empty() {
                self.tag("generic_call");
                for (p, bounds) in &f.tparams {
                    let t = if f.ret == Ty::Param(p.clone()) {
                        ty.clone()
                    } else if !bounds.is_empty() {
                        // a type implementing all bounds
                        let ok: Vec<Ty> = self.trait_impls.iter().filter(|(tn, _)| bounds.contains(tn)).map(|(_, t)| t.clone()).filter(|t| bounds.iter().all(|b| self.trait_impls.iter().any(|(tn, tt)| tn == b && tt == t))).collect();
                        if ok.is_empty() {
                            return None;
                        }
                        self.rng.pick_ref(&ok).clone()
                    } else {
                        self.gen_type(1)
                    };
                    // bounded and returned: the return type must itself satisfy the bounds
                    if !bounds.is_empty() && !bounds.iter().all(|b| self.trait_impls.iter().any(|(tn, tt)| tn == b && tt == &t)) {
                        return None;
                    }
                    targs.push((p.clone(), t));
                }
            } else {
                self.tag("call");
            }
            let args: Vec<Expr> = f.params.iter().map(|(_, pt)| self.gen_expr(&pt.subst(&targs), d, scope)).collect();
            return Some(Expr::Call { name: f.name.clone(), targs, args });
        }
        let (tr, it, m, extra) = mcands[pick - cands.len()].clone();
        let recv = self.gen_expr(&it, d, scope);
        let mut args = vec![recv];
        for e in &extra {
            args.push(self.gen_expr(e, d, scope));
        }
        match tr {
            Some(t) => {
                self.tag("trait_static_call");
                Some(Expr::AssocCall { head: t, method: m, args })
            }
            None => {
                let tyname = match &it {
                    Ty::Struct(n, _) | Ty::Enum(n, _) => n.clone(),
                    other => other.src(),
                };
                if self.rng.bool() {
                    self.tag("method_call");
                    let recv = args.remove(0);
                    let rn = format!("recv{}", self.counter);
                    self.counter += 1;
                    Some(Expr::Block(
                        vec![Stmt::Let(Pat::Var(rn.clone()), Some(it.clone()), recv)],
                        Some(Box::new(Expr::MethodCall { recv: Box::new(Expr::Var(rn)), method: m, args })),
                    ))
                } else {
                    self.tag("assoc_call");
                    Some(Expr::AssocCall { head: tyname, method: m, args })
                }
            }
        }
    }

    /// field access / tuple projection / array_get / ref_get / vec_get from a variable in scope
    fn gen_projection(&mut self, ty: &Ty, depth: u32, scope: &[Var]) -> Option<Expr> {
        let mut cands: Vec<Expr> = Vec::new();
        for (i, v) in scope.iter().enumerate() {
            if scope[i + 1..].iter().any(|w| w.name == v.name) {
                continue;
            }
            match &v.ty {
                Ty::Struct(n, a) => {
                    for (f, t) in self.struct_fields(n, a) {
                        if &t == ty {
                            cands.push(Expr::Field(Box::new(Expr::Var(v.name.clone())), f));
                        }
                    }
                }
                Ty::Tuple(ts) if v.known => {
                    for (k, t) in ts.iter().enumerate() {
                        if t == ty {
                            cands.push(Expr::Proj(Box::new(Expr::Var(v.name.clone())), k));
                        }
                    }
                }
                Ty::Array(t, n) if &**t == ty && v.known => {
                    let idx = if self.f.failures && self.rng.chance(1, 6) { *n as i128 + self.rng.below(2) as i128 } else { self.rng.below(*n) as i128 };
                    cands.push(Expr::Builtin("array_get".into(), vec![Expr::Var(v.name.clone()), Expr::Int(IntTy::I32, idx, false)]));
                }
                Ty::Ref(t) if &**t == ty => {
                    cands.push(Expr::Builtin("ref_get".into(), vec![Expr::Var(v.name.clone())]));
                }
                // a vector's length is not known here: indexing may fail, so only where failures are wanted
                Ty::Vec(t) if &**t == ty && v.known && self.f.failures => {
                    self.tag("vec_get_may_fail");
                    cands.push(Expr::Builtin("vec_get".into(), vec![Expr::Var(v.name.clone()), Expr::Int(IntTy::I32, self.rng.below(3) as i128, false)]));
                }
                _ => {}
            }
        }
        let _ = depth;
        if cands.is_empty() {
            return None;
        }
        self.tag("projection");
        Some(self.rng.pick_ref(&cands).clone())
    }

    // ------------------------------------------------------------ match

    /// pattern for a value of type `ty`; returns (pattern, bound variables); `refutable` says whether it may fail
    fn gen_pat(&mut self, ty: &Ty, depth: u32, scope: &[Var], binds: &mut Vec<Var>, allow_refutable: bool) -> Pat {
        let roll = self.rng.below(10);
        if roll < 2 {
            return Pat::Wild;
        }
        if roll < 5 || depth == 0 {
            let n = self.fresh(scope);
            if binds.iter().any(|v| v.name == n) {
                return Pat::Wild;
            }
            binds.push(Var { name: n.clone(), ty: ty.clone(), is_closure: false, known: false });
            return Pat::Var(n);
        }
        match ty {
            Ty::Unit => Pat::Unit,
            Ty::Bool if allow_refutable => Pat::Bool(self.rng.bool()),
            Ty::Int(t) if allow_refutable => {
                let v = self.rng.below(4) as i128;
                Pat::Int(*t, v, *t != IntTy::I32)
            }
            Ty::Str if allow_refutable => Pat::Str(self.rng.pick(&["", "a", "b", "ab"]).to_string()),
            Ty::Tuple(ts) if self.f.nested_patterns || depth > 0 => Pat::Tuple(ts.iter().map(|t| self.gen_pat(t, depth - 1, scope, binds, allow_refutable)).collect()),
            Ty::Struct(n, a) => {
                let fields = self.struct_fields(n, a);
                let mut fs = Vec::new();
                for (f, t) in fields {
                    if self.rng.chance(1, 5) {
                        continue; // struct patterns may omit fields? keep all to be safe
                    }
                    fs.push((f, self.gen_pat(&t, depth - 1, scope, binds, allow_refutable)));
                }
                // all fields are listed (omitting fields is not known to be supported)
                let all = self.struct_fields(n, a);
                for (f, _) in all {
                    if !fs.iter().any(|(g, _)| g == &f) {
                        fs.push((f, Pat::Wild));
                    }
                }
                Pat::Struct { name: n.clone(), fields: fs }
            }
            Ty::Enum(n, a) if allow_refutable => {
                let vs = self.enum_variants(n, a);
                let (v, ts) = self.rng.pick_ref(&vs).clone();
                Pat::Constr { enum_name: n.clone(), variant: v, args: ts.iter().map(|t| self.gen_pat(t, depth - 1, scope, binds, allow_refutable)).collect(), qualified: self.rng.chance(1, 3) }
            }
            _ => {
                let n = self.fresh(scope);
                if binds.iter().any(|v| v.name == n) {
                    return Pat::Wild;
                }
                binds.push(Var { name: n.clone(), ty: ty.clone(), is_closure: false, known: false });
                Pat::Var(n)
            }
        }
    }

    fn matchable_type(&mut self) -> Ty {
        let mut opts: Vec<Ty> = vec![Ty::Bool, I32, Ty::Tuple(vec![Ty::Bool, I32])];
        if self.f.int_widths {
            opts.push(Ty::Int(self.rng.pick(&ALL_INTS)));
        }
        if self.f.strings {
            opts.push(Ty::Str);
        }
        for e in self.enums.clone() {
            let args: Vec<Ty> = e.tparams.iter().map(|_| self.gen_type(0)).collect();
            opts.push(Ty::Enum(e.name.clone(), args.clone()));
            opts.push(Ty::Enum(e.name.clone(), args));
        }
        for s in self.structs.clone() {
            let args: Vec<Ty> = s.tparams.iter().map(|_| self.gen_type(0)).collect();
            opts.push(Ty::Struct(s.name.clone(), args));
        }
        if self.f.tuples {
            let a = self.gen_type(1);
            let b = self.gen_type(1);
            opts.push(Ty::Tuple(vec![a, b]));
        }
        self.rng.pick_ref(&opts).clone()
    }

    fn gen_match(&mut self, ty: &Ty, depth: u32, scope: &[Var]) -> Expr {
        self.tag("match");
        let st = self.matchable_type();
        let scrut = self.gen_expr(&st, depth - 1, scope);
        // the scrutinee is sometimes a variable that the arms match again (one or two sibling matches on the
        // same variable inside an arm of the match on it)
        let mut outer_scope = scope.to_vec();
        let mut bound: Option<(String, Expr)> = None;
        let (scrut, rematch_var) = match &scrut {
            Expr::Var(n) if self.rng.chance(1, 2) => (scrut.clone(), Some(n.clone())),
            Expr::Var(_) => (scrut, None),
            _ if self.rng.chance(1, 5) => {
                let n = self.fresh(scope);
                outer_scope.push(Var { name: n.clone(), ty: st.clone(), is_closure: false, known: false });
                bound = Some((n.clone(), scrut));
                (Expr::Var(n.clone()), Some(n))
            }
            _ => (scrut, None),
        };
        let scope: &[Var] = &outer_scope;
        let narms = 1 + self.rng.below(4);
        let mut arms = Vec::new();
        for _ in 0..narms {
            let mut binds = Vec::new();
            let p = self.gen_pat(&st, 2, scope, &mut binds, true);
            let mut inner = scope.to_vec();
            inner.extend(binds);
            let mut stmts = Vec::new();
            if let Some(x) = &rematch_var {
                // the arm's own pattern variables may shadow the scrutinee variable
                if self.rng.chance(1, 2) && !inner.iter().skip(scope.len()).any(|v| &v.name == x) {
                    self.tag("rematch_in_arm");
                    for _ in 0..1 + self.rng.below(2) {
                        let mut rarms = Vec::new();
                        for _ in 0..1 + self.rng.below(2) {
                            let mut rb = Vec::new();
                            let rp = self.gen_pat(&st, 1, &inner, &mut rb, true);
                            let mut ri = inner.clone();
                            ri.extend(rb);
                            rarms.push((rp, self.gen_expr(&I32, 1, &ri)));
                        }
                        rarms.push((Pat::Wild, self.gen_expr(&I32, 0, &inner)));
                        let rn = self.fresh(&inner);
                        stmts.push(Stmt::Let(Pat::Var(rn.clone()), None, Expr::Match(Box::new(Expr::Var(x.clone())), rarms)));
                        // (adversarial naming may reuse the scrutinee's own name: no further match on it then)
                        let shadows = &rn == x;
                        inner.push(Var { name: rn, ty: I32, is_closure: false, known: false });
                        if shadows {
                            break;
                        }
                    }
                }
            }
            // the arm's value is generated in the scope after those statements
            let mut body = self.gen_expr(ty, depth - 1, &inner);
            if !stmts.is_empty() {
                body = Expr::Block(stmts, Some(Box::new(body)));
            }
            arms.push((p, body));
        }
        // catch-all unless failures are wanted
        if !(self.f.failures && self.rng.chance(1, 5)) {
            let mut binds = Vec::new();
            let p = if self.rng.bool() {
                Pat::Wild
            } else {
                let n = self.fresh(scope);
                binds.push(Var { name: n.clone(), ty: st.clone(), is_closure: false, known: false });
                Pat::Var(n)
            };
            let mut inner = scope.to_vec();
            inner.extend(binds);
            arms.push((p, self.gen_expr(ty, depth - 1, &inner)));
        } else {
            self.tag("match_maybe_missing");
        }
        let m = Expr::Match(Box::new(scrut), arms);
        match bound {
            Some((n, e)) => Expr::Block(vec![Stmt::Let(Pat::Var(n), None, e)], Some(Box::new(m))),
            None => m,
        }
    }

    // ------------------------------------------------------------ show

    /// expression of type string rendering `e : ty` (monomorphic types only)
    pub fn show(&mut self, e: Expr, ty: &Ty) -> Expr {
        match ty {
            Ty::Unit => Expr::Builtin("unit_to_string".into(), vec![e]),
            Ty::Bool => Expr::Builtin("bool_to_string".into(), vec![e]),
            Ty::Int(t) => Expr::Builtin(format!("{}_to_string", t.name()), vec![e]),
            Ty::Str => Expr::Binary(BinOp::Add, Box::new(Expr::Binary(BinOp::Add, Box::new(Expr::Str("'".into())), Box::new(e))), Box::new(Expr::Str("'".into()))),
            _ => {
                let name = self.show_fn(ty);
                Expr::Call { name, targs: vec![], args: vec![e] }
            }
        }
    }

    fn concat(parts: Vec<Expr>) -> Expr {
        let mut it = parts.into_iter();
        let mut acc = it.next().unwrap_or(Expr::Str(String::new()));
        for p in it {
            acc = Expr::Binary(BinOp::Add, Box::new(acc), Box::new(p));
        }
        acc
    }

    fn show_fn(&mut self, ty: &Ty) -> String {
        if let Some(n) = self.show_fns.get(ty) {
            return n.clone();
        }
        let name = format!("show_{}", ty.mangle());
        self.show_fns.insert(ty.clone(), name.clone());
        let x = Expr::Var("x".into());
        let body = match ty {
            Ty::F32 | Ty::F64 => {
                // floats are observed through comparisons only (printing is C10's business)
                let is32 = *ty == Ty::F32;
                let mut parts = vec![Expr::Str("f".into())];
                for th in [-100.0, -1.0, 0.0, 0.5, 1.0, 2.5, 10.0, 100.0] {
                    parts.push(Expr::Builtin("bool_to_string".into(), vec![Expr::Binary(BinOp::Lt, Box::new(x.clone()), Box::new(Expr::Float(is32, th)))]));
                    parts.push(Expr::Str(",".into()));
                }
                Self::concat(parts)
            }
            Ty::Tuple(ts) => {
                let names: Vec<String> = (0..ts.len()).map(|i| format!("c{}", i)).collect();
                let mut parts = vec![Expr::Str("(".into())];
                for (i, t) in ts.iter().enumerate() {
                    if i > 0 {
                        parts.push(Expr::Str(",".into()));
                    }
                    parts.push(self.show(Expr::Var(names[i].clone()), t));
                }
                parts.push(Expr::Str(")".into()));
                Expr::Block(vec![Stmt::Let(Pat::Tuple(names.iter().map(|n| Pat::Var(n.clone())).collect()), None, x.clone())], Some(Box::new(Self::concat(parts))))
            }
            Ty::Array(t, n) => {
                let mut parts = vec![Expr::Str("[".into())];
                for i in 0..*n {
                    if i > 0 {
                        parts.push(Expr::Str(",".into()));
                    }
                    let el = Expr::Builtin("array_get".into(), vec![x.clone(), Expr::Int(IntTy::I32, i as i128, false)]);
                    parts.push(self.show(el, t));
                }
                parts.push(Expr::Str("]".into()));
                Self::concat(parts)
            }
            Ty::Vec(t) => {
                // loop with Ref accumulators
                let get_i = Expr::Builtin("ref_get".into(), vec![Expr::Var("i".into())]);
                let get_acc = Expr::Builtin("ref_get".into(), vec![Expr::Var("acc".into())]);
                let el = self.show(Expr::Builtin("vec_get".into(), vec![x.clone(), get_i.clone()]), t);
                let body = Expr::Block(
                    vec![
                        Stmt::Let(Pat::Wild, None, Expr::Builtin("ref_set".into(), vec![Expr::Var("acc".into()), Self::concat(vec![get_acc.clone(), el, Expr::Str(";".into())])])),
                        Stmt::Let(Pat::Wild, None, Expr::Builtin("ref_set".into(), vec![Expr::Var("i".into()), Expr::Binary(BinOp::Add, Box::new(get_i.clone()), Box::new(Expr::Int(IntTy::I32, 1, false)))])),
                    ],
                    None,
                );
                Expr::Block(
                    vec![
                        Stmt::Let(Pat::Var("i".into()), None, Expr::Builtin("ref".into(), vec![Expr::Int(IntTy::I32, 0, false)])),
                        Stmt::Let(Pat::Var("acc".into()), None, Expr::Builtin("ref".into(), vec![Expr::Str("<".into())])),
                        Stmt::Expr(Expr::While(Box::new(Expr::Binary(BinOp::Lt, Box::new(get_i), Box::new(Expr::Builtin("vec_len".into(), vec![x.clone()])))), Box::new(body))),
                    ],
                    Some(Box::new(Self::concat(vec![get_acc, Expr::Str(">".into())]))),
                )
            }
            Ty::Ref(t) => {
                let inner = self.show(Expr::Builtin("ref_get".into(), vec![x.clone()]), t);
                Self::concat(vec![Expr::Str("&".into()), inner])
            }
            Ty::Struct(n, a) => {
                let fields = self.struct_fields(n, a);
                let mut parts = vec![Expr::Str(format!("{}{{", n))];
                for (i, (f, t)) in fields.iter().enumerate() {
                    if i > 0 {
                        parts.push(Expr::Str(",".into()));
                    }
                    parts.push(self.show(Expr::Field(Box::new(x.clone()), f.clone()), t));
                }
                parts.push(Expr::Str("}".into()));
                Self::concat(parts)
            }
            Ty::Enum(n, a) => {
                let vs = self.enum_variants(n, a);
                let mut arms = Vec::new();
                for (v, ts) in vs {
                    let names: Vec<String> = (0..ts.len()).map(|i| format!("c{}", i)).collect();
                    let mut parts = vec![Expr::Str(format!("{}(", v))];
                    for (i, t) in ts.iter().enumerate() {
                        if i > 0 {
                            parts.push(Expr::Str(",".into()));
                        }
                        parts.push(self.show(Expr::Var(names[i].clone()), t));
                    }
                    parts.push(Expr::Str(")".into()));
                    arms.push((Pat::Constr { enum_name: n.clone(), variant: v, args: names.iter().map(|n| Pat::Var(n.clone())).collect(), qualified: true }, Self::concat(parts)));
                }
                Expr::Match(Box::new(x.clone()), arms)
            }
            Ty::Func(ps, r) => {
                // apply to fixed sample arguments and show the result
                let args: Vec<Expr> = ps.iter().map(|p| self.sample_value(p)).collect();
                let res = self.show(Expr::CallValue(Box::new(x.clone()), args), r);
                Self::concat(vec![Expr::Str("fn->".into()), res])
            }
            _ => Expr::Str("?".into()),
        };
        self.show_items.push(FnDecl { name: name.clone(), tparams: vec![], params: vec![("x".into(), ty.clone())], ret: Ty::Str, body });
        name
    }

    /// a fixed simple value of a type (for showing function values)
    fn sample_value(&mut self, ty: &Ty) -> Expr {
        match ty {
            Ty::Unit => Expr::Unit,
            Ty::Bool => Expr::Bool(true),
            Ty::Int(t) => Expr::Int(*t, 3, *t != IntTy::I32),
            Ty::F32 => Expr::Float(true, 1.5),
            Ty::F64 => Expr::Float(false, 2.5),
            Ty::Str => Expr::Str("s".into()),
            _ => self.gen_leaf(ty, &[]),
        }
    }

    // ------------------------------------------------------------ functions and main

    pub fn gen_fn(&mut self, index: usize) -> FnDecl {
        self.cur_fn_index = index;
        let generic = self.f.generic_fns && self.rng.chance(1, 4);
        let bounded = generic && self.f.traits && !self.traits.is_empty() && self.rng.chance(1, 2);
        let name = format!("fun{}", index);
        if generic {
            self.tag("generic_fn");
            let bounds: Vec<String> = if bounded { vec![self.rng.pick_ref(&self.traits).name.clone()] } else { vec![] };
            self.tparams = vec![("A".into(), bounds.clone())];
            let a = Ty::Param("A".into());
            let mut params = vec![(format!("ga{}", index), a.clone())];
            let extra = self.rng.below(2);
            for j in 0..extra {
                params.push((format!("gp{}_{}", index, j), self.gen_type(1)));
            }
            if self.rng.chance(1, 3) {
                params.push((format!("gb{}", index), a.clone()));
            }
            let ret = if bounded && self.rng.bool() {
                // use the bound: call a trait method on the parameter
                let t = self.traits.iter().find(|t| t.name == bounds[0]).unwrap().clone();
                let m = self.rng.pick_ref(&t.methods).clone();
                m.ret.clone()
            } else if self.rng.bool() {
                a.clone()
            } else {
                self.gen_type(1)
            };
            let scope: Vec<Var> = params.iter().map(|(n, t)| Var { name: n.clone(), ty: t.clone(), is_closure: false, known: true }).collect();
            let body = if bounded && !matches!(ret, Ty::Param(_)) && self.rng.chance(2, 3) {
                self.tag("bound_call");
                let t = self.traits.iter().find(|t| t.name == bounds[0]).unwrap().clone();
                let ms: Vec<MethodSig> = t.methods.iter().filter(|m| m.ret == ret).cloned().collect();
                if let Some(m) = ms.first() {
                    let mut args = vec![Expr::Var(params[0].0.clone())];
                    for e in &m.extra {
                        args.push(self.gen_expr(e, 1, &scope));
                    }
                    let call = if self.rng.bool() {
                        Expr::AssocCall { head: t.name.clone(), method: m.name.clone(), args }
                    } else {
                        let recv = args.remove(0);
                        Expr::MethodCall { recv: Box::new(recv), method: m.name.clone(), args }
                    };
                    Expr::Block(vec![], Some(Box::new(call)))
                } else {
                    self.gen_block(&ret, self.f.max_depth.min(2), &scope)
                }
            } else {
                self.gen_block(&ret, self.f.max_depth.min(3), &scope)
            };
            let tparams = self.tparams.clone();
            self.tparams.clear();
            return FnDecl { name, tparams, params, ret, body };
        }
        let np = self.rng.below(4);
        let mut params = Vec::new();
        for j in 0..np {
            let t = if self.f.fn_values && self.rng.chance(1, 8) {
                // a function-typed parameter (callers pass top-level functions)
                Ty::Func(vec![I32], Box::new(I32))
            } else {
                self.gen_type(2)
            };
            params.push((format!("p{}_{}", index, j), t));
        }
        let ret = if self.f.closures && self.f.closure_flows && self.rng.chance(1, 8) {
            self.tag("closure_return");
            Ty::Func(vec![self.gen_type(0)], Box::new(self.gen_type(1)))
        } else {
            self.gen_type(2)
        };
        let scope: Vec<Var> = params.iter().map(|(n, t)| Var { name: n.clone(), ty: t.clone(), is_closure: false, known: true }).collect();
        let body = if let Ty::Func(ps, r) = &ret {
            // returning a closure (never a top-level fn, to keep the lifted type consistent)
            let clo = self.gen_func_value_closure_only(ps, r, 2, &scope);
            Expr::Block(vec![], Some(Box::new(clo)))
        } else {
            self.gen_block(&ret, self.f.max_depth, &scope)
        };
        FnDecl { name, tparams: vec![], params, ret, body }
    }

    pub fn gen_program(mut self) -> (Program, std::collections::BTreeSet<&'static str>) {
        self.gen_decls();
        // a couple of plain helper functions usable as function values
        self.fns.push(FnDecl { name: "inc".into(), tparams: vec![], params: vec![("v".into(), I32)], ret: I32, body: Expr::Block(vec![], Some(Box::new(Expr::Binary(BinOp::Add, Box::new(Expr::Var("v".into())), Box::new(Expr::Int(IntTy::I32, 1, false)))))) });
        self.fns.push(FnDecl { name: "dbl".into(), tparams: vec![], params: vec![("v".into(), I32)], ret: I32, body: Expr::Block(vec![], Some(Box::new(Expr::Binary(BinOp::Mul, Box::new(Expr::Var("v".into())), Box::new(Expr::Int(IntTy::I32, 2, false)))))) });
        self.cur_fn_index = 2;
        self.gen_impls();
        let n = self.f.n_fns;
        for i in 0..n {
            let idx = self.fns.len();
            let f = self.gen_fn(idx);
            let _ = i;
            self.fns.push(f);
        }
        // main: call every function with generated arguments and print the shown result
        self.cur_fn_index = self.fns.len();
        let mut stmts = Vec::new();
        let fns = self.fns.clone();
        for f in fns.iter().skip(2) {
            let mut targs = Vec::new();
            let mut ok = true;
            for (p, bounds) in &f.tparams {
                let t = if bounds.is_empty() {
                    self.gen_type(1)
                } else {
                    let okk: Vec<Ty> = self.trait_impls.iter().filter(|(tn, _)| bounds.contains(tn)).map(|(_, t)| t.clone()).collect();
                    if okk.is_empty() {
                        ok = false;
                        break;
                    }
                    self.rng.pick_ref(&okk).clone()
                };
                targs.push((p.clone(), t));
            }
            if !ok {
                continue;
            }
            let args: Vec<Expr> = f.params.iter().map(|(_, t)| self.gen_expr(&t.subst(&targs), 2, &[])).collect();
            let rt = f.ret.subst(&targs);
            let call = Expr::Call { name: f.name.clone(), targs, args };
            let res = format!("r_{}", f.name);
            stmts.push(Stmt::Let(Pat::Var(res.clone()), None, call));
            let (shown_expr, shown_ty) = if let Ty::Func(ps, r) = &rt {
                let args: Vec<Expr> = ps.iter().map(|p| self.sample_value(p)).collect();
                (Expr::CallValue(Box::new(Expr::Var(res.clone())), args), (**r).clone())
            } else {
                (Expr::Var(res), rt.clone())
            };
            let rt = shown_ty;
            let shown = self.show(shown_expr, &rt);
            stmts.push(Stmt::Let(Pat::Wild, None, Expr::Builtin("string_println".into(), vec![Self::concat(vec![Expr::Str(format!("{}=", f.name)), shown])])));
        }
        // a few inline expressions
        for k in 0..3 {
            let t = self.gen_type(2);
            let e = self.gen_expr(&t, self.f.max_depth, &[]);
            let n = format!("inl{}", k);
            stmts.push(Stmt::Let(Pat::Var(n.clone()), if matches!(t, Ty::Vec(_)) { Some(t.clone()) } else { None }, e));
            let shown = self.show(Expr::Var(n), &t);
            stmts.push(Stmt::Let(Pat::Wild, None, Expr::Builtin("string_println".into(), vec![shown])));
        }
        let main = FnDecl { name: "main".into(), tparams: vec![], params: vec![], ret: Ty::Unit, body: Expr::Block(stmts, Some(Box::new(Expr::Unit))) };
        let mut prog = self.prog;
        for f in self.fns {
            prog.items.push(Item::Fn(f));
        }
        for f in self.show_items {
            prog.items.push(Item::Fn(f));
        }
        prog.items.push(Item::Fn(main));
        (prog, self.tags)
    }
}

fn mentions(t: &Ty, p: &str) -> bool {
    match t {
        Ty::Param(n) => n == p,
        Ty::Tuple(ts) => ts.iter().any(|t| mentions(t, p)),
        Ty::Array(t, _) | Ty::Vec(t) | Ty::Ref(t) => mentions(t, p),
        Ty::Func(ps, r) => ps.iter().any(|t| mentions(t, p)) || mentions(r, p),
        Ty::Struct(_, a) | Ty::Enum(_, a) => a.iter().any(|t| mentions(t, p)),
        _ => false,
    }
}

pub fn generate(rng: &mut Rng, f: Features) -> (Program, std::collections::BTreeSet<&'static str>) {
    Gen::new(rng, f).gen_program()
}
