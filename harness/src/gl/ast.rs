//! GL: the generator's own typed program tree for goml source programs (independent of the compiler's AST).
use std::fmt::Write;

#[derive(Clone, Copy, PartialEq, Eq, Hash, Debug, PartialOrd, Ord)]
pub enum IntTy {
    I8,
    I16,
    I32,
    I64,
    U8,
    U16,
    U32,
    U64,
}
pub const ALL_INTS: [IntTy; 8] = [IntTy::I8, IntTy::I16, IntTy::I32, IntTy::I64, IntTy::U8, IntTy::U16, IntTy::U32, IntTy::U64];

impl IntTy {
    pub fn name(self) -> &'static str {
        match self {
            IntTy::I8 => "int8",
            IntTy::I16 => "int16",
            IntTy::I32 => "int32",
            IntTy::I64 => "int64",
            IntTy::U8 => "uint8",
            IntTy::U16 => "uint16",
            IntTy::U32 => "uint32",
            IntTy::U64 => "uint64",
        }
    }
    pub fn suffix(self) -> &'static str {
        match self {
            IntTy::I8 => "i8",
            IntTy::I16 => "i16",
            IntTy::I32 => "i32",
            IntTy::I64 => "i64",
            IntTy::U8 => "u8",
            IntTy::U16 => "u16",
            IntTy::U32 => "u32",
            IntTy::U64 => "u64",
        }
    }
    pub fn bits(self) -> u32 {
        match self {
            IntTy::I8 | IntTy::U8 => 8,
            IntTy::I16 | IntTy::U16 => 16,
            IntTy::I32 | IntTy::U32 => 32,
            IntTy::I64 | IntTy::U64 => 64,
        }
    }
    pub fn signed(self) -> bool {
        matches!(self, IntTy::I8 | IntTy::I16 | IntTy::I32 | IntTy::I64)
    }
    pub fn min_val(self) -> i128 {
        if self.signed() { -(1i128 << (self.bits() - 1)) } else { 0 }
    }
    pub fn max_val(self) -> i128 {
        if self.signed() { (1i128 << (self.bits() - 1)) - 1 } else { (1i128 << self.bits()) - 1 }
    }
    /// reduce modulo 2^N into the type's range
    pub fn wrap(self, v: i128) -> i128 {
        let m = 1i128 << self.bits();
        let mut r = v.rem_euclid(m);
        if self.signed() && r > self.max_val() {
            r -= m;
        }
        r
    }
}

#[derive(Clone, PartialEq, Eq, Hash, Debug, PartialOrd, Ord)]
pub enum Ty {
    Unit,
    Bool,
    Int(IntTy),
    F32,
    F64,
    Str,
    Tuple(Vec<Ty>),
    Array(Box<Ty>, usize),
    Vec(Box<Ty>),
    Ref(Box<Ty>),
    Func(Vec<Ty>, Box<Ty>),
    Struct(String, Vec<Ty>),
    Enum(String, Vec<Ty>),
    Param(String),
    Dyn(String),
}

pub const I32: Ty = Ty::Int(IntTy::I32);

impl Ty {
    pub fn src(&self) -> String {
        match self {
            Ty::Unit => "unit".into(),
            Ty::Bool => "bool".into(),
            Ty::Int(i) => i.name().into(),
            Ty::F32 => "float32".into(),
            Ty::F64 => "float64".into(),
            Ty::Str => "string".into(),
            Ty::Tuple(ts) => format!("({})", ts.iter().map(|t| t.src()).collect::<Vec<_>>().join(", ")),
            Ty::Array(t, n) => format!("[{}; {}]", t.src(), n),
            Ty::Vec(t) => format!("Vec[{}]", t.src()),
            Ty::Ref(t) => format!("Ref[{}]", t.src()),
            Ty::Func(ps, r) => format!("({}) -> {}", ps.iter().map(|t| t.src()).collect::<Vec<_>>().join(", "), r.src()),
            Ty::Struct(n, a) | Ty::Enum(n, a) => {
                if a.is_empty() {
                    n.clone()
                } else {
                    format!("{}[{}]", n, a.iter().map(|t| t.src()).collect::<Vec<_>>().join(", "))
                }
            }
            Ty::Param(n) => n.clone(),
            Ty::Dyn(t) => format!("dyn {}", t),
        }
    }
    /// identifier-safe mangled name (for helper function names)
    pub fn mangle(&self) -> String {
        let s = self.src();
        let mut o = String::new();
        for c in s.chars() {
            if c.is_ascii_alphanumeric() {
                o.push(c);
            } else if c == '[' || c == '(' {
                o.push('L');
            } else if c == ']' || c == ')' {
                o.push('R');
            } else if c == '>' {
                o.push('T');
            } else if c == ',' || c == ';' {
                o.push('c');
            }
        }
        o
    }
    pub fn subst(&self, m: &[(String, Ty)]) -> Ty {
        match self {
            Ty::Param(n) => m.iter().find(|(k, _)| k == n).map(|(_, t)| t.clone()).unwrap_or_else(|| self.clone()),
            Ty::Tuple(ts) => Ty::Tuple(ts.iter().map(|t| t.subst(m)).collect()),
            Ty::Array(t, n) => Ty::Array(Box::new(t.subst(m)), *n),
            Ty::Vec(t) => Ty::Vec(Box::new(t.subst(m))),
            Ty::Ref(t) => Ty::Ref(Box::new(t.subst(m))),
            Ty::Func(ps, r) => Ty::Func(ps.iter().map(|t| t.subst(m)).collect(), Box::new(r.subst(m))),
            Ty::Struct(n, a) => Ty::Struct(n.clone(), a.iter().map(|t| t.subst(m)).collect()),
            Ty::Enum(n, a) => Ty::Enum(n.clone(), a.iter().map(|t| t.subst(m)).collect()),
            _ => self.clone(),
        }
    }
    pub fn has_param(&self) -> bool {
        match self {
            Ty::Param(_) => true,
            Ty::Tuple(ts) => ts.iter().any(|t| t.has_param()),
            Ty::Array(t, _) | Ty::Vec(t) | Ty::Ref(t) => t.has_param(),
            Ty::Func(ps, r) => ps.iter().any(|t| t.has_param()) || r.has_param(),
            Ty::Struct(_, a) | Ty::Enum(_, a) => a.iter().any(|t| t.has_param()),
            _ => false,
        }
    }
    pub fn contains_float(&self) -> bool {
        match self {
            Ty::F32 | Ty::F64 => true,
            Ty::Tuple(ts) => ts.iter().any(|t| t.contains_float()),
            Ty::Array(t, _) | Ty::Vec(t) | Ty::Ref(t) => t.contains_float(),
            Ty::Func(ps, r) => ps.iter().any(|t| t.contains_float()) || r.contains_float(),
            Ty::Struct(_, a) | Ty::Enum(_, a) => a.iter().any(|t| t.contains_float()),
            _ => false,
        }
    }
}

#[derive(Clone, Copy, PartialEq, Eq, Debug, Hash)]
pub enum BinOp {
    Add,
    Sub,
    Mul,
    Div,
    Lt,
    Gt,
    Le,
    Ge,
    Eq,
    Ne,
    And,
    Or,
}
impl BinOp {
    pub fn src(self) -> &'static str {
        match self {
            BinOp::Add => "+",
            BinOp::Sub => "-",
            BinOp::Mul => "*",
            BinOp::Div => "/",
            BinOp::Lt => "<",
            BinOp::Gt => ">",
            BinOp::Le => "<=",
            BinOp::Ge => ">=",
            BinOp::Eq => "==",
            BinOp::Ne => "!=",
            BinOp::And => "&&",
            BinOp::Or => "||",
        }
    }
    /// binding power (higher binds tighter), per the documented grammar
    pub fn prec(self) -> u8 {
        match self {
            BinOp::Or => 1,
            BinOp::And => 2,
            BinOp::Eq | BinOp::Ne => 3,
            BinOp::Lt | BinOp::Gt | BinOp::Le | BinOp::Ge => 4,
            BinOp::Add | BinOp::Sub => 5,
            BinOp::Mul | BinOp::Div => 6,
        }
    }
    pub const ALL: [BinOp; 12] = [BinOp::Add, BinOp::Sub, BinOp::Mul, BinOp::Div, BinOp::Lt, BinOp::Gt, BinOp::Le, BinOp::Ge, BinOp::Eq, BinOp::Ne, BinOp::And, BinOp::Or];
}

#[derive(Clone, Copy, PartialEq, Eq, Debug, Hash)]
pub enum UnOp {
    Neg,
    Not,
}

#[derive(Clone, Debug, PartialEq)]
pub enum Pat {
    Wild,
    Var(String),
    Unit,
    Bool(bool),
    /// value, with explicit suffix?
    Int(IntTy, i128, bool),
    Str(String),
    Tuple(Vec<Pat>),
    Struct { name: String, fields: Vec<(String, Pat)> },
    Constr { enum_name: String, variant: String, args: Vec<Pat>, qualified: bool },
}

#[derive(Clone, Debug, PartialEq)]
pub enum Stmt {
    Let(Pat, Option<Ty>, Expr),
    Expr(Expr),
}

#[derive(Clone, Debug, PartialEq)]
pub enum Expr {
    Unit,
    Bool(bool),
    /// (type, value, explicit suffix?) - an int32 literal may be written without suffix
    Int(IntTy, i128, bool),
    /// (is f32, value)
    Float(bool, f64),
    Str(String),
    Var(String),
    FnRef(String),
    Tuple(Vec<Expr>),
    Array(Vec<Expr>),
    StructLit { name: String, ty: Ty, fields: Vec<(String, Expr)> },
    Constr { enum_name: String, variant: String, ty: Ty, args: Vec<Expr>, qualified: bool },
    Field(Box<Expr>, String),
    Proj(Box<Expr>, usize),
    Unary(UnOp, Box<Expr>),
    Binary(BinOp, Box<Expr>, Box<Expr>),
    If(Box<Expr>, Box<Expr>, Box<Expr>),
    While(Box<Expr>, Box<Expr>),
    Block(Vec<Stmt>, Option<Box<Expr>>),
    Match(Box<Expr>, Vec<(Pat, Expr)>),
    /// call of a named top-level function; targs are the explicit instantiation (for the evaluator; not printed)
    Call { name: String, targs: Vec<(String, Ty)>, args: Vec<Expr> },
    Builtin(String, Vec<Expr>),
    CallValue(Box<Expr>, Vec<Expr>),
    Closure { params: Vec<(String, Option<Ty>)>, body: Box<Expr> },
    /// x.m(args): inherent method on a concrete receiver, or a bound's method on a type parameter
    MethodCall { recv: Box<Expr>, method: String, args: Vec<Expr> },
    /// Type::m(args) / Trait::m(args)
    AssocCall { head: String, method: String, args: Vec<Expr> },
    /// coercion site to `dyn Trait` (printed as the inner expression; the annotation lives on the binder)
    ToDyn(String, Box<Expr>),
    Go(Box<Expr>),
    /// extra parentheses (printing only)
    Paren(Box<Expr>),
}

#[derive(Clone, Debug)]
pub struct StructDecl {
    pub name: String,
    pub tparams: Vec<String>,
    pub fields: Vec<(String, Ty)>,
    pub derives: Vec<String>,
}
#[derive(Clone, Debug)]
pub struct EnumDecl {
    pub name: String,
    pub tparams: Vec<String>,
    pub variants: Vec<(String, Vec<Ty>)>,
    pub derives: Vec<String>,
}
#[derive(Clone, Debug)]
pub struct MethodSig {
    pub name: String,
    pub extra: Vec<Ty>,
    pub ret: Ty,
}
#[derive(Clone, Debug)]
pub struct TraitDecl {
    pub name: String,
    pub methods: Vec<MethodSig>,
}
#[derive(Clone, Debug)]
pub struct FnDecl {
    pub name: String,
    /// (type parameter, bounds)
    pub tparams: Vec<(String, Vec<String>)>,
    pub params: Vec<(String, Ty)>,
    pub ret: Ty,
    pub body: Expr,
}
#[derive(Clone, Debug)]
pub struct ImplDecl {
    pub trait_name: Option<String>,
    pub for_ty: Ty,
    pub tparams: Vec<String>,
    pub methods: Vec<FnDecl>,
}
#[derive(Clone, Debug)]
pub enum Item {
    Struct(StructDecl),
    Enum(EnumDecl),
    Trait(TraitDecl),
    Impl(ImplDecl),
    Fn(FnDecl),
}
#[derive(Clone, Debug, Default)]
pub struct Program {
    pub items: Vec<Item>,
}

impl Program {
    pub fn fns(&self) -> impl Iterator<Item = &FnDecl> {
        self.items.iter().filter_map(|i| if let Item::Fn(f) = i { Some(f) } else { None })
    }
    pub fn find_fn(&self, name: &str) -> Option<&FnDecl> {
        self.fns().find(|f| f.name == name)
    }
    pub fn find_struct(&self, name: &str) -> Option<&StructDecl> {
        self.items.iter().find_map(|i| if let Item::Struct(s) = i { if s.name == name { Some(s) } else { None } } else { None })
    }
    pub fn find_enum(&self, name: &str) -> Option<&EnumDecl> {
        self.items.iter().find_map(|i| if let Item::Enum(s) = i { if s.name == name { Some(s) } else { None } } else { None })
    }
    pub fn find_trait(&self, name: &str) -> Option<&TraitDecl> {
        self.items.iter().find_map(|i| if let Item::Trait(s) = i { if s.name == name { Some(s) } else { None } } else { None })
    }
    pub fn impls(&self) -> impl Iterator<Item = &ImplDecl> {
        self.items.iter().filter_map(|i| if let Item::Impl(f) = i { Some(f) } else { None })
    }
}

// ---------------------------------------------------------------- printer

#[derive(Clone, Copy, Debug)]
pub struct PrintOpts {
    /// parenthesise every nested operator expression
    pub max_parens: bool,
}
impl Default for PrintOpts {
    fn default() -> Self {
        PrintOpts { max_parens: false }
    }
}

pub fn escape_str(s: &str) -> String {
    let mut o = String::from("\"");
    for c in s.chars() {
        match c {
            '"' => o.push_str("\\\""),
            '\\' => o.push_str("\\\\"),
            '\n' => o.push_str("\\n"),
            '\r' => o.push_str("\\r"),
            '\t' => o.push_str("\\t"),
            '\u{8}' => o.push_str("\\b"),
            '\u{c}' => o.push_str("\\f"),
            c if (c as u32) < 0x20 => {
                let _ = write!(o, "\\u{:04x}", c as u32);
            }
            c => o.push(c),
        }
    }
    o.push('"');
    o
}

pub fn float_src(is32: bool, v: f64) -> String {
    // plain decimal digits (the lexer has no exponent form)
    let mut s = if is32 { format!("{}", v as f32) } else { format!("{}", v) };
    if s.contains('e') || s.contains("inf") || s.contains("NaN") {
        s = format!("{:.1}", v);
    }
    if !s.contains('.') {
        s.push_str(".0");
    }
    if is32 {
        s.push_str("f32");
    }
    s
}

pub struct Printer {
    pub out: String,
    pub opts: PrintOpts,
    indent: usize,
}

// expression "levels" for minimal parentheses: 0 = anything (incl. closures / if / match), 1..6 binary, 7 prefix, 8 postfix/atom
fn level(e: &Expr) -> u8 {
    match e {
        Expr::Binary(op, _, _) => op.prec(),
        Expr::Unary(_, _) => 7,
        Expr::Closure { .. } | Expr::Go(_) | Expr::If(..) | Expr::Match(..) | Expr::While(..) | Expr::Block(..) => 0,
        Expr::Int(_, v, _) if *v < 0 => 7,
        Expr::Float(_, v) if *v < 0.0 => 7,
        _ => 8,
    }
}

impl Printer {
    pub fn new(opts: PrintOpts) -> Printer {
        Printer { out: String::new(), opts, indent: 0 }
    }
    fn nl(&mut self) {
        self.out.push('\n');
        for _ in 0..self.indent {
            self.out.push_str("    ");
        }
    }
    pub fn pat(&mut self, p: &Pat) {
        match p {
            Pat::Wild => self.out.push('_'),
            Pat::Var(v) => self.out.push_str(v),
            Pat::Unit => self.out.push_str("()"),
            Pat::Bool(b) => self.out.push_str(if *b { "true" } else { "false" }),
            Pat::Int(t, v, suf) => {
                let _ = write!(self.out, "{}", v);
                if *suf {
                    self.out.push_str(t.suffix());
                }
            }
            Pat::Str(s) => self.out.push_str(&escape_str(s)),
            Pat::Tuple(ps) => {
                self.out.push('(');
                for (i, q) in ps.iter().enumerate() {
                    if i > 0 {
                        self.out.push_str(", ");
                    }
                    self.pat(q);
                }
                self.out.push(')');
            }
            Pat::Struct { name, fields } => {
                self.out.push_str(name);
                self.out.push_str(" { ");
                for (i, (f, q)) in fields.iter().enumerate() {
                    if i > 0 {
                        self.out.push_str(", ");
                    }
                    if let Pat::Var(v) = q {
                        if v == f {
                            self.out.push_str(f);
                            continue;
                        }
                    }
                    self.out.push_str(f);
                    self.out.push_str(": ");
                    self.pat(q);
                }
                self.out.push_str(" }");
            }
            Pat::Constr { enum_name, variant, args, qualified } => {
                if *qualified {
                    self.out.push_str(enum_name);
                    self.out.push_str("::");
                }
                self.out.push_str(variant);
                if !args.is_empty() {
                    self.out.push('(');
                    for (i, q) in args.iter().enumerate() {
                        if i > 0 {
                            self.out.push_str(", ");
                        }
                        self.pat(q);
                    }
                    self.out.push(')');
                }
            }
        }
    }
    fn args(&mut self, args: &[Expr]) {
        self.out.push('(');
        for (i, a) in args.iter().enumerate() {
            if i > 0 {
                self.out.push_str(", ");
            }
            self.expr(a, 0);
        }
        self.out.push(')');
    }
    /// print `e` in a context that requires at least binding level `min`
    pub fn expr(&mut self, e: &Expr, min: u8) {
        let lv = level(e);
        let need = lv < min || (self.opts.max_parens && min > 0 && lv < 8);
        if need {
            self.out.push('(');
            self.expr_inner(e);
            self.out.push(')');
        } else {
            self.expr_inner(e);
        }
    }
    fn block_body(&mut self, stmts: &[Stmt], tail: &Option<Box<Expr>>) {
        self.out.push('{');
        self.indent += 1;
        for s in stmts {
            self.nl();
            match s {
                Stmt::Let(p, t, e) => {
                    self.out.push_str("let ");
                    self.pat(p);
                    if let Some(t) = t {
                        self.out.push_str(": ");
                        self.out.push_str(&t.src());
                    }
                    self.out.push_str(" = ");
                    self.expr(e, 0);
                    self.out.push(';');
                }
                Stmt::Expr(e) => {
                    self.expr(e, 0);
                    self.out.push(';');
                }
            }
        }
        if let Some(t) = tail {
            self.nl();
            self.expr(t, 0);
        }
        self.indent -= 1;
        self.nl();
        self.out.push('}');
    }
    /// print an expression that must be a `{ ... }` block (function / if / while bodies)
    pub fn as_block(&mut self, e: &Expr) {
        match e {
            Expr::Block(stmts, tail) => self.block_body(stmts, tail),
            other => {
                let tail = Some(Box::new(other.clone()));
                self.block_body(&[], &tail);
            }
        }
    }
    fn expr_inner(&mut self, e: &Expr) {
        match e {
            Expr::Unit => self.out.push_str("()"),
            Expr::Bool(b) => self.out.push_str(if *b { "true" } else { "false" }),
            Expr::Int(t, v, suf) => {
                let _ = write!(self.out, "{}", v);
                if *suf {
                    self.out.push_str(t.suffix());
                }
            }
            Expr::Float(is32, v) => self.out.push_str(&float_src(*is32, *v)),
            Expr::Str(s) => self.out.push_str(&escape_str(s)),
            Expr::Var(v) | Expr::FnRef(v) => self.out.push_str(v),
            Expr::Tuple(es) => self.args(es),
            Expr::Array(es) => {
                self.out.push('[');
                for (i, a) in es.iter().enumerate() {
                    if i > 0 {
                        self.out.push_str(", ");
                    }
                    self.expr(a, 0);
                }
                self.out.push(']');
            }
            Expr::StructLit { name, fields, .. } => {
                self.out.push_str(name);
                self.out.push_str(" { ");
                for (i, (f, v)) in fields.iter().enumerate() {
                    if i > 0 {
                        self.out.push_str(", ");
                    }
                    self.out.push_str(f);
                    self.out.push_str(": ");
                    self.expr(v, 0);
                }
                self.out.push_str(" }");
            }
            Expr::Constr { enum_name, variant, args, qualified, .. } => {
                if *qualified {
                    self.out.push_str(enum_name);
                    self.out.push_str("::");
                }
                self.out.push_str(variant);
                if !args.is_empty() {
                    self.args(args);
                }
            }
            Expr::Field(b, f) => {
                self.expr(b, 8);
                self.out.push('.');
                self.out.push_str(f);
            }
            Expr::Proj(b, i) => {
                self.expr(b, 8);
                let _ = write!(self.out, ".{}", i);
            }
            Expr::Unary(op, x) => {
                self.out.push(match op {
                    UnOp::Neg => '-',
                    UnOp::Not => '!',
                });
                // `--x` would lex fine but keep it readable; nested prefix needs no parens
                self.expr(x, 7);
            }
            Expr::Binary(op, l, r) => {
                let p = op.prec();
                self.expr(l, p);
                self.out.push(' ');
                self.out.push_str(op.src());
                self.out.push(' ');
                self.expr(r, p + 1);
            }
            Expr::If(c, t, f) => {
                self.out.push_str("if ");
                self.expr(c, 0);
                self.out.push(' ');
                self.as_block(t);
                self.out.push_str(" else ");
                self.as_block(f);
            }
            Expr::While(c, b) => {
                self.out.push_str("while ");
                self.expr(c, 0);
                self.out.push(' ');
                self.as_block(b);
            }
            Expr::Block(stmts, tail) => {
                // goml has no free-standing block expression: wrap it in a single-arm match
                self.out.push_str("match () { _ => ");
                self.block_body(stmts, tail);
                self.out.push_str(" }");
            }
            Expr::Match(s, arms) => {
                self.out.push_str("match ");
                self.expr(s, 0);
                self.out.push_str(" {");
                self.indent += 1;
                for (p, b) in arms {
                    self.nl();
                    self.pat(p);
                    self.out.push_str(" => ");
                    if let Expr::Block(st, tl) = b {
                        self.block_body(st, tl);
                    } else {
                        self.expr(b, 0);
                    }
                    self.out.push(',');
                }
                self.indent -= 1;
                self.nl();
                self.out.push('}');
            }
            Expr::Call { name, args, .. } | Expr::Builtin(name, args) => {
                self.out.push_str(name);
                self.args(args);
            }
            Expr::CallValue(f, args) => {
                self.expr(f, 8);
                self.args(args);
            }
            Expr::Closure { params, body } => {
                self.out.push('|');
                for (i, (n, t)) in params.iter().enumerate() {
                    if i > 0 {
                        self.out.push_str(", ");
                    }
                    self.out.push_str(n);
                    if let Some(t) = t {
                        self.out.push_str(": ");
                        self.out.push_str(&t.src());
                    }
                }
                self.out.push_str("| ");
                if let Expr::Block(st, tl) = &**body {
                    self.block_body(st, tl);
                } else {
                    self.expr(body, 0);
                }
            }
            Expr::MethodCall { recv, method, args } => {
                self.expr(recv, 8);
                self.out.push('.');
                self.out.push_str(method);
                self.args(args);
            }
            Expr::AssocCall { head, method, args } => {
                self.out.push_str(head);
                self.out.push_str("::");
                self.out.push_str(method);
                self.args(args);
            }
            Expr::ToDyn(_, x) => self.expr_inner(x),
            Expr::Go(x) => {
                self.out.push_str("go ");
                self.expr(x, 0);
            }
            Expr::Paren(x) => {
                self.out.push('(');
                self.expr(x, 0);
                self.out.push(')');
            }
        }
    }

    fn fn_decl(&mut self, f: &FnDecl) {
        self.out.push_str("fn ");
        self.out.push_str(&f.name);
        if !f.tparams.is_empty() {
            self.out.push('[');
            for (i, (n, bs)) in f.tparams.iter().enumerate() {
                if i > 0 {
                    self.out.push_str(", ");
                }
                self.out.push_str(n);
                if !bs.is_empty() {
                    self.out.push_str(": ");
                    self.out.push_str(&bs.join(" + "));
                }
            }
            self.out.push(']');
        }
        self.out.push('(');
        for (i, (n, t)) in f.params.iter().enumerate() {
            if i > 0 {
                self.out.push_str(", ");
            }
            self.out.push_str(n);
            self.out.push_str(": ");
            self.out.push_str(&t.src());
        }
        self.out.push_str(") -> ");
        self.out.push_str(&f.ret.src());
        self.out.push(' ');
        self.as_block(&f.body);
    }

    pub fn item(&mut self, it: &Item) {
        match it {
            Item::Struct(s) => {
                if !s.derives.is_empty() {
                    let _ = write!(self.out, "#[derive({})]", s.derives.join(", "));
                    self.nl();
                }
                self.out.push_str("struct ");
                self.out.push_str(&s.name);
                if !s.tparams.is_empty() {
                    let _ = write!(self.out, "[{}]", s.tparams.join(", "));
                }
                self.out.push_str(" {");
                self.indent += 1;
                for (f, t) in &s.fields {
                    self.nl();
                    let _ = write!(self.out, "{}: {},", f, t.src());
                }
                self.indent -= 1;
                self.nl();
                self.out.push('}');
            }
            Item::Enum(e) => {
                if !e.derives.is_empty() {
                    let _ = write!(self.out, "#[derive({})]", e.derives.join(", "));
                    self.nl();
                }
                self.out.push_str("enum ");
                self.out.push_str(&e.name);
                if !e.tparams.is_empty() {
                    let _ = write!(self.out, "[{}]", e.tparams.join(", "));
                }
                self.out.push_str(" {");
                self.indent += 1;
                for (v, ts) in &e.variants {
                    self.nl();
                    self.out.push_str(v);
                    if !ts.is_empty() {
                        let _ = write!(self.out, "({})", ts.iter().map(|t| t.src()).collect::<Vec<_>>().join(", "));
                    }
                    self.out.push(',');
                }
                self.indent -= 1;
                self.nl();
                self.out.push('}');
            }
            Item::Trait(t) => {
                let _ = write!(self.out, "trait {} {{", t.name);
                self.indent += 1;
                for m in &t.methods {
                    self.nl();
                    let mut ps = vec!["Self".to_string()];
                    ps.extend(m.extra.iter().map(|t| t.src()));
                    let _ = write!(self.out, "fn {}({}) -> {};", m.name, ps.join(", "), m.ret.src());
                }
                self.indent -= 1;
                self.nl();
                self.out.push('}');
            }
            Item::Impl(im) => {
                self.out.push_str("impl");
                if !im.tparams.is_empty() {
                    let _ = write!(self.out, "[{}]", im.tparams.join(", "));
                }
                self.out.push(' ');
                if let Some(t) = &im.trait_name {
                    let _ = write!(self.out, "{} for ", t);
                }
                self.out.push_str(&im.for_ty.src());
                self.out.push_str(" {");
                self.indent += 1;
                for m in &im.methods {
                    self.nl();
                    self.fn_decl(m);
                }
                self.indent -= 1;
                self.nl();
                self.out.push('}');
            }
            Item::Fn(f) => self.fn_decl(f),
        }
    }
}

pub fn print_program(p: &Program, opts: PrintOpts) -> String {
    let mut pr = Printer::new(opts);
    for it in &p.items {
        pr.item(it);
        pr.out.push_str("\n\n");
    }
    pr.out
}

pub fn print_expr(e: &Expr, opts: PrintOpts) -> String {
    let mut pr = Printer::new(opts);
    pr.expr(e, 0);
    pr.out
}
