//! `goml-verif goldens`: compare every stage dump of the 74 pipeline corpus programs with the
//! golden files stored in the repository (what `tests::test_cases` asserts before it runs Go).
//! Used to validate `fix:` commits offline, where `test_cases` cannot pass for lack of a Go toolchain.
use crate::capi;
use std::path::PathBuf;

pub fn pipeline_dirs() -> Vec<PathBuf> {
    let base = crate::util::repo_root().join("crates/compiler/src/tests/pipeline");
    let mut v: Vec<PathBuf> = std::fs::read_dir(base)
        .map(|rd| rd.filter_map(|e| e.ok()).map(|e| e.path()).filter(|p| p.join("main.gom").exists()).collect())
        .unwrap_or_default();
    v.sort();
    v
}

pub fn main() -> i32 {
    let expected: Vec<String> = std::fs::read_to_string(crate::util::verif_root().join("expected_golden_diffs.txt"))
        .unwrap_or_default()
        .lines()
        .filter(|l| !l.starts_with('#') && !l.trim().is_empty())
        .map(|l| l.trim().to_string())
        .collect();
    let mut expected_seen = 0;
    let mut bad = 0;
    let mut n = 0;
    for d in pipeline_dirs() {
        let p = d.join("main.gom");
        let src = std::fs::read_to_string(&p).unwrap();
        let c = match compiler::pipeline::pipeline::compile(&p, &src) {
            Ok(c) => c,
            Err(e) => {
                println!("DIFF {}: compile failed: {:?}", d.display(), capi::err_messages(&e));
                bad += 1;
                continue;
            }
        };
        n += 1;
        let cst = parser::debug_tree(&c.green_node);
        let mut all = vec![("cst", cst)];
        all.extend(capi::dumps(&c));
        for (label, text) in all {
            if label == "lift" {
                continue;
            }
            let gold = std::fs::read_to_string(d.join(format!("main.gom.{}", label))).unwrap_or_default();
            if gold != text {
                let key = format!("{} {}", d.file_name().unwrap().to_string_lossy(), label);
                if expected.contains(&key) {
                    expected_seen += 1;
                } else {
                    println!("DIFF {} stage {}", d.display(), label);
                    bad += 1;
                }
            }
        }
    }
    println!("goldens: {} programs compiled, {} unexpected differences ({} expected ones from fix: commits)", n, bad, expected_seen);
    if bad > 0 { 1 } else { 0 }
}
