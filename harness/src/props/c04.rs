//! C04: the compiler never crashes or hangs; every failure carries diagnostics;
//! diagnostic positions are inside the text.
//!
//! Monitor: each input goes through the real entry points under the panic hook
//! and the CPU/AS budgets of the runner; the oracle is the statement itself.

use crate::capi;
use crate::mutators;
use crate::props::c12::{TOKEN_POOL, corpus_files};
use crate::runner::{self, Case, Ctx, PropSpec, Tier};
use crate::util::{self, Rng, hash_str};
use compiler::pipeline::pipeline::CompilationError;
use serde_json::json;

pub static SPEC: PropSpec = PropSpec {
    id: "C04",
    level: "exploration",
    rule: "inputs: corpus files, token/line/char mutations and splices of corpus files, token soups, targeted well-formed shapes aimed at post-parser panic sites, bounded deep nesting (<= 64) of every recursive construct, a generic-signature family (type parameter in 19 type-constructor positions of parameter and result x 8 instantiations), generated well-typed programs and generic-library programs, soups of multi-line string pieces and every prefix of corpus files with multi-line strings; each is run through compile (+ Go pretty-printing and all 8 stage dumps on success) and typecheck_with_packages; an input is non-trivial when it has >= 1 non-error token and reaches beyond the lexer; distinct by content hash",
    eval_counter: "inputs",
    assumptions: &[
        "termination is bounded progress: 10 CPU-seconds and 3 GiB resident per input of <= 64 KiB; peers take milliseconds",
        "stack bound is the CLI's 8 MiB main-thread stack; nesting depth in workloads is capped at 64",
    ],
    crash_is_violation: true,
    stack_mib: 8,
    case_cpu_s: 10,
    shards: 0,
    run,
    floors: &[("inputs", 5_000, 1_000_000), ("compile_ok", 100, 20_000), ("stage_typer_err", 100, 20_000), ("stage_compile_err", 10, 1_000), ("generic_shapes_instantiated", 15, 15), ("inputs_generated", 40, 4_000), ("inputs_multiline_soup", 1_200, 40_000), ("inputs_multiline_prefix", 100, 100)],
    finish: None,
};

fn check_diags(src: &str, e: &CompilationError, findings: &mut Vec<(String, String)>) {
    let d = e.diagnostics();
    if d.is_empty() || !d.has_errors() {
        findings.push((
            format!("err-without-error-diagnostic:{}", capi::err_stage(e)),
            format!("{} stage returned Err with {} diagnostics, none of severity error", capi::err_stage(e), d.len()),
        ));
    }
    for x in d.iter() {
        if x.stage().as_str().trim().is_empty() {
            findings.push(("diag-without-stage".into(), format!("diagnostic '{}' has no stage", x.message())));
        }
        if let Some(r) = x.range() {
            let (st, en): (usize, usize) = (r.start().into(), r.end().into());
            if st > en || en > src.len() {
                findings.push((
                    format!("diag-range-outside:{}", capi::err_stage(e)),
                    format!("diagnostic '{}' range {}..{} outside text of {} bytes", x.message(), st, en, src.len()),
                ));
            } else if !src.is_char_boundary(st) || !src.is_char_boundary(en) {
                findings.push((
                    format!("diag-range-splits-char:{}", capi::err_stage(e)),
                    format!("diagnostic '{}' range {}..{} splits a character", x.message(), st, en),
                ));
            }
        }
    }
}

/// Run one source text through the in-process entry points. Returns outcome tag.
pub fn check_source(case: &mut Case, workload: &str, src: &str) {
    runner::note_input(src);
    case.count("inputs", 1);
    case.count(&format!("inputs_{}", workload), 1);
    let toks = lexer::lex(src);
    if toks.iter().any(|t| t.kind != lexer::TokenKind::Error && !t.kind.is_trivia()) {
        case.nontrivial(hash_str(src));
    }
    drop(toks);
    let mut findings: Vec<(String, String)> = Vec::new();
    // entry point 1: compile (+ printing, as `goml run --dump-*` does)
    let r = runner::guard(|| {
        let res = capi::compile_single(src);
        match res {
            Ok(c) => {
                let go = capi::go_text(&c);
                let dumps = capi::dumps(&c);
                Ok((go.len(), dumps.len()))
            }
            Err(e) => Err(e),
        }
    });
    match r {
        Ok(Ok(_)) => {
            case.count("compile_ok", 1);
        }
        Ok(Err(e)) => {
            case.count(&format!("stage_{}_err", capi::err_stage(&e)), 1);
            check_diags(src, &e, &mut findings);
        }
        Err(p) => {
            case.count("panics_compile", 1);
            findings.push((
                runner::panic_signature(&p),
                format!("compile panicked at {}: {}", p.site, util::truncate(&p.message, 160)),
            ));
        }
    }
    // entry point 2: typecheck_with_packages (the editor / wasm path)
    let p = capi::single_root().join("main.gom");
    let r2 = runner::guard(|| compiler::pipeline::pipeline::typecheck_with_packages(&p, src));
    match r2 {
        Ok(Ok((_t, _g, diags))) => {
            case.count("typecheck_returned", 1);
            for x in diags.iter() {
                if let Some(r) = x.range() {
                    let (st, en): (usize, usize) = (r.start().into(), r.end().into());
                    if st > en || en > src.len() {
                        findings.push((
                            "diag-range-outside:typecheck".into(),
                            format!("diagnostic '{}' range {}..{} outside text of {} bytes", x.message(), st, en, src.len()),
                        ));
                    } else if !src.is_char_boundary(st) || !src.is_char_boundary(en) {
                        findings.push((
                            "diag-range-splits-char:typecheck".into(),
                            format!("diagnostic '{}' range {}..{} splits a character", x.message(), st, en),
                        ));
                    }
                }
            }
        }
        Ok(Err(e)) => {
            check_diags(src, &e, &mut findings);
        }
        Err(p) => {
            case.count("panics_typecheck", 1);
            findings.push((
                runner::panic_signature(&p),
                format!("typecheck_with_packages panicked at {}: {}", p.site, util::truncate(&p.message, 160)),
            ));
        }
    }
    findings.sort();
    findings.dedup_by(|a, b| a.0 == b.0);
    for (sig, summary) in findings {
        case.violation(sig, summary.clone(), json!({"input": src, "workload": workload, "finding": summary}));
    }
}

/// Hand-written well-formed shapes aimed at post-parser code paths (DESIGN 4/C04 item 3).
pub const TARGETED: &[&str] = &[
    // match on odd scrutinee types
    "fn main() { let x = 1.5; let _ = match x { y => y }; }",
    "fn main() { let x = 1.5; let _ = match x { 1.5 => 1, _ => 2 }; }",
    "fn main() { let v: Vec[int32] = vec_new(); let _ = match v { w => 1 }; }",
    "fn main() { let r = ref(1); let _ = match r { w => 1 }; }",
    "fn main() { let a = [1, 2]; let _ = match a { w => 1 }; }",
    "fn f(x: int32) -> int32 { x }\nfn main() { let _ = match f { g => g(1) }; }",
    "fn main() { let t = (1, 2.5); let _ = match t { (1, y) => 1, _ => 2 }; }",
    "fn main() { let t = (1, \"a\"); let _ = match t { (_, \"a\") => 1, (2, _) => 2, _ => 3 }; }",
    "enum E { A, B(int32) }\nfn main() { let e = B(1); let _ = match e { A => 0 }; }",
    "enum E { A, B(int32) }\nfn main() { let e = B(1); let B(x) = e; let _ = x; }",
    "fn main() { let _ = match 1 { 1 => 2 }; }",
    "fn main() { let _ = match true { true => 1 }; }",
    "fn main() { let _ = match \"a\" { \"a\" => 1 }; }",
    "fn main() { let _ = match () { () => 1 }; }",
    "fn main() { let _ = match (true, false) { (true, _) => 1 }; }",
    "fn main() { let _ = match 200u8 { 200u8 => 1, _ => 0 }; }",
    "fn main() { let _ = match 1i64 { 1i64 => 1, 1i64 => 2, _ => 0 }; }",
    // method values / paths
    "struct S { x: int32 }\nimpl S { fn get(self: S) -> int32 { self.x } }\nfn main() { let f = S::get; let _ = f(S { x: 1 }); }",
    "trait T { fn m(Self) -> int32; }\nimpl T for int32 { fn m(self: int32) -> int32 { self } }\nfn main() { let f = T::m; let _ = f(1); }",
    "trait T { fn m(Self) -> int32; }\nimpl T for int32 { fn m(self: int32) -> int32 { self } }\nfn main() { let _ = T::m(1); let _ = T::m(true); }",
    "struct S { x: int32 }\nfn main() { let s = S { x: 1 }; let _ = s.nope; let _ = s.x.y; }",
    "struct S { x: int32 }\nfn main() { let s = S { x: 1 }; let _ = s.get(); }",
    // generics
    "fn len[T](v: Vec[T]) -> int32 { vec_len(v) }\nfn main() { let v: Vec[int32] = vec_new(); let _ = len(v); }",
    "fn id[T](x: T) -> T { x }\nfn main() { let _ = id(id); }",
    "fn id[T](x: T) -> T { x }\nfn main() { let _ = id; }",
    "fn f[T](x: T) -> int32 { f((x, x)) }\nfn main() { let _ = f(1); }",
    "fn f[T](x: T, n: int32) -> int32 { if n == 0 { 0 } else { f((x, x), n - 1) } }\nfn main() { let _ = f(1, 3); }",
    "struct P[A, B] { a: A, b: B }\nfn main() { let p: P[int32] = P { a: 1, b: 2 }; }",
    "struct P[A] { a: A }\nfn main() { let p: P[int32, bool] = P { a: 1 }; }",
    "enum O[T] { S(T), N }\nfn main() { let x = N; }",
    "enum O[T] { S(T), N }\nfn f[T](o: O[T]) -> int32 { match o { S(_) => 1, N => 0 } }\nfn main() { let _ = f(N); }",
    "fn f[T](x: dyn D) -> int32 { 1 }\ntrait D { fn m(Self) -> int32; }\nfn main() { }",
    "trait D { fn m(Self) -> int32; }\nimpl D for int32 { fn m(self: int32) -> int32 { self } }\nfn g[T: D](x: T) -> int32 { D::m(x) }\nfn main() { let d: dyn D = 1; let _ = g(d); }",
    "trait D { fn m(Self) -> int32; }\nimpl D for int32 { fn m(self: int32) -> int32 { self } }\nfn main() { let d: dyn D = 1; let v: Vec[dyn D] = vec_push(vec_new(), d); let _ = D::m(vec_get(v, 0)); }",
    "trait D { fn m(Self) -> int32; }\nfn main() { let d: dyn D = true; }",
    "trait D { fn m(Self) -> Self; }\nimpl D for int32 { fn m(self: int32) -> int32 { self } }\nfn main() { let d: dyn D = 1; }",
    "trait A { fn m(Self) -> int32; }\ntrait B { fn m(Self) -> int32; }\nfn f[T: A + B](x: T) -> int32 { x.m() }\nfn main() { }",
    // enum variants shared by several enums
    "enum A { X, Y }\nenum B { X, Z }\nfn main() { let a = X; let _ = match a { X => 1, _ => 2 }; }",
    "enum A { X(int32) }\nenum B { X(bool) }\nfn main() { let a = X(1); let b = X(true); }",
    "enum A { X }\nstruct X { f: int32 }\nfn main() { let a = X; let b = X { f: 1 }; }",
    // extern forms
    "extern \"go\" \"time\" type Time\nextern \"go\" \"time\" \"Now\" now() -> Time\nfn main() { let _ = now(); }",
    "extern \"go\" \"strings\" \"ToUpper\" upper(s: string) -> string\nfn main() { let _ = string_println(upper(\"a\")); }",
    "extern \"go\" \"x\" type\nfn main() { }",
    "extern type T\nfn main() { }",
    "extern \"go\" \"fmt\" \"Println\" p(s: string) -> unit\nfn main() { p(\"x\") }",
    // attributes in odd places
    "#[derive(ToString)]\nfn main() { }",
    "#[derive(ToJson)]\nenum E { A(() -> unit) }\nfn main() { }",
    "#[derive(ToString)]\nstruct S[T] { x: T }\nfn main() { }",
    "#[derive(ToString, ToJson)]\nstruct S { x: Vec[int32], r: Ref[int32], a: [int32; 2], t: (int32, bool), f: float32 }\nfn main() { }",
    "#[derive(Nope)]\nstruct S { x: int32 }\nfn main() { }",
    "#[derive(ToString)]\ntrait T { fn m(Self) -> int32; }\nfn main() { }",
    "#[]\nstruct S { x: int32 }\n#[a(b(c))]\nfn main() { }",
    // closures
    "fn apply(f: (int32) -> int32, x: int32) -> int32 { f(x) }\nfn main() { let y = 2; let _ = apply(|x| x + y, 1); }",
    "struct H { f: (int32) -> int32 }\nfn main() { let y = 2; let h = H { f: |x| x + y }; let g = h.f; let _ = g(1); }",
    "fn main() { let f = |x| x; let _ = f(1); let _ = f(true); }",
    "fn main() { let f = |x| x; }",
    "fn main() { let f = || f(); }",
    "fn mk() -> () -> int32 { let r = ref(0); || { ref_set(r, ref_get(r) + 1); ref_get(r) } }\nfn main() { let c = mk(); let _ = c(); }",
    "fn main() { let fs = [|x: int32| x, |x: int32| x + 1]; let f = array_get(fs, 1); let _ = f(1); }",
    "fn main() { let v = vec_push(vec_new(), |x: int32| x); let f = vec_get(v, 0); let _ = f(2); }",
    "fn main() { let r = ref(|x: int32| x); let f = ref_get(r); let _ = f(2); }",
    // go statement
    "fn w() -> unit { () }\nfn main() { go w; }",
    "fn w() -> unit { () }\nfn main() { go w(); }",
    "fn main() { go || { () }; }",
    "fn main() { go 1; }",
    "fn main() { let f = || { () }; go f; go f(); }",
    // arrays
    "fn main() { let a = [1, 2, 3]; let b: [int32; 5] = array_set(a, 0, 9); }",
    "fn main() { let a: [int32; 0] = []; }",
    "fn main() { let a = []; }",
    "fn main() { let a = [[1, 2], [3]]; }",
    "fn main() { let a: [int32; 99999999999999999999] = [1]; }",
    "fn main() { let a = array_get([1, 2], 5); }",
    "fn f(a: [int32; 2]) -> int32 { array_get(a, 0) }\nfn main() { let _ = f([1, 2, 3]); }",
    // literals
    "fn main() { let a = 99999999999999999999999999; }",
    "fn main() { let a = 2147483648; let b = -2147483648; let c = 128i8; let d = -128i8; let e = 256u8; }",
    "fn main() { let a = 1.0f32; let b = 99999999999999999999999999999999999999999999.0f32; let c = 0.000000000000000000000000000000000000000000000001f32; }",
    "fn main() { let a: int8 = 5; let b: uint64 = 18446744073709551615u64; let c = 18446744073709551616u64; }",
    "fn main() { let s = \"\\u0000\\ud800\"; let _ = string_println(s); }",
    "fn main() { let s = \\\\ a\n\\\\ b\n; let _ = string_println(s); }",
    // misc typer
    "fn main() -> int32 { }",
    "fn main(x: int32) { }",
    "fn main() { main }",
    "fn f() -> int32 { f }\nfn main() { }",
    "fn main() { let x = x; }",
    "fn main() { let (a, b) = (1, 2, 3); }",
    "fn main() { let (a, a) = (1, 2); let _ = a; }",
    "fn main() { let x: Nope = 1; }",
    "fn main() { let x: Vec = vec_new(); }",
    "fn main() { let x: Vec[int32, bool] = vec_new(); }",
    "fn main() { let x: Ref[] = ref(1); }",
    "fn main() { let x = ref(ref(ref(1))); let _ = ref_get(ref_get(ref_get(x))); }",
    "fn main() { let x = vec_new(); }",
    "fn main() { let x = vec_new(); let y = vec_push(x, 1); let z = vec_push(x, true); }",
    "fn main() { let _ = 1 + true; let _ = \"a\" * 2; let _ = !1; let _ = -\"s\"; let _ = true < false; let _ = () == (); }",
    "fn main() { let _ = (1, 2) == (1, 2); let _ = [1] == [1]; let _ = \"a\" < \"b\"; }",
    "fn main() { let _ = (|| 1) == (|| 1); }",
    "fn main() { if 1 { 2 } else { 3 } }",
    "fn main() { let _ = if true { 1 } else { \"a\" }; }",
    "fn main() { while 1 { } }",
    "fn main() { while true { let x = 1; } }",
    "fn f(x: int32, x: int32) -> int32 { x }\nfn main() { }",
    "fn f() { }\nfn f() { }\nfn main() { }",
    "struct S { x: int32, x: bool }\nfn main() { }",
    "struct S { x: S }\nfn main() { }",
    "enum E { A(E) }\nfn main() { }",
    "struct S { x: int32 }\nstruct S { y: int32 }\nfn main() { }",
    "enum E { A, A }\nfn main() { }",
    "trait T { fn m(Self) -> int32; fn m(Self) -> bool; }\nfn main() { }",
    "trait T { fn m(int32) -> int32; }\nimpl T for int32 { fn m(x: int32) -> int32 { x } }\nfn main() { let _ = T::m(1); }",
    "trait T { fn m() -> int32; }\nimpl T for int32 { fn m() -> int32 { 1 } }\nfn main() { }",
    "impl Nope { fn m(self: Nope) -> int32 { 1 } }\nfn main() { }",
    "impl int32 { fn dbl(self: int32) -> int32 { self + self } }\nfn main() { let _ = 1.dbl(); let _ = int32::dbl(2); }",
    "struct S { x: int32 }\nimpl S { fn m(self: S) -> int32 { 1 } fn m(self: S) -> int32 { 2 } }\nfn main() { }",
    "struct S { x: int32 }\nfn main() { let s = S { }; let t = S { x: 1, y: 2 }; let u = S { x: 1, x: 2 }; }",
    "struct S { x: int32 }\nfn main() { let S { y } = S { x: 1 }; }",
    "fn main() { return 1; }",
    "fn f() -> int32 { return 1; }\nfn main() { }",
    "fn main() { for x in y { } }",
    "fn main() { type X = int32; }",
    "package Main\nimport Nope\nfn main() { }",
    "package Lib\nfn main() { }",
    "package Main\npackage Main\nfn main() { }",
    "import Main\nfn main() { }",
    "fn main() { let _ = Nope::f(1); let _ = Nope::X; let _ = a::b::c::d; }",
    "fn main() { let _ = int32_to_string; let _ = string_println; let f = ref; }",
    "fn string_println(s: string) -> unit { () }\nfn main() { string_println(\"x\") }",
    "fn int32_to_string(x: int32) -> string { \"\" }\nfn main() { }",
    "fn missing(s: string) -> unit { () }\nfn main() { let _ = match 1 { 1 => 2, _ => 3 }; }",
    "fn main0() -> unit { () }\nfn main() { main0() }",
    "fn main() { let unit_to_string = 1; let t1 = 2; let ret0 = 3; let _ = unit_to_string + t1 + ret0; }",
    "fn main() { let func = 1; let var = 2; let chan = 3; let range = func + var + chan; let _ = range; }",
    "struct func { map: int32 }\nfn main() { let x = func { map: 1 }; let _ = x.map; }",
    "fn main() { let s = \"a\"; let _ = string_get(s, 5); let _ = string_len(s); }",
    "fn main() { let _ = 1 / 0; let _ = 1i8 / 0i8; }",
    "fn main() { let _ = float32_to_string(1.5f32) + float64_to_string(2.5); }",
    "fn main() { let x = { let y = 1; y }; }",
    "fn main() { let x = (1); let y = (1,); let z = (); let w = ((), ()); }",
    "fn main() { let _ = (1, 2).0; let _ = (1, 2).5; let _ = ((1, 2), 3).0.1; }",
    "fn main() { f(); }\nfn f() { main(); }",
    "fn main() { let x = 1; x(); 1(); \"s\"(); }",
    "fn f(g: () -> unit) { g() }\nfn main() { f(main) }",
    "",
    "fn",
    "fn main",
    "fn main() {",
    "}",
    "fn main() { let _ = ; }",
    "fn main() { let = 1; }",
    "struct",
    "enum E {",
    "impl",
    "trait T { fn }",
    "#[",
    "fn main() { match }",
    "fn main() { match 1 { } }",
    "fn main() { if }",
    "fn main() { || }",
    "fn main() { |x: | x }",
    "fn main() { 1 + }",
    "fn main() { a.  }",
    "fn main() { a:: }",
    "fn f[](x: int32) { }\nfn main() { }",
    "fn f[T: ](x: T) { }\nfn main() { }",
    "fn f[T: A +](x: T) { }\nfn main() { }",
];

fn run(ctx: &mut Ctx) {
    if let Some(rep) = ctx.replay_input.clone() {
        let input = rep["record"]["detail"]["input"].as_str().unwrap_or("").to_string();
        ctx.case("replay", |c| check_source(c, "replay", &input));
        return;
    }
    let tier = ctx.tier;
    let seed = ctx.seed;
    let corpus = corpus_files();
    // 1. corpus verbatim + targeted shapes + deep nesting (deterministic part)
    for (i, (name, text)) in corpus.iter().enumerate() {
        if ctx.mine(i as u64) {
            ctx.case(&format!("corpus/{}", name), |c| {
                check_source(c, "corpus", text);
                c.sample(json!({"workload":"corpus","file":name}));
            });
        }
    }
    for (i, t) in TARGETED.iter().enumerate() {
        if ctx.mine(i as u64) {
            ctx.case(&format!("targeted/{}", i), |c| {
                check_source(c, "targeted", t);
                c.sample(json!({"workload":"targeted","input":t}));
            });
        }
    }
    // cyclic-type family: two expressions over an unannotated closure parameter forced to one type
    // (every pair x 4 contexts); almost all are ill-typed - the typer must answer, not recurse forever
    {
        let over_h = ["h", "h(1)", "h(h)", "h(1)(2)", "(h, h)", "(h, 1)", "|y| h", "|y| h(y)", "ref(h)", "[h]", "[h(1)]", "h(h(1))", "vec_push(vec_new(), h)"];
        let mut k = 0u64;
        for a in over_h.iter() {
            for b in over_h.iter() {
                for ctxk in 0..4 {
                    k += 1;
                    if !ctx.mine(300_000 + k) {
                        continue;
                    }
                    if tier == crate::runner::Tier::Quick && k % 2 == 1 {
                        continue;
                    }
                    let body = match ctxk {
                        0 => format!("if true {{ {} }} else {{ {} }}", a, b),
                        1 => format!("match 1 {{ 0 => {}, _ => {} }}", a, b),
                        2 => format!("{{ let r = {}; let s = ref(r); let _ = ref_set(s, {}); r }}", a, b),
                        _ => format!("{{ let r = {}; if true {{ r }} else {{ {} }} }}", a, b),
                    };
                    let src = format!("fn main() -> unit {{\n    let f = |h| {};\n    ()\n}}\n", body);
                    ctx.case(&format!("cyclic/{}", k), |c| {
                        check_source(c, "cyclic_types", &src);
                        if k % 97 == 0 {
                            c.sample(json!({"workload":"cyclic_types","input":src}));
                        }
                    });
                }
            }
        }
    }
    // recursive-type family (shared with C07, which also executes them): generic types that contain their own instance
    // behind Vec / Ref / tuple / array / function / generic enum / generic struct, mutual recursion, swapped parameters:
    // every pass (type monomorphisation in particular) must terminate on them
    for (i, (name, src, _)) in crate::props::c07::recursive_type_programs().into_iter().enumerate() {
        if ctx.mine(310_000 + i as u64) {
            ctx.case(&format!("recursive-types/{}", name), |c| {
                check_source(c, "recursive_types", &src);
                c.sample(json!({"workload":"recursive_types","input":src}));
            });
        }
    }
    // generic-signature family: the type parameter in every type-constructor position of a parameter and of a
    // result (tuple left / right / nested, Vec, array, Ref, function argument / result, generic struct, generic enum,
    // compositions), each instantiated at six types: instantiation must answer, not crash
    {
        let shapes: &[(&str, &str)] = &[
            ("(T, int32)", "(v, 1)"),
            ("(int32, T)", "(1, v)"),
            ("((T, T), bool)", "((v, v), true)"),
            ("(bool, (int32, (T, string)))", "(true, (1, (v, \"s\")))"),
            ("Vec[T]", "vec_push(vec_new(), v)"),
            ("Vec[(T, int32)]", "vec_push(vec_new(), (v, 2))"),
            ("[T; 2]", "[v, v]"),
            ("[(T, bool); 1]", "[(v, false)]"),
            ("Ref[T]", "ref(v)"),
            ("Ref[(T, T)]", "ref((v, v))"),
            ("(int32) -> T", "|y: int32| v"),
            ("(int32) -> (T, int32)", "|y: int32| (v, y)"),
            ("Bx[T]", "Bx { v: v, n: 1 }"),
            ("Bx[(T, T)]", "Bx { v: (v, v), n: 1 }"),
            ("Opt[T]", "Opt::Som(v)"),
            ("Opt[(int32, T)]", "Opt::Som((3, v))"),
            ("Bx[Opt[T]]", "Bx { v: Opt::Som(v), n: 1 }"),
            ("(Bx[T], Opt[T])", "(Bx { v: v, n: 1 }, Opt::Non)"),
            ("T", "v"),
        ];
        let insts = ["1", "\"s\"", "true", "(1, \"s\")", "Bx { v: 1, n: 2 }", "()", "Opt::Som(2)", "[1, 2]"];
        for (si, (ty, mk)) in shapes.iter().enumerate() {
            if !ctx.mine(400_000 + si as u64) {
                continue;
            }
            let mut src = String::from("struct Bx[A] { v: A, n: int32 }\nenum Opt[T] { Som(T), Non }\n");
            src.push_str(&format!("fn give[T](v: T) -> {} {{ {} }}\nfn take[T](x: {}) -> int32 {{ 1 }}\nfn both[T, U](x: {}, u: U) -> (U, {}) {{ (u, x) }}\n", ty, mk, ty, ty, ty));
            src.push_str("fn main() -> unit {\n");
            for (k, v) in insts.iter().enumerate() {
                src.push_str(&format!("    let g{k} = give({v});\n    let _ = string_println(int32_to_string(take(g{k})));\n    let (_, h{k}) = both(g{k}, {v});\n    let _ = take(h{k});\n", k = k, v = v));
            }
            src.push_str("    ()\n}\n");
            ctx.case(&format!("generic_shapes/{}", si), |c| {
                let before = c.counter("compile_ok");
                check_source(c, "generic_shapes", &src);
                if c.counter("compile_ok") > before {
                    c.count("generic_shapes_instantiated", 1);
                }
                if si % 6 == 0 {
                    c.sample(json!({"workload":"generic_shapes","input":src}));
                }
            });
        }
    }
    // generated well-typed programs (all features) and programs over the generic library of C07
    {
        use crate::gl::ast::{PrintOpts, print_program};
        let ngen = tier.pickn(60u64, 6_000u64) / ctx.nshards as u64 + 1;
        for i in 0..ngen {
            let mut rng = Rng::keyed(seed, "c04-gen", ctx.shard as u64, i);
            let src = if i % 3 == 0 {
                let (prog, _) = crate::props::c07::build(&mut rng, 10);
                print_program(&prog, PrintOpts::default())
            } else {
                let mut f = crate::gl::pgen::Features::base();
                f.n_fns = 2 + rng.below(4);
                let (prog, _) = crate::gl::pgen::generate(&mut rng, f);
                print_program(&prog, PrintOpts::default())
            };
            ctx.case(&format!("generated/{}/{}", ctx.shard, i), |c| check_source(c, "generated", &src));
        }
    }
    // multi-line string syntax: soups of marker / continuation / lone-backslash pieces, and every prefix of the corpus
    // files that contain a multi-line string (what an editor hands over while the literal is being typed)
    {
        let nml = tier.pickn(1_500u64, 60_000u64) / ctx.nshards as u64 + 1;
        for i in 0..nml {
            let mut rng = Rng::keyed(seed, "c04-ml", ctx.shard as u64, i);
            let n = 1 + rng.below(8);
            let mut s = String::new();
            if rng.chance(1, 3) {
                s.push_str("fn main() -> unit {\n    let s = ");
            }
            for _ in 0..n {
                s.push_str(rng.pick(crate::props::c12::ML_PARTS));
            }
            ctx.case(&format!("multiline_soup/{}/{}", ctx.shard, i), |c| check_source(c, "multiline_soup", &s));
        }
        // "..." literals and string patterns made of escape pieces: lone and paired surrogate escapes, short and
        // malformed \\u forms, next to 2-, 3- and 4-byte characters (the decoder looks ahead over raw text; added after a
        // seeded change that sliced it at a fixed byte offset)
        const ESC_PARTS: &[&str] = &["\\uD83D", "\\uDE00", "\\uD800", "\\uDBFF", "\\uDC00", "\\uDFFF", "\\u00e9", "\\u0041", "\\u12", "\\u", "\\uZZZZ", "\\x41", "\\\\", "\\\"", "\\n", "\\/", "\u{e9}", "\u{20ac}", "\u{65e5}", "\u{1F600}", "a", "u", " ", "D", "8"];
        let nesc = tier.pickn(600u64, 30_000u64) / ctx.nshards as u64 + 1;
        for i in 0..nesc {
            let mut rng = Rng::keyed(seed, "c04-esc", ctx.shard as u64, i);
            let mut lit = String::new();
            for _ in 0..(1 + rng.below(6)) {
                lit.push_str(rng.pick(ESC_PARTS));
            }
            let s = match rng.below(3) {
                0 => format!("fn main() -> unit {{\n    let s = \"{}\";\n    let _ = string_println(s);\n    ()\n}}\n", lit),
                1 => format!("fn main() -> unit {{\n    let s = \"x\";\n    match s {{\n        \"{}\" => (),\n        _ => (),\n    }}\n}}\n", lit),
                _ => format!("fn f() -> string {{ \"{}\" + \"{}\" }}\n", lit, lit),
            };
            ctx.case(&format!("escape_soup/{}/{}", ctx.shard, i), |c| check_source(c, "escape_soup", &s));
        }
        let mut k = 0u64;
        for (_name, text) in corpus.iter().filter(|(_, t)| t.contains("\\\\") && t.len() < 4_000) {
            for cut in 0..=text.len() {
                if !text.is_char_boundary(cut) {
                    continue;
                }
                k += 1;
                if !ctx.mine(500_000 + k) {
                    continue;
                }
                let s = text[..cut].to_string();
                ctx.case(&format!("multiline_prefix/{}", k), |c| check_source(c, "multiline_prefix", &s));
            }
        }
    }
    for (i, (id, text)) in util::known_witnesses("C04").iter().enumerate() {
        if ctx.mine(i as u64) {
            ctx.case(&format!("witness/{}", id), |c| check_source(c, "witness", text));
        }
    }
    let mut k = 0u64;
    for kind in 0..12 {
        for depth in [1usize, 2, 8, 32, 64] {
            k += 1;
            if ctx.mine(k) {
                let s = mutators::nest(kind, depth);
                ctx.case(&format!("nest/{}/{}", kind, depth), |c| check_source(c, "nesting", &s));
            }
        }
    }
    for kind in 0..5 {
        for depth in [1usize, 8, 32, 64] {
            k += 1;
            if ctx.mine(k) {
                let s = mutators::nest_type(kind, depth);
                ctx.case(&format!("nest_type/{}/{}", kind, depth), |c| check_source(c, "nesting", &s));
            }
        }
    }
    for depth in [1usize, 8, 32, 64] {
        k += 1;
        if ctx.mine(k) {
            let s = mutators::nest_pattern(depth);
            ctx.case(&format!("nest_pat/{}", depth), |c| {
                check_source(c, "nesting", &s);
                c.sample(json!({"workload":"nesting","input":util::truncate(&s, 200)}));
            });
        }
    }
    // 2. mutations of corpus + targeted (seeded)
    let per_shard = tier.pickn(9_000u64, 3_000_000u64) / ctx.nshards as u64 + 1;
    let mut pool: Vec<&str> = corpus.iter().map(|(_, t)| t.as_str()).filter(|t| t.len() < 6_000).collect();
    // seeds whose descendants mostly re-trigger the recorded non-termination finding stay out of the mutation pool
    pool.extend(TARGETED.iter().copied().filter(|t| !t.contains("f((x, x)")));
    for i in 0..per_shard {
        let mut rng = Rng::keyed(seed, "c04-mut", ctx.shard as u64, i);
        let base = rng.pick(&pool);
        let (wl, s) = match rng.below(10) {
            0..=4 => ("mutate_tokens", mutators::mutate_tokens(&mut rng, base)),
            5 | 6 => ("mutate_lines", mutators::mutate_lines(&mut rng, base)),
            7 => ("mutate_chars", crate::props::c12::mutate(&mut rng, base)),
            8 => {
                let other = rng.pick(&pool);
                ("splice", mutators::splice(&mut rng, base, other))
            }
            _ => {
                let n = 1 + rng.below(40);
                let mut s = String::new();
                for _ in 0..n {
                    s.push_str(rng.pick(TOKEN_POOL));
                    s.push(' ');
                }
                ("token_soup", s)
            }
        };
        if s.len() > 64 * 1024 {
            continue;
        }
        ctx.case(&format!("{}/{}/{}", wl, ctx.shard, i), |c| {
            check_source(c, wl, &s);
            if i < 3 {
                c.sample(json!({"workload": wl, "input": util::truncate(&s, 300)}));
            }
        });
    }
    let _ = Tier::Quick;
    capi::cleanup_scratch();
}
