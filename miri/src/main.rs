//! C12 supplement: the front-end driver of props/c12.rs (lexer tiling, lossless CST, every node / token visited so that
//! `kind_from_raw`'s transmute runs for every element) on a small input set, meant to be run under Miri:
//!   MIRIFLAGS="-Zmiri-disable-isolation -Zmiri-disable-stacked-borrows" cargo +nightly miri run -- <inputs-file>
//! Inputs file: entries separated by a line that consists of the single byte 0x1e (record separator).
//! Prints `MIRI-DRIVER-OK inputs=<n> tokens=<t> elements=<e>` when every input passed; a mismatch prints
//! `MIRI-DRIVER-MISMATCH <index> <what>` and exits 1. Undefined behaviour is reported by Miri itself.
use std::path::Path;

fn main() {
    let path = std::env::args().nth(1).expect("inputs file");
    let data = std::fs::read_to_string(&path).expect("read inputs");
    let mut n = 0u64;
    let mut tokens = 0u64;
    let mut elements = 0u64;
    for (idx, s) in data.split("\n\u{1e}\n").enumerate() {
        n += 1;
        let toks = lexer::lex(s);
        let mut pos = 0usize;
        for t in &toks {
            let st: usize = t.range.start().into();
            let en: usize = t.range.end().into();
            if st != pos || en > s.len() || &s[st..en] != t.text {
                println!("MIRI-DRIVER-MISMATCH {} lexer tiling at {}", idx, st);
                std::process::exit(1);
            }
            pos = en;
            tokens += 1;
        }
        if pos != s.len() {
            println!("MIRI-DRIVER-MISMATCH {} lexer stops at {} of {}", idx, pos, s.len());
            std::process::exit(1);
        }
        let r = parser::parse(Path::new("main.gom"), s);
        let stuck = r.diagnostics().iter().any(|d| d.message().contains("parser did not consume input"));
        let root: parser::syntax::MySyntaxNode = rowan::SyntaxNode::new_root(r.green_node.clone());
        let mut text = String::new();
        for ev in root.preorder_with_tokens() {
            if let rowan::WalkEvent::Enter(el) = ev {
                elements += 1;
                match el {
                    rowan::NodeOrToken::Node(nd) => {
                        let _ = nd.kind();
                        let _ = nd.text_range();
                    }
                    rowan::NodeOrToken::Token(tk) => {
                        let _ = tk.kind();
                        text.push_str(tk.text());
                    }
                }
            }
        }
        if text != s && !stuck {
            println!("MIRI-DRIVER-MISMATCH {} tree text differs from input", idx);
            std::process::exit(1);
        }
        // second tree from the same green node, dropped in another order (exercises rowan's cursor free list)
        let root2: parser::syntax::MySyntaxNode = rowan::SyntaxNode::new_root(r.green_node.clone());
        let kids: Vec<_> = root2.children_with_tokens().collect();
        drop(root2);
        drop(kids);
    }
    println!("MIRI-DRIVER-OK inputs={} tokens={} elements={}", n, tokens, elements);
}
