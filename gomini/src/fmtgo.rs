//! Go's fmt / strconv formatting for the value kinds the subset uses.

/// A formatting argument: the dynamic value of an `any` operand, reduced to
/// what fmt can print for it in this subset.
#[derive(Clone, Debug)]
pub enum Arg {
    /// nil interface
    Nil,
    Bool { v: bool, ty: String },
    /// signed integer kinds
    Int { v: i64, ty: String },
    /// unsigned integer kinds
    Uint { v: u64, ty: String },
    F32 { v: f32, ty: String },
    F64 { v: f64, ty: String },
    Str { v: Vec<u8>, ty: String },
    /// anything else (struct, pointer, slice, func, extern type ...): not
    /// formatted by this implementation
    Other { ty: String },
}

impl Arg {
    pub fn type_name(&self) -> &str {
        match self {
            Arg::Nil => "<nil>",
            Arg::Bool { ty, .. } | Arg::Int { ty, .. } | Arg::Uint { ty, .. } | Arg::F32 { ty, .. } | Arg::F64 { ty, .. } | Arg::Str { ty, .. } | Arg::Other { ty } => ty,
        }
    }
    fn is_string(&self) -> bool {
        matches!(self, Arg::Str { .. })
    }
}

#[derive(Clone, Debug, PartialEq)]
pub struct FmtUnsupported(pub String);

type FResult<T> = Result<T, FmtUnsupported>;

fn unsup<T>(s: impl Into<String>) -> FResult<T> {
    Err(FmtUnsupported(s.into()))
}

// ------------------------------------------------------------------ floats

/// Shortest decimal digits that round-trip, and the decimal exponent such
/// that value = 0.d1d2d3... * 10^dp (Go's decimal point convention).
fn shortest_digits_f64(f: f64) -> (Vec<u8>, i32) {
    let s = format!("{:e}", f.abs());
    parse_e(&s)
}

fn shortest_digits_f32(f: f32) -> (Vec<u8>, i32) {
    let s = format!("{:e}", f.abs());
    parse_e(&s)
}

fn parse_e(s: &str) -> (Vec<u8>, i32) {
    // forms: "1e0", "1.5e-7", "3.4028235e38"
    let (mant, exp) = s.split_once('e').unwrap_or((s, "0"));
    let exp: i32 = exp.parse().unwrap_or(0);
    let mut digits: Vec<u8> = mant.bytes().filter(|b| b.is_ascii_digit()).collect();
    while digits.len() > 1 && *digits.last().unwrap() == b'0' {
        digits.pop();
    }
    if digits == b"0" {
        return (vec![], 0);
    }
    (digits, exp + 1)
}

fn fmt_exp(out: &mut String, digits: &[u8], dp: i32, prec: Option<usize>, upper: bool) {
    // %e form: d.ddddde+XX
    let first = digits.first().copied().unwrap_or(b'0');
    out.push(first as char);
    let frac: Vec<u8> = match prec {
        Some(p) => {
            let mut v: Vec<u8> = digits.iter().skip(1).copied().collect();
            v.resize(p, b'0');
            v
        }
        None => digits.iter().skip(1).copied().collect(),
    };
    if !frac.is_empty() {
        out.push('.');
        for d in frac {
            out.push(d as char);
        }
    }
    out.push(if upper { 'E' } else { 'e' });
    let exp = if digits.is_empty() { 0 } else { dp - 1 };
    if exp < 0 {
        out.push('-');
    } else {
        out.push('+');
    }
    let a = exp.unsigned_abs();
    if a < 10 {
        out.push('0');
    }
    out.push_str(&a.to_string());
}

fn fmt_fixed_shortest(out: &mut String, digits: &[u8], dp: i32) {
    // %f with shortest digits (used by %v / %g positional form)
    if dp > 0 {
        for i in 0..dp as usize {
            out.push(digits.get(i).copied().unwrap_or(b'0') as char);
        }
    } else {
        out.push('0');
    }
    if (digits.len() as i32) > dp {
        out.push('.');
        for _ in dp..0 {
            out.push('0');
        }
        for d in digits.iter().skip(dp.max(0) as usize) {
            out.push(*d as char);
        }
    }
}

/// strconv.FormatFloat(f, 'g', -1, bits) for finite and non-finite values.
pub fn format_g_shortest(neg: bool, is_nan: bool, is_inf: bool, digits: &[u8], dp: i32) -> String {
    if is_nan {
        return "NaN".to_string();
    }
    if is_inf {
        return if neg { "-Inf".to_string() } else { "+Inf".to_string() };
    }
    let mut out = String::new();
    if neg {
        out.push('-');
    }
    // strconv %g: exponent form iff exp < -4 || exp >= eprec, and eprec is 6
    // whenever the shortest representation was requested (precision -1)
    let eprec = 6;
    let exp = dp - 1;
    if digits.is_empty() {
        out.push('0');
        return out;
    }
    if exp < -4 || exp >= eprec {
        fmt_exp(&mut out, digits, dp, None, false);
    } else {
        fmt_fixed_shortest(&mut out, digits, dp);
    }
    out
}

pub fn format_f64_g(f: f64) -> String {
    let (d, dp) = if f.is_finite() { shortest_digits_f64(f) } else { (vec![], 0) };
    format_g_shortest(f.is_sign_negative() && !f.is_nan(), f.is_nan(), f.is_infinite(), &d, dp)
}

pub fn format_f32_g(f: f32) -> String {
    let (d, dp) = if f.is_finite() { shortest_digits_f32(f) } else { (vec![], 0) };
    format_g_shortest(f.is_sign_negative() && !f.is_nan(), f.is_nan(), f.is_infinite(), &d, dp)
}

/// %f / %e with explicit precision. The value is given as f64 (an f32 is
/// widened exactly; Go formats float32 with bitsize 32, which for fixed
/// precision gives the same digits as the exact widened value).
fn format_fixed(f: f64, prec: usize, verb: char) -> String {
    if f.is_nan() {
        return "NaN".to_string();
    }
    if f.is_infinite() {
        return if f < 0.0 { "-Inf".to_string() } else { "+Inf".to_string() };
    }
    match verb {
        'f' | 'F' => format!("{:.*}", prec, f),
        _ => {
            let s = format!("{:.*e}", prec, f);
            // Rust: 1.5e3 / 1.5e-7 -> Go: 1.5e+03 / 1.5e-07
            let (m, e) = s.split_once('e').unwrap();
            let ev: i32 = e.parse().unwrap_or(0);
            let sign = if ev < 0 { '-' } else { '+' };
            let a = ev.unsigned_abs();
            let es = if a < 10 { format!("0{}", a) } else { a.to_string() };
            let ec = if verb == 'E' { 'E' } else { 'e' };
            format!("{}{}{}{}", m, ec, sign, es)
        }
    }
}

// ------------------------------------------------------------------- quote

/// strconv.IsPrint for the code points we are certain about.
/// Some(true/false) when certain, None when this implementation has no
/// reliable knowledge (depends on the Unicode tables of the Go release).
pub fn is_print(r: u32) -> Option<bool> {
    if r < 0x20 || r == 0x7f {
        return Some(false);
    }
    if r < 0x7f {
        return Some(true);
    }
    if r < 0xa1 {
        return Some(false); // 0x80..=0xa0 (C1 controls and NBSP)
    }
    if r <= 0xff {
        return Some(r != 0xad);
    }
    let in_any = |ranges: &[(u32, u32)]| ranges.iter().any(|(lo, hi)| r >= *lo && r <= *hi);
    const PRINTABLE: &[(u32, u32)] = &[
        (0x0100, 0x0377), // Latin Extended-A/B, IPA, modifiers, combining marks
        (0x037a, 0x037f),
        (0x0384, 0x038a),
        (0x038c, 0x038c),
        (0x038e, 0x03a1),
        (0x03a3, 0x052f), // Greek (rest), Cyrillic, Cyrillic Supplement
        (0x2010, 0x2027), // dashes, quotes, bullets
        (0x2030, 0x205e),
        (0x20a0, 0x20bf), // currency symbols (up to Unicode 10)
        (0x2100, 0x218b), // letterlike symbols, number forms
        (0x2190, 0x23fe), // arrows, math operators, misc technical (Unicode 9)
        (0x2500, 0x27bf), // box drawing, blocks, geometric, misc symbols, dingbats
        (0x3001, 0x303f), // CJK punctuation
        (0x3041, 0x3096), // Hiragana
        (0x3099, 0x30ff), // Hiragana marks, Katakana
        (0x4e00, 0x9fea), // CJK unified ideographs (Unicode 10)
        (0xac00, 0xd7a3), // Hangul syllables
        (0xff01, 0xff60), // fullwidth ASCII variants
        (0xfffc, 0xfffd), // object replacement, replacement character
        (0x1f300, 0x1f5ff), // misc symbols and pictographs
        (0x1f600, 0x1f64f), // emoticons
        (0x1f680, 0x1f6c5), // transport (core part)
        (0x1f910, 0x1f93e),
        (0x1f940, 0x1f970),
        (0x1f980, 0x1f9a2),
        (0x1f9d0, 0x1f9ff),
    ];
    const NOT_PRINTABLE: &[(u32, u32)] = &[
        (0x2000, 0x200f),   // spaces, zero width, directional marks
        (0x2028, 0x202f),   // line/paragraph separators, embeddings, narrow NBSP
        (0x205f, 0x206f),   // math space, invisible operators, deprecated format chars
        (0x3000, 0x3000),   // ideographic space
        (0xd800, 0xf8ff),   // surrogates, private use
        (0xfeff, 0xfeff),   // BOM
        (0xfff0, 0xfffb),   // specials (unassigned, interlinear annotation controls)
        (0xfffe, 0xffff),   // noncharacters
        (0xe0000, 0xe00ff), // tags (format), unassigned
        (0xe01f0, 0xeffff), // unassigned (after the variation selectors supplement)
        (0xf0000, 0x10ffff), // private use planes
    ];
    if in_any(PRINTABLE) {
        return Some(true);
    }
    if in_any(NOT_PRINTABLE) {
        return Some(false);
    }
    if r > 0x10ffff {
        return Some(false);
    }
    None
}

/// Decodes one UTF-8 sequence like Go's utf8.DecodeRune: returns
/// (rune, width); invalid encodings give (0xFFFD, 1).
pub fn decode_rune(s: &[u8]) -> (u32, usize) {
    if s.is_empty() {
        return (0xfffd, 0);
    }
    let b0 = s[0];
    if b0 < 0x80 {
        return (b0 as u32, 1);
    }
    let (need, min, init) = match b0 {
        0xc2..=0xdf => (1, 0x80, (b0 & 0x1f) as u32),
        0xe0..=0xef => (2, 0x800, (b0 & 0x0f) as u32),
        0xf0..=0xf4 => (3, 0x10000, (b0 & 0x07) as u32),
        _ => return (0xfffd, 1),
    };
    if s.len() < 1 + need {
        return (0xfffd, 1);
    }
    let mut r = init;
    for i in 1..=need {
        let b = s[i];
        if b & 0xc0 != 0x80 {
            return (0xfffd, 1);
        }
        r = (r << 6) | (b & 0x3f) as u32;
    }
    if r < min || r > 0x10ffff || (0xd800..0xe000).contains(&r) {
        return (0xfffd, 1);
    }
    (r, 1 + need)
}

/// strconv.Quote. The boolean is false when the result depends on a
/// printability decision this implementation is not certain about (the
/// rune is then emitted as if printable).
pub fn quote_bytes(s: &[u8]) -> (Vec<u8>, bool) {
    let mut out: Vec<u8> = Vec::with_capacity(s.len() + 2);
    let mut certain = true;
    out.push(b'"');
    let mut i = 0;
    while i < s.len() {
        let (r, w) = decode_rune(&s[i..]);
        if w == 1 && r == 0xfffd {
            out.extend_from_slice(format!("\\x{:02x}", s[i]).as_bytes());
            i += 1;
            continue;
        }
        match r {
            0x22 => out.extend_from_slice(b"\\\""),
            0x5c => out.extend_from_slice(b"\\\\"),
            _ => match is_print(r) {
                Some(true) => out.extend_from_slice(&s[i..i + w]),
                None => {
                    certain = false;
                    out.extend_from_slice(&s[i..i + w]);
                }
                Some(false) => match r {
                    7 => out.extend_from_slice(b"\\a"),
                    8 => out.extend_from_slice(b"\\b"),
                    12 => out.extend_from_slice(b"\\f"),
                    10 => out.extend_from_slice(b"\\n"),
                    13 => out.extend_from_slice(b"\\r"),
                    9 => out.extend_from_slice(b"\\t"),
                    11 => out.extend_from_slice(b"\\v"),
                    _ => {
                        if r < 0x20 || r == 0x7f {
                            out.extend_from_slice(format!("\\x{:02x}", r).as_bytes());
                        } else if r < 0x10000 {
                            out.extend_from_slice(format!("\\u{:04x}", r).as_bytes());
                        } else {
                            out.extend_from_slice(format!("\\U{:08x}", r).as_bytes());
                        }
                    }
                },
            },
        }
        i += w;
    }
    out.push(b'"');
    (out, certain)
}

/// strconv.Quote on a Rust string; see `quote_bytes`.
pub fn quote(s: &str) -> (String, bool) {
    let (b, c) = quote_bytes(s.as_bytes());
    (String::from_utf8_lossy(&b).into_owned(), c)
}

// ------------------------------------------------------------------ verbs

fn value_v(a: &Arg) -> FResult<Vec<u8>> {
    Ok(match a {
        Arg::Nil => b"<nil>".to_vec(),
        Arg::Bool { v, .. } => v.to_string().into_bytes(),
        Arg::Int { v, .. } => v.to_string().into_bytes(),
        Arg::Uint { v, .. } => v.to_string().into_bytes(),
        Arg::F32 { v, .. } => format_f32_g(*v).into_bytes(),
        Arg::F64 { v, .. } => format_f64_g(*v).into_bytes(),
        Arg::Str { v, .. } => v.clone(),
        Arg::Other { ty } => return unsup(format!("fmt of a value of type {}", ty)),
    })
}

#[derive(Default, Clone, Copy)]
struct Flags {
    minus: bool,
    plus: bool,
    zero: bool,
    space: bool,
    wid: Option<usize>,
    prec: Option<usize>,
}

fn rune_count(b: &[u8]) -> usize {
    let mut i = 0;
    let mut n = 0;
    while i < b.len() {
        let (_, w) = decode_rune(&b[i..]);
        i += w.max(1);
        n += 1;
    }
    n
}

/// Pads `body` to the width. `numeric` enables zero padding after the sign.
fn pad(out: &mut Vec<u8>, body: &[u8], fl: &Flags, numeric: bool) {
    let w = match fl.wid {
        Some(w) => w,
        None => {
            out.extend_from_slice(body);
            return;
        }
    };
    let n = rune_count(body);
    if n >= w {
        out.extend_from_slice(body);
        return;
    }
    let fill = w - n;
    if fl.minus {
        out.extend_from_slice(body);
        out.extend(std::iter::repeat(b' ').take(fill));
    } else if fl.zero && numeric {
        let (sign, rest) = match body.first() {
            Some(b'+') | Some(b'-') | Some(b' ') => (&body[..1], &body[1..]),
            _ => (&body[..0], body),
        };
        out.extend_from_slice(sign);
        out.extend(std::iter::repeat(b'0').take(fill));
        out.extend_from_slice(rest);
    } else {
        out.extend(std::iter::repeat(b' ').take(fill));
        out.extend_from_slice(body);
    }
}

fn bad_verb(out: &mut Vec<u8>, verb: char, a: &Arg) -> FResult<()> {
    // %!verb(type=value)
    out.extend_from_slice(b"%!");
    let mut buf = [0u8; 4];
    out.extend_from_slice(verb.encode_utf8(&mut buf).as_bytes());
    out.push(b'(');
    match a {
        Arg::Nil => out.extend_from_slice(b"<nil>"),
        _ => {
            out.extend_from_slice(a.type_name().as_bytes());
            out.push(b'=');
            out.extend_from_slice(&value_v(a)?);
        }
    }
    out.push(b')');
    Ok(())
}

fn signed_prefix(neg: bool, fl: &Flags) -> &'static str {
    if neg {
        "-"
    } else if fl.plus {
        "+"
    } else if fl.space {
        " "
    } else {
        ""
    }
}

fn fmt_integer(out: &mut Vec<u8>, neg: bool, mag: u64, base: u32, upper: bool, fl: &Flags) -> FResult<()> {
    if fl.prec.is_some() {
        return unsup("precision with integer verb");
    }
    let digits = match base {
        10 => mag.to_string(),
        16 => {
            if upper {
                format!("{:X}", mag)
            } else {
                format!("{:x}", mag)
            }
        }
        8 => format!("{:o}", mag),
        2 => format!("{:b}", mag),
        _ => return unsup("integer base"),
    };
    let body = format!("{}{}", signed_prefix(neg, fl), digits);
    pad(out, body.as_bytes(), fl, true);
    Ok(())
}

fn fmt_one(out: &mut Vec<u8>, verb: char, fl: &Flags, a: &Arg) -> FResult<()> {
    match (verb, a) {
        ('v', Arg::Other { ty }) => unsup(format!("%v of a value of type {}", ty)),
        ('v', Arg::Nil) => {
            pad(out, b"<nil>", fl, false);
            Ok(())
        }
        ('v', Arg::Bool { .. }) => fmt_one(out, 't', fl, a),
        ('v', Arg::Int { .. }) | ('v', Arg::Uint { .. }) => fmt_one(out, 'd', fl, a),
        ('v', Arg::F32 { .. }) | ('v', Arg::F64 { .. }) => fmt_one(out, 'g', fl, a),
        ('v', Arg::Str { .. }) => fmt_one(out, 's', fl, a),
        ('t', Arg::Bool { v, .. }) => {
            pad(out, v.to_string().as_bytes(), fl, false);
            Ok(())
        }
        ('d', Arg::Int { v, .. }) => fmt_integer(out, *v < 0, v.unsigned_abs(), 10, false, fl),
        ('d', Arg::Uint { v, .. }) => fmt_integer(out, false, *v, 10, false, fl),
        ('x' | 'X', Arg::Int { v, .. }) => fmt_integer(out, *v < 0, v.unsigned_abs(), 16, verb == 'X', fl),
        ('x' | 'X', Arg::Uint { v, .. }) => fmt_integer(out, false, *v, 16, verb == 'X', fl),
        ('o', Arg::Int { v, .. }) => fmt_integer(out, *v < 0, v.unsigned_abs(), 8, false, fl),
        ('o', Arg::Uint { v, .. }) => fmt_integer(out, false, *v, 8, false, fl),
        ('b', Arg::Int { v, .. }) => fmt_integer(out, *v < 0, v.unsigned_abs(), 2, false, fl),
        ('b', Arg::Uint { v, .. }) => fmt_integer(out, false, *v, 2, false, fl),
        ('c' | 'q' | 'U', Arg::Int { .. } | Arg::Uint { .. }) => unsup(format!("%{} of an integer", verb)),
        ('x' | 'X', Arg::Str { v, .. }) => {
            if fl.prec.is_some() || fl.plus || fl.space {
                return unsup("flags with %x of a string");
            }
            let mut body = String::new();
            for b in v {
                if verb == 'X' {
                    body.push_str(&format!("{:02X}", b));
                } else {
                    body.push_str(&format!("{:02x}", b));
                }
            }
            pad(out, body.as_bytes(), fl, false);
            Ok(())
        }
        ('s', Arg::Str { v, .. }) => {
            let body: Vec<u8> = match fl.prec {
                Some(p) => {
                    // truncate to p runes
                    let mut i = 0;
                    let mut n = 0;
                    while i < v.len() && n < p {
                        let (_, w) = decode_rune(&v[i..]);
                        i += w.max(1);
                        n += 1;
                    }
                    v[..i].to_vec()
                }
                None => v.clone(),
            };
            // zero padding of strings: Go pads with zeros too when the 0 flag
            // is given; not relied upon
            if fl.zero && fl.wid.is_some() {
                return unsup("zero padding of %s");
            }
            pad(out, &body, fl, false);
            Ok(())
        }
        ('q', Arg::Str { v, .. }) => {
            if fl.prec.is_some() || fl.plus || fl.zero {
                return unsup("flags with %q");
            }
            let (q, certain) = quote_bytes(v);
            if !certain {
                return unsup("%q of a rune whose printability is not known to gomini");
            }
            pad(out, &q, fl, false);
            Ok(())
        }
        ('g' | 'G', Arg::F32 { .. } | Arg::F64 { .. }) if fl.prec.is_some() => unsup("%g with precision"),
        ('g', Arg::F32 { v, .. }) => {
            let s = format_f32_g(*v);
            fmt_float_body(out, s, v.is_finite(), fl);
            Ok(())
        }
        ('g', Arg::F64 { v, .. }) => {
            let s = format_f64_g(*v);
            fmt_float_body(out, s, v.is_finite(), fl);
            Ok(())
        }
        ('f' | 'F' | 'e' | 'E', Arg::F32 { v, .. }) => {
            let s = format_fixed(*v as f64, fl.prec.unwrap_or(6), verb);
            fmt_float_body(out, s, v.is_finite(), fl);
            Ok(())
        }
        ('f' | 'F' | 'e' | 'E', Arg::F64 { v, .. }) => {
            let s = format_fixed(*v, fl.prec.unwrap_or(6), verb);
            fmt_float_body(out, s, v.is_finite(), fl);
            Ok(())
        }
        ('G' | 'x' | 'X' | 'b', Arg::F32 { .. } | Arg::F64 { .. }) => unsup(format!("%{} of a float", verb)),
        (_, Arg::Other { ty }) => unsup(format!("fmt of a value of type {}", ty)),
        // everything else is a bad verb for the operand type
        ('O', Arg::Int { .. } | Arg::Uint { .. }) => unsup("%O"),
        _ => bad_verb(out, verb, a),
    }
}

fn fmt_float_body(out: &mut Vec<u8>, s: String, finite: bool, fl: &Flags) {
    // s carries '-' for negatives (and "+Inf"); add '+' / ' ' flags
    let mut body = s;
    if !body.starts_with('-') && !body.starts_with('+') {
        if fl.plus {
            body.insert(0, '+');
        } else if fl.space {
            body.insert(0, ' ');
        }
    } else if body.starts_with('+') && !fl.plus {
        // "+Inf": Go prints +Inf for %v; keep
    }
    let mut f2 = *fl;
    if !finite {
        f2.zero = false;
    }
    pad(out, body.as_bytes(), &f2, true);
}

/// fmt.Sprintf
pub fn sprintf(format: &[u8], args: &[Arg]) -> FResult<Vec<u8>> {
    let mut out: Vec<u8> = Vec::new();
    let mut argi = 0;
    let mut i = 0;
    let n = format.len();
    while i < n {
        let b = format[i];
        if b != b'%' {
            out.push(b);
            i += 1;
            continue;
        }
        i += 1;
        let mut fl = Flags::default();
        // flags
        while i < n {
            match format[i] {
                b'-' => {
                    fl.minus = true;
                    fl.zero = false;
                }
                b'+' => fl.plus = true,
                b'0' => fl.zero = !fl.minus,
                b' ' => fl.space = true,
                b'#' => return unsup("# flag"),
                _ => break,
            }
            i += 1;
        }
        if i < n && (format[i] == b'*' || format[i] == b'[') {
            return unsup("* width or argument index");
        }
        // width
        let mut have = false;
        let mut w: usize = 0;
        while i < n && format[i].is_ascii_digit() {
            w = w.saturating_mul(10).saturating_add((format[i] - b'0') as usize);
            have = true;
            i += 1;
        }
        if have {
            if w > 1_000_000 {
                return unsup("huge width");
            }
            fl.wid = Some(w);
        }
        // precision
        if i < n && format[i] == b'.' {
            i += 1;
            if i < n && (format[i] == b'*' || format[i] == b'[') {
                return unsup("* precision or argument index");
            }
            let mut p: usize = 0;
            while i < n && format[i].is_ascii_digit() {
                p = p.saturating_mul(10).saturating_add((format[i] - b'0') as usize);
                i += 1;
            }
            if p > 1_000_000 {
                return unsup("huge precision");
            }
            fl.prec = Some(p);
        }
        if i < n && format[i] == b'[' {
            return unsup("argument index");
        }
        if i >= n {
            out.extend_from_slice(b"%!(NOVERB)");
            break;
        }
        let (vr, vw) = decode_rune(&format[i..]);
        i += vw.max(1);
        let verb = char::from_u32(vr).unwrap_or('\u{fffd}');
        if verb == '%' {
            // Go prints a single % (flags/width are ignored for %%)
            out.push(b'%');
            continue;
        }
        if argi >= args.len() {
            out.extend_from_slice(b"%!");
            let mut buf = [0u8; 4];
            out.extend_from_slice(verb.encode_utf8(&mut buf).as_bytes());
            out.extend_from_slice(b"(MISSING)");
            continue;
        }
        let a = &args[argi];
        argi += 1;
        if verb == 'T' {
            return unsup("%T");
        }
        if verb == 'p' {
            return unsup("%p");
        }
        fmt_one(&mut out, verb, &fl, a)?;
    }
    if argi < args.len() {
        out.extend_from_slice(b"%!(EXTRA ");
        for (k, a) in args[argi..].iter().enumerate() {
            if k > 0 {
                out.extend_from_slice(b", ");
            }
            match a {
                Arg::Nil => out.extend_from_slice(b"<nil>"),
                _ => {
                    out.extend_from_slice(a.type_name().as_bytes());
                    out.push(b'=');
                    out.extend_from_slice(&value_v(a)?);
                }
            }
        }
        out.push(b')');
    }
    Ok(out)
}

/// fmt.Sprint: spaces between operands when neither is a string.
pub fn sprint(args: &[Arg]) -> FResult<Vec<u8>> {
    let mut out = Vec::new();
    for (i, a) in args.iter().enumerate() {
        if i > 0 && !args[i - 1].is_string() && !a.is_string() {
            out.push(b' ');
        }
        out.extend_from_slice(&value_v(a)?);
    }
    Ok(out)
}

/// fmt.Sprintln: always spaces between operands, newline appended.
pub fn sprintln(args: &[Arg]) -> FResult<Vec<u8>> {
    let mut out = Vec::new();
    for (i, a) in args.iter().enumerate() {
        if i > 0 {
            out.push(b' ');
        }
        out.extend_from_slice(&value_v(a)?);
    }
    out.push(b'\n');
    Ok(out)
}

#[cfg(test)]
mod tests {
    use super::*;

    fn f64a(v: f64) -> Arg {
        Arg::F64 { v, ty: "float64".into() }
    }
    fn f32a(v: f32) -> Arg {
        Arg::F32 { v, ty: "float32".into() }
    }
    fn i32a(v: i64) -> Arg {
        Arg::Int { v, ty: "int32".into() }
    }
    fn stra(s: &str) -> Arg {
        Arg::Str { v: s.as_bytes().to_vec(), ty: "string".into() }
    }
    fn sf(f: &str, a: &[Arg]) -> String {
        String::from_utf8(sprintf(f.as_bytes(), a).unwrap()).unwrap()
    }

    #[test]
    fn floats_v() {
        assert_eq!(format_f64_g(1e21), "1e+21");
        assert_eq!(format_f64_g(1e20), "1e+20");
        assert_eq!(format_f64_g(100000.0), "100000");
        assert_eq!(format_f64_g(1000000.0), "1e+06");
        assert_eq!(format_f64_g(123456789.0), "1.23456789e+08");
        assert_eq!(format_f64_g(1e-5), "1e-05");
        assert_eq!(format_f64_g(0.0001), "0.0001");
        assert_eq!(format_f64_g(0.30000000000000004), "0.30000000000000004");
        assert_eq!(format_f64_g(27.25), "27.25");
        assert_eq!(format_f64_g(-6.5), "-6.5");
        assert_eq!(format_f64_g(0.0), "0");
        assert_eq!(format_f64_g(-0.0), "-0");
        assert_eq!(format_f64_g(f64::INFINITY), "+Inf");
        assert_eq!(format_f64_g(f64::NEG_INFINITY), "-Inf");
        assert_eq!(format_f64_g(f64::NAN), "NaN");
        assert_eq!(format_f32_g(3.4028235e38), "3.4028235e+38");
        assert_eq!(format_f32_g(0.1f32 + 0.2f32), "0.3");
        assert_eq!(format_f32_g(3.5), "3.5");
        assert_eq!(format_f64_g(5e-324), "5e-324");
        assert_eq!(format_f64_g(123456.0), "123456");
        assert_eq!(format_f64_g(1234567.0), "1.234567e+06");
    }

    #[test]
    fn verbs() {
        assert_eq!(sf("%d", &[f32a(3.5)]), "%!d(float32=3.5)");
        assert_eq!(sf("%d", &[stra("hi")]), "%!d(string=hi)");
        assert_eq!(sf("%d", &[Arg::Bool { v: true, ty: "bool".into() }]), "%!d(bool=true)");
        assert_eq!(sf("%d", &[]), "%!d(MISSING)");
        assert_eq!(sf("x", &[i32a(1)]), "x%!(EXTRA int32=1)");
        assert_eq!(sf("%d%%", &[i32a(-5)]), "-5%");
        assert_eq!(sf("%5d|%-5d|%05d", &[i32a(42), i32a(42), i32a(-42)]), "   42|42   |-0042");
        assert_eq!(sf("%x %X", &[i32a(255), i32a(-255)]), "ff -FF");
        assert_eq!(sf("%x", &[stra("hi")]), "6869");
        assert_eq!(sf("%.2f|%f|%8.3f", &[f64a(3.14159), f64a(2.5), f64a(-1.0)]), "3.14|2.500000|  -1.000");
        assert_eq!(sf("%e", &[f64a(1234.5678)]), "1.234568e+03");
        assert_eq!(sf("%v %v %v", &[i32a(1), stra("a"), f64a(0.5)]), "1 a 0.5");
        assert_eq!(sf("%s", &[i32a(1)]), "%!s(int32=1)");
        assert_eq!(sf("%t", &[i32a(1)]), "%!t(int32=1)");
        assert_eq!(sf("%v", &[Arg::Nil]), "<nil>");
        assert_eq!(sf("%d", &[Arg::Nil]), "%!d(<nil>)");
        assert_eq!(sf("%", &[]), "%!(NOVERB)");
        assert_eq!(sf("%5s|%-5s|%.2s", &[stra("ab"), stra("ab"), stra("héllo")]), "   ab|ab   |hé");
    }

    #[test]
    fn quoting() {
        assert_eq!(quote("a\tb"), ("\"a\\tb\"".to_string(), true));
        assert_eq!(quote("\x7f"), ("\"\\x7f\"".to_string(), true));
        assert_eq!(quote("é"), ("\"é\"".to_string(), true));
        assert_eq!(quote("\u{a0}"), ("\"\\u00a0\"".to_string(), true));
        assert_eq!(quote("\u{ad}"), ("\"\\u00ad\"".to_string(), true));
        assert_eq!(quote("😀"), ("\"😀\"".to_string(), true));
        assert_eq!(quote("\u{2028}"), ("\"\\u2028\"".to_string(), true));
        assert_eq!(quote("\u{feff}"), ("\"\\ufeff\"".to_string(), true));
        assert_eq!(quote("\u{e000}"), ("\"\\ue000\"".to_string(), true));
        assert_eq!(quote("\u{10ffff}"), ("\"\\U0010ffff\"".to_string(), true));
        assert_eq!(quote("a\"b\\c"), ("\"a\\\"b\\\\c\"".to_string(), true));
        assert_eq!(quote("\x01\n"), ("\"\\x01\\n\"".to_string(), true));
        let (q, c) = quote_bytes(&[b'a', 0xff, 0xc3]);
        assert_eq!((q, c), (b"\"a\\xff\\xc3\"".to_vec(), true));
        assert!(!quote("\u{0600}").1);
        assert_eq!(quote("中").0, "\"中\"");
    }

    #[test]
    fn print_spacing() {
        assert_eq!(sprint(&[i32a(1), i32a(2), stra("a"), i32a(3), stra("b"), stra("c")]).unwrap(), b"1 2a3bc".to_vec());
        assert_eq!(sprintln(&[i32a(1), stra("a")]).unwrap(), b"1 a\n".to_vec());
    }
}
