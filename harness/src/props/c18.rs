//! C18: derived ToString / ToJson are total and faithful.
//! Random non-generic struct / enum definitions (nesting, recursion, hostile field names) with random
//! values; the compiled program prints to_string() / to_json() of every value; JSON is decoded by
//! serde_json and compared structurally with the value, to_string with the documented rendering.
//! Field types outside the supported set must be refused by a derive diagnostic, not by the generated code.
use crate::exec;
use crate::goexec::Term;
use crate::runner::{self, Case, Ctx, PropSpec};
use crate::util::{self, Rng, hash_str};
use crate::capi;
use serde_json::{Value, json};

pub static SPEC: PropSpec = PropSpec {
    id: "C18",
    level: "exploration",
    rule: "values: definition sets of 2-6 non-generic structs / enums (derive attributes written separately in either order or as one list - tight, spaced, trailing comma, one entry per line, empty entry; fields int32, string, bool, unit, earlier user types, self-recursive enum payloads; field names from a pool containing tag, fields, self, acc, s, x, json_escape_string, to_json, to_string, Go keywords) each deriving ToString and/or ToJson, and 3-8 random values per type with strings over a hostile alphabet (quotes, backslashes, all C0 controls, DEL, NBSP, U+2028, BOM, private use, emoji, non-characters); every to_json output must parse as JSON and decode to the value (objects per struct, tag/fields per variant), every to_string output must equal `Name { f: v }` / `Enum::Variant(v)`. acceptance probes: every field type outside the supported set (all other integer widths, floats, bool / unit under ToString, tuples, arrays, Vec, Ref, function types, dyn, generic definitions) under each derive, as first / later struct field and as first / later enum payload - accepted (then checked) or refused by a diagnostic that names the derive. non-trivial: every value; distinct by (definition set, value) hash",
    eval_counter: "values_checked",
    assumptions: &["JSON well-formedness and decoding are decided by serde_json; Go's %q is modelled by gomini (strings whose printability gomini does not know are inconclusive)"],
    crash_is_violation: false,
    stack_mib: 256,
    case_cpu_s: 120,
    shards: 0,
    run,
    floors: &[("values_checked", 1_500, 60_000), ("json_documents_decoded", 700, 30_000), ("programs_agree", 40, 1_500), ("acceptance_probes", 100, 100)],
    finish: None,
};

#[derive(Clone, Debug, PartialEq)]
enum FT {
    I32,
    I64,
    U8,
    F64,
    Str,
    Bool,
    Unit,
    User(usize),
}

#[derive(Clone, Debug)]
enum Def {
    Struct { name: String, fields: Vec<(String, FT)> },
    Enum { name: String, variants: Vec<(String, Vec<FT>)> },
}

impl Def {
    fn name(&self) -> &str {
        match self {
            Def::Struct { name, .. } | Def::Enum { name, .. } => name,
        }
    }
}

#[derive(Clone, Debug)]
enum Val {
    I32(i32),
    I64(i64),
    U8(u8),
    F64(f64),
    Str(String),
    Bool(bool),
    Unit,
    Struct(usize, Vec<Val>),
    Enum(usize, usize, Vec<Val>),
}

const FIELD_NAMES: &[&str] = &["tag", "fields", "self_", "acc", "s", "x", "y", "name", "json_escape_string", "to_json", "to_string", "func", "map", "range", "var", "len", "value", "id", "default", "a1", "b_2"];
/// field / payload counts of wide definitions
const WIDTHS: &[usize] = &[5, 6, 7, 8, 9, 10, 11, 12, 13, 15, 16, 17, 20, 21, 22, 24, 31, 32, 33, 40, 48, 63, 64, 65];
const HOSTILE: &[char] = &[
    'a', 'Z', '7', ' ', '"', '\\', '/', '\n', '\t', '\r', '\u{8}', '\u{c}', '\u{1}', '\u{7}', '\u{b}', '\u{1b}', '\u{1f}', '\u{7f}', '\u{a0}', '\u{ad}', '\u{2028}', '\u{2029}', '\u{feff}', '\u{e000}', 'é', '中', '\u{1F600}', '\u{fffe}', '{', '}', '[', ']', ':', ',', '%', '\'', '<', '>', '&',
];
const PLAIN: &[char] = &['a', 'b', 'Z', '7', ' ', '"', '\\', '{', '}', ':', ',', '(', ')', 'é', '%'];

struct Gen<'a> {
    rng: &'a mut Rng,
    defs: Vec<Def>,
    /// which definitions derive (ToString, ToJson)
    derives: Vec<(bool, bool)>,
}

impl<'a> Gen<'a> {
    fn field_type(&mut self, upto: usize, self_idx: Option<usize>, need: (bool, bool)) -> FT {
        // a user type must derive at least what the containing type derives
        let users: Vec<usize> = (0..upto).filter(|i| (!need.0 || self.derives[*i].0) && (!need.1 || self.derives[*i].1)).collect();
        loop {
            match self.rng.below(12) {
                0 | 1 | 2 => return FT::I32,
                3 | 4 => return FT::Str,
                5 => return FT::Bool,
                6 => return FT::Unit,
                9 => return FT::I64,
                10 => return FT::U8,
                11 => return FT::F64,
                7 if !users.is_empty() => return FT::User(*self.rng.pick_ref(&users)),
                8 => {
                    if let Some(s) = self_idx {
                        return FT::User(s);
                    }
                }
                _ => {}
            }
        }
    }

    fn definitions(&mut self) {
        let n = 2 + self.rng.below(5);
        for k in 0..n {
            let derives = match self.rng.below(4) {
                0 => (true, false),
                1 => (false, true),
                _ => (true, true),
            };
            self.derives.push(derives);
            // one definition in five is wide: field / payload / variant counts around powers of two and other
            // sizes at which a derive that builds its body in groups, or a pass that treats long concatenation
            // chains specially, would change behaviour (added after a seeded change that lost the last pieces of
            // bodies with more than 32 pieces)
            let wide = self.rng.chance(1, 5);
            if self.rng.bool() {
                let nf = if wide { *self.rng.pick_ref(WIDTHS) } else { self.rng.below(5) };
                let mut fields: Vec<(String, FT)> = Vec::new();
                for _ in 0..nf {
                    let mut name = self.rng.pick_ref(FIELD_NAMES).to_string();
                    while fields.iter().any(|(f, _)| *f == name) {
                        name.push('q');
                    }
                    let t = self.field_type(k, None, derives);
                    fields.push((name, t));
                }
                self.defs.push(Def::Struct { name: format!("Sd{}", k), fields });
            } else {
                let nv = if wide && self.rng.bool() { 5 + self.rng.below(12) } else { 1 + self.rng.below(4) };
                let wide_variant = if wide { 1 + self.rng.below(nv.max(2) - 1) } else { usize::MAX };
                let mut variants = Vec::new();
                for v in 0..nv {
                    let np = if v == 0 {
                        0
                    } else if v == wide_variant {
                        *self.rng.pick_ref(WIDTHS)
                    } else {
                        self.rng.below(4)
                    };
                    // recursion only in non-first variants, so that values are finite
                    let payload: Vec<FT> = (0..np).map(|_| self.field_type(k, Some(k), derives)).collect();
                    variants.push((format!("V{}", v), payload));
                }
                self.defs.push(Def::Enum { name: format!("En{}", k), variants });
            }
        }
    }

    fn string(&mut self, hostile: bool) -> String {
        let n = self.rng.below(7);
        let alpha = if hostile { HOSTILE } else { PLAIN };
        (0..n).map(|_| self.rng.pick(alpha)).collect()
    }

    fn value(&mut self, t: &FT, depth: u32, hostile: bool) -> Val {
        match t {
            FT::I32 => Val::I32(match self.rng.below(5) {
                0 => 0,
                1 => i32::MAX,
                2 => -i32::MAX,
                3 => -1,
                _ => self.rng.range(-1000, 1000) as i32,
            }),
            FT::I64 => Val::I64(match self.rng.below(4) {
                0 => i64::MAX,
                1 => -i64::MAX,
                _ => self.rng.range(-100_000, 100_000),
            }),
            FT::U8 => Val::U8(*self.rng.pick_ref(&[0u8, 1, 127, 128, 255])),
            // eighths: printed identically by Go's %v and by Rust
            FT::F64 => Val::F64(self.rng.range(-80_000, 80_000) as f64 / 8.0),
            FT::Str => Val::Str(self.string(hostile)),
            FT::Bool => Val::Bool(self.rng.bool()),
            FT::Unit => Val::Unit,
            FT::User(i) => match self.defs[*i].clone() {
                Def::Struct { fields, .. } => Val::Struct(*i, fields.iter().map(|(_, ft)| self.value(ft, depth + 1, hostile)).collect()),
                Def::Enum { variants, .. } => {
                    let v = if depth > 3 { 0 } else { self.rng.below(variants.len()) };
                    Val::Enum(*i, v, variants[v].1.iter().map(|ft| self.value(ft, depth + 1, hostile)).collect())
                }
            },
        }
    }
}

fn escape_goml(s: &str) -> String {
    crate::gl::ast::escape_str(s)
}

fn val_src(defs: &[Def], v: &Val) -> String {
    match v {
        Val::I32(i) => {
            if *i < 0 {
                format!("(0 - {})", -(*i as i64))
            } else {
                i.to_string()
            }
        }
        Val::I64(i) => {
            if *i < 0 {
                format!("(0i64 - {}i64)", -(*i as i128))
            } else {
                format!("{}i64", i)
            }
        }
        Val::U8(i) => format!("{}u8", i),
        Val::F64(f) => {
            if *f < 0.0 {
                format!("(0.0 - {})", crate::gl::ast::float_src(false, -*f))
            } else {
                crate::gl::ast::float_src(false, *f)
            }
        }
        Val::Str(s) => escape_goml(s),
        Val::Bool(b) => b.to_string(),
        Val::Unit => "()".into(),
        Val::Struct(i, fs) => {
            let Def::Struct { name, fields } = &defs[*i] else { unreachable!() };
            let inner: Vec<String> = fields.iter().zip(fs.iter()).map(|((f, _), v)| format!("{}: {}", f, val_src(defs, v))).collect();
            format!("{} {{ {} }}", name, inner.join(", "))
        }
        Val::Enum(i, vi, args) => {
            let Def::Enum { name, variants } = &defs[*i] else { unreachable!() };
            if args.is_empty() {
                format!("{}::{}", name, variants[*vi].0)
            } else {
                format!("{}::{}({})", name, variants[*vi].0, args.iter().map(|a| val_src(defs, a)).collect::<Vec<_>>().join(", "))
            }
        }
    }
}

fn val_to_string(defs: &[Def], v: &Val) -> String {
    match v {
        Val::I32(i) => i.to_string(),
        Val::I64(i) => i.to_string(),
        Val::U8(i) => i.to_string(),
        Val::F64(f) => format!("{}", f),
        Val::Str(s) => s.clone(),
        Val::Bool(b) => b.to_string(),
        Val::Unit => "()".into(),
        Val::Struct(i, fs) => {
            let Def::Struct { name, fields } = &defs[*i] else { unreachable!() };
            if fields.is_empty() {
                return format!("{} {{}}", name);
            }
            let inner: Vec<String> = fields.iter().zip(fs.iter()).map(|((f, _), v)| format!("{}: {}", f, val_to_string(defs, v))).collect();
            format!("{} {{ {} }}", name, inner.join(", "))
        }
        Val::Enum(i, vi, args) => {
            let Def::Enum { name, variants } = &defs[*i] else { unreachable!() };
            if args.is_empty() {
                format!("{}::{}", name, variants[*vi].0)
            } else {
                format!("{}::{}({})", name, variants[*vi].0, args.iter().map(|a| val_to_string(defs, a)).collect::<Vec<_>>().join(", "))
            }
        }
    }
}

fn val_to_json(defs: &[Def], v: &Val) -> Value {
    match v {
        Val::I32(i) => json!(*i),
        Val::I64(i) => json!(*i),
        Val::U8(i) => json!(*i),
        Val::F64(f) => {
            if f.fract() == 0.0 {
                json!(*f as i64)
            } else {
                json!(*f)
            }
        }
        Val::Str(s) => Value::String(s.clone()),
        Val::Bool(b) => Value::Bool(*b),
        Val::Unit => Value::Null,
        Val::Struct(i, fs) => {
            let Def::Struct { fields, .. } = &defs[*i] else { unreachable!() };
            let mut m = serde_json::Map::new();
            for ((f, _), v) in fields.iter().zip(fs.iter()) {
                m.insert(f.clone(), val_to_json(defs, v));
            }
            Value::Object(m)
        }
        Val::Enum(i, vi, args) => {
            let Def::Enum { variants, .. } = &defs[*i] else { unreachable!() };
            let mut m = serde_json::Map::new();
            m.insert("tag".into(), Value::String(variants[*vi].0.clone()));
            if !args.is_empty() {
                m.insert("fields".into(), Value::Array(args.iter().map(|a| val_to_json(defs, a)).collect()));
            }
            Value::Object(m)
        }
    }
}

fn ft_src(defs: &[Def], t: &FT) -> String {
    match t {
        FT::I32 => "int32".into(),
        FT::I64 => "int64".into(),
        FT::U8 => "uint8".into(),
        FT::F64 => "float64".into(),
        FT::Str => "string".into(),
        FT::Bool => "bool".into(),
        FT::Unit => "unit".into(),
        FT::User(i) => defs[*i].name().to_string(),
    }
}

fn defs_src(defs: &[Def], derives: &[(bool, bool)]) -> String {
    let mut s = String::new();
    for (di, (d, (ts, tj))) in defs.iter().zip(derives.iter()).enumerate() {
        let mut ds = Vec::new();
        if *ts {
            ds.push("ToString");
        }
        if *tj {
            ds.push("ToJson");
        }
        // the derives may be written in one attribute or in separate ones, in either order
        // (varied deterministically by the definition's position and field count)
        let variety = match d {
            Def::Struct { fields, .. } => fields.len(),
            Def::Enum { variants, .. } => variants.len() + 1,
        };
        if ds.len() == 2 && variety % 3 == 1 {
            s.push_str(&format!("#[derive({})]\n#[derive({})]\n", ds[0], ds[1]));
        } else if ds.len() == 2 && variety % 3 == 2 {
            s.push_str(&format!("#[derive({})]\n#[derive({})]\n", ds[1], ds[0]));
        } else {
            // one attribute, in the spellings the attribute grammar allows: tight, spaced, trailing comma, one entry per
            // line, an empty entry between two commas
            let list = match (di + variety) % 6 {
                0 => ds.join(", "),
                1 => format!("{},", ds.join(", ")),
                2 => ds.join(","),
                3 => format!(" {} ", ds.join(" , ")),
                4 => format!("\n    {},\n", ds.join(",\n    ")),
                _ => ds.join(",, "),
            };
            if (di + variety) % 6 == 3 {
                s.push_str(&format!("#[ derive ({}) ]\n", list));
            } else {
                s.push_str(&format!("#[derive({})]\n", list));
            }
        }
        match d {
            Def::Struct { name, fields } => {
                s.push_str(&format!("struct {} {{\n", name));
                for (f, t) in fields {
                    s.push_str(&format!("    {}: {},\n", f, ft_src(defs, t)));
                }
                s.push_str("}\n");
            }
            Def::Enum { name, variants } => {
                s.push_str(&format!("enum {} {{\n", name));
                for (v, ps) in variants {
                    if ps.is_empty() {
                        s.push_str(&format!("    {},\n", v));
                    } else {
                        s.push_str(&format!("    {}({}),\n", v, ps.iter().map(|t| ft_src(defs, t)).collect::<Vec<_>>().join(", ")));
                    }
                }
                s.push_str("}\n");
            }
        }
    }
    s
}

fn faithful_program(c: &mut Case, rng: &mut Rng, label: &str, sample: bool) {
    let mut g = Gen { rng, defs: Vec::new(), derives: Vec::new() };
    g.definitions();
    for d in &g.defs {
        let w = match d {
            Def::Struct { fields, .. } => fields.len(),
            Def::Enum { variants, .. } => variants.iter().map(|(_, p)| p.len()).max().unwrap_or(0),
        };
        if w >= 33 {
            c.count("definitions_width_33_or_more", 1);
        } else if w >= 11 {
            c.count("definitions_width_11_to_32", 1);
        } else if w >= 5 {
            c.count("definitions_width_5_to_10", 1);
        }
        if let Def::Enum { variants, .. } = d {
            if variants.len() >= 5 {
                c.count("enums_with_5_or_more_variants", 1);
            }
        }
    }
    let mut src = defs_src(&g.defs, &g.derives);
    src.push_str("fn main() -> unit {\n");
    // (kind, expected) per framed output
    let mut expect: Vec<(bool, Val)> = Vec::new();
    for i in 0..g.defs.len() {
        let nvals = 3 + g.rng.below(6);
        for _ in 0..nvals {
            let (ts, tj) = g.derives[i];
            // to_string prints strings raw: keep line framing intact there
            let hostile = !ts;
            let v = g.value(&FT::User(i), 0, hostile);
            let k = expect.len();
            src.push_str(&format!("    let v{} = {};\n", k, val_src(&g.defs, &v)));
            if ts {
                src.push_str(&format!("    let _ = string_println(\"@@S:\" + v{}.to_string());\n", k));
                expect.push((false, v.clone()));
            }
            if tj {
                src.push_str(&format!("    let _ = string_println(\"@@J:\" + v{}.to_json());\n", k));
                expect.push((true, v.clone()));
            }
        }
    }
    src.push_str("    ()\n}\n");
    let defs = g.defs.clone();
    if sample {
        c.sample(json!({"workload": "faithful derive program", "definitions": util::truncate(&defs_src(&defs, &g.derives), 600), "values": expect.len()}));
    }
    let Some((out, term, stderr)) = exec::run_source(c, "C18", label, &src, 20_000_000) else {
        return;
    };
    if !matches!(term, Term::Ok) {
        if stderr.contains("printability") {
            c.inconclusive("gomini does not know the printability of a rune under %q");
            return;
        }
        c.violation("C18:derive-program-fails".to_string(), format!("a program using derived methods fails at run time: {}", util::truncate(&stderr, 200)), json!({"label": label, "source": src}));
        return;
    }
    // frames: text between consecutive "@@" line starts
    let mut frames: Vec<(bool, String)> = Vec::new();
    for line in out.split('\n') {
        if let Some(rest) = line.strip_prefix("@@S:") {
            frames.push((false, rest.to_string()));
        } else if let Some(rest) = line.strip_prefix("@@J:") {
            frames.push((true, rest.to_string()));
        } else if let Some(last) = frames.last_mut() {
            last.1.push('\n');
            last.1.push_str(line);
        }
    }
    // the final newline of stdout belongs to the last println
    if let Some(last) = frames.last_mut() {
        if last.1.ends_with('\n') {
            last.1.pop();
        }
    }
    if frames.len() != expect.len() {
        c.violation("C18:output-frames-lost".to_string(), format!("{} results printed, {} expected", frames.len(), expect.len()), json!({"label": label, "source": src, "stdout": util::truncate(&out, 3000)}));
        return;
    }
    let mut all_ok = true;
    for ((is_json, text), (_, v)) in frames.iter().zip(expect.iter()) {
        if *is_json {
            match serde_json::from_str::<Value>(text) {
                Err(e) => {
                    // classify by the first offending escape, if any
                    let class = if text.contains("\\x") {
                        "hex-escape"
                    } else if text.contains("\\a") || text.contains("\\v") {
                        "go-only-escape"
                    } else if text.contains("\\U") {
                        "long-unicode-escape"
                    } else {
                        "other"
                    };
                    c.violation(
                        format!("C18:to_json-malformed:{}", class),
                        format!("to_json returns text that is not JSON ({}): {}", e, util::truncate(text, 160)),
                        json!({"label": label, "value": val_src(&defs, v), "json_text": text, "source": src}),
                    );
                    all_ok = false;
                    continue;
                }
                Ok(got) => {
                    let want = val_to_json(&defs, v);
                    if got != want {
                        c.violation(
                            "C18:to_json-decodes-to-other-value".to_string(),
                            format!("to_json of {} decodes to {} instead of {}", util::truncate(&val_src(&defs, v), 100), util::truncate(&got.to_string(), 120), util::truncate(&want.to_string(), 120)),
                            json!({"label": label, "value": val_src(&defs, v), "json_text": text, "expected": want, "source": src}),
                        );
                        return;
                    }
                    c.count("json_documents_decoded", 1);
                }
            }
        } else {
            let want = val_to_string(&defs, v);
            if *text != want {
                c.violation(
                    "C18:to_string-renders-differently".to_string(),
                    format!("to_string of {} is {:?}, expected {:?}", util::truncate(&val_src(&defs, v), 100), util::truncate(text, 120), util::truncate(&want, 120)),
                    json!({"label": label, "value": val_src(&defs, v), "got": text, "expected": want, "source": src}),
                );
                return;
            }
        }
        c.count("values_checked", 1);
        c.nontrivial(hash_str(&format!("{}{}", is_json, val_src(&defs, v))));
    }
    if all_ok {
        c.count("programs_agree", 1);
    }
}

/// (type text, a value, tag)
const EXTENDED: &[(&str, &str, &str)] = &[
    ("int8", "5i8", "int8"),
    ("int16", "5i16", "int16"),
    ("int64", "5i64", "int64"),
    ("uint8", "5u8", "uint8"),
    ("uint16", "5u16", "uint16"),
    ("uint32", "5u32", "uint32"),
    ("uint64", "5u64", "uint64"),
    ("float32", "1.5f32", "float32"),
    ("float64", "1.5", "float64"),
    ("bool", "true", "bool"),
    ("unit", "()", "unit"),
    ("(int32, string)", "(1, \"a\")", "tuple"),
    // one-element tuples (in a type, `(T)` and `(T,)` both are tuples) and the empty tuple type
    ("(int32)", "(1,)", "tuple1"),
    ("(string,)", "(\"a\",)", "tuple1-comma"),
    ("((int32, bool),)", "((1, true),)", "tuple1-nested"),
    ("(int32, string, bool)", "(1, \"a\", true)", "tuple3"),
    ("[(int32, bool); 1]", "[(1, true)]", "array-of-tuple"),
    ("Vec[string]", "vec_push(vec_new(), \"a\")", "vec-string"),
    ("Ref[bool]", "ref(true)", "ref-bool"),
    ("() -> int32", "zero", "function0"),
    ("[int32; 2]", "[1, 2]", "array"),
    ("Vec[int32]", "vec_push(vec_new(), 1)", "vec"),
    ("Ref[int32]", "ref(1)", "ref"),
    ("(int32) -> int32", "incr", "function"),
    ("dyn Shown", "dynval()", "dyn"),
];

fn acceptance_probe(c: &mut Case, derive: &str, container: &str, ty: &str, val: &str, tag: &str) {
    let method = if derive == "ToString" { "to_string" } else { "to_json" };
    let def = match container {
        "struct" => format!("#[derive({})]\nstruct Probe {{ f: {} }}\n", derive, ty),
        "struct-later-field" => format!("#[derive({})]\nstruct Probe {{ a: int32, b: string, f: {} }}\n", derive, ty),
        "enum" => format!("#[derive({})]\nenum Probe {{ None0, Some1({}) }}\n", derive, ty),
        _ => format!("#[derive({})]\nenum Probe {{ None0, Two2(int32, {}), Three3(string, int32, {}) }}\n", derive, ty, ty),
    };
    let mk = match container {
        "struct" => format!("Probe {{ f: {} }}", val),
        "struct-later-field" => format!("Probe {{ a: 1, b: \"s\", f: {} }}", val),
        "enum" => format!("Probe::Some1({})", val),
        _ => format!("Probe::Two2(1, {})", val),
    };
    let src = format!(
        "trait Shown {{\n    fn show(Self) -> string;\n}}\nimpl Shown for int32 {{\n    fn show(self: int32) -> string {{ \"i\" }}\n}}\nfn incr(x: int32) -> int32 {{ x + 1 }}\nfn zero() -> int32 {{ 0 }}\nfn dynval() -> dyn Shown {{ let k = 1; let d: dyn Shown = k; d }}\n{}fn main() -> unit {{\n    let p = {};\n    let _ = string_println(p.{}());\n    ()\n}}\n",
        def, mk, method
    );
    runner::note_input(&src);
    c.count("acceptance_probes", 1);
    match runner::guard(|| capi::compile_single(&src).map(|comp| capi::go_text(&comp))) {
        Ok(Ok(go)) => {
            let gp = crate::goexec::parse(&go);
            match crate::goexec::vet(&gp) {
                crate::goexec::Vet::Accept => {}
                crate::goexec::Vet::Unsupported(u) => {
                    c.inconclusive(format!("gomini vet unsupported: {}", u));
                    return;
                }
                crate::goexec::Vet::Reject(errs) => {
                    c.violation(format!("C18:accepted-derive-yields-invalid-go:{}:{}", derive, tag), format!("derive({}) on a {} with a {} field is accepted but the Go text is invalid: {}", derive, container, ty, util::truncate(&errs[0].2, 140)), json!({"source": src}));
                    return;
                }
            }
            let r = crate::goexec::run(&gp, 1_000_000, gomini::Sched::Deterministic);
            if !matches!(r.term, Term::Ok) {
                c.violation(format!("C18:accepted-derive-fails-at-run-time:{}:{}", derive, tag), format!("derive({}) with a {} field is accepted but the method fails: {}", derive, ty, util::truncate(&r.stderr, 140)), json!({"source": src}));
                return;
            }
            if derive == "ToJson" && serde_json::from_str::<Value>(r.stdout.trim_end_matches('\n')).is_err() {
                c.violation(format!("C18:to_json-malformed:field-type-{}", tag), format!("to_json of a {} field is not JSON: {}", ty, util::truncate(&r.stdout, 140)), json!({"source": src, "stdout": r.stdout}));
                return;
            }
            c.count(&format!("probe_accepted:{}:{}", derive, tag), 1);
        }
        Ok(Err(e)) => {
            let msgs = capi::err_messages(&e);
            let by_derive = msgs.iter().any(|m| m.contains("derive("));
            if by_derive {
                c.count(&format!("probe_refused_by_derive:{}:{}", derive, tag), 1);
            } else {
                c.violation(
                    format!("C18:generated-code-fails-later:{}:{}", derive, tag),
                    format!("derive({}) accepts a {} with a field of type {} and the code it generates is then rejected ({}): {}", derive, container, ty, capi::err_stage(&e), util::truncate(&msgs.join("; "), 160)),
                    json!({"source": src, "messages": msgs, "stage": capi::err_stage(&e)}),
                );
            }
        }
        Err(p) => c.violation(format!("C18:derive-crashes:{}:{}", derive, tag), format!("derive({}) with a {} field crashes the compiler at {}", derive, ty, p.site), json!({"source": src})),
    }
}

fn run(ctx: &mut Ctx) {
    let tier = ctx.tier;
    let seed = ctx.seed;
    if ctx.replay_input.is_some() {
        println!("replay: the replay file stores the full source");
        return;
    }
    let n = tier.pickn(64u64, 2_400u64) / ctx.nshards as u64 + 1;
    for j in 0..n {
        let mut rng = Rng::keyed(seed, "c18", ctx.shard as u64, j);
        let label = format!("faithful/{}/{}", ctx.shard, j);
        ctx.case(&label.clone(), |c| faithful_program(c, &mut rng, &label, j == 0));
    }
    // acceptance probes (same in every run)
    let mut k = 0u64;
    for derive in ["ToString", "ToJson"] {
        for container in ["struct", "enum", "struct-later-field", "enum-later-payload"] {
            for (ty, val, tag) in EXTENDED {
                k += 1;
                if !ctx.mine(700_000 + k) {
                    continue;
                }
                let label = format!("probe/{}/{}/{}", derive, container, tag);
                ctx.case(&label, |c| acceptance_probe(c, derive, container, ty, val, tag));
            }
            // generic definitions
            k += 1;
            if ctx.mine(700_000 + k) {
                let label = format!("probe/{}/{}/generic", derive, container);
                ctx.case(&label, |c| {
                    let def = if container == "struct" { format!("#[derive({})]\nstruct Probe[T] {{ f: T }}\n", derive) } else { format!("#[derive({})]\nenum Probe[T] {{ None0, Some1(T) }}\n", derive) };
                    let src = format!("{}fn main() -> unit {{\n    ()\n}}\n", def);
                    c.count("acceptance_probes", 1);
                    match runner::guard(|| capi::compile_single(&src).map(|_| ())) {
                        Ok(Err(e)) if capi::err_messages(&e).iter().any(|m| m.contains("derive(")) => c.count("probe_refused_by_derive:generic", 1),
                        Ok(Ok(())) => c.count("probe_accepted:generic", 1),
                        Ok(Err(e)) => c.violation(format!("C18:generated-code-fails-later:{}:generic", derive), format!("derive({}) on a generic {} fails later: {}", derive, container, util::truncate(&capi::err_messages(&e).join("; "), 160)), json!({"source": src})),
                        Err(p) => c.violation(format!("C18:derive-crashes:{}:generic", derive), format!("crash at {}", p.site), json!({"source": src})),
                    }
                });
            }
        }
    }
    crate::capi::cleanup_scratch();
}
