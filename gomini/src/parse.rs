//! Recursive descent parser for the supported subset of Go.
//!
//! Policy: a `Syntax` error is returned only where the token sequence cannot be
//! the beginning of any valid Go program; every construct that is valid Go
//! but outside the subset yields `Unsupported`.

use crate::ast::*;
use crate::lex::{lex, Kw, LexError, Op, Tok, Token};

#[derive(Clone, Debug, PartialEq)]
pub enum ParseError {
    Syntax { line: u32, col: u32, msg: String },
    Unsupported { line: u32, what: String },
}

impl ParseError {
    /// Stable kind string: "syntax", "keyword-as-ident" or "unsupported".
    pub fn kind(&self) -> &'static str {
        match self {
            ParseError::Syntax { msg, .. } if msg.starts_with("keyword-as-ident") => "keyword-as-ident",
            ParseError::Syntax { .. } => "syntax",
            ParseError::Unsupported { .. } => "unsupported",
        }
    }
    pub fn line(&self) -> u32 {
        match self {
            ParseError::Syntax { line, .. } | ParseError::Unsupported { line, .. } => *line,
        }
    }
}

impl std::fmt::Display for ParseError {
    fn fmt(&self, f: &mut std::fmt::Formatter<'_>) -> std::fmt::Result {
        match self {
            ParseError::Syntax { line, col, msg } => write!(f, "{}:{}: syntax error: {}", line, col, msg),
            ParseError::Unsupported { line, what } => write!(f, "{}: unsupported: {}", line, what),
        }
    }
}

impl From<LexError> for ParseError {
    fn from(e: LexError) -> ParseError {
        match e {
            LexError::Syntax { line, col, msg } => ParseError::Syntax { line, col, msg },
            LexError::Unsupported { line, what } => ParseError::Unsupported { line, what },
        }
    }
}

type PResult<T> = Result<T, ParseError>;

/// Maximum nesting of the parser recursion and maximum depth of expression trees.
pub const MAX_DEPTH: u32 = 400;

struct Parser {
    toks: Vec<Token>,
    pos: usize,
    next_id: u32,
    depth: u32,
    /// < 0 while parsing a control clause header (composite literals of plain
    /// type names are not recognised there)
    xnest: i32,
    /// depth of expression trees, indexed by node id (0 for non-expressions)
    depth_of: Vec<u16>,
    /// set while parsing the header of a switch statement
    allow_guard: bool,
    guards_seen: u32,
}

pub fn parse_file(src: &str) -> PResult<File> {
    let toks = lex(src)?;
    let mut p = Parser { toks, pos: 0, next_id: 0, depth: 0, xnest: 0, depth_of: Vec::new(), allow_guard: false, guards_seen: 0 };
    p.file()
}

fn tok_desc(t: &Tok) -> String {
    match t {
        Tok::Ident(s) => format!("name {}", s),
        Tok::Int(s) | Tok::Float(s) | Tok::Imag(s) => format!("literal {}", s),
        Tok::Char(_) => "rune literal".to_string(),
        Tok::Str(_) => "string literal".to_string(),
        Tok::Kw(k) => format!("keyword {}", k.as_str()),
        Tok::Op(o) => o.as_str().to_string(),
        Tok::Semi { auto: true } => "newline".to_string(),
        Tok::Semi { auto: false } => "semicolon".to_string(),
        Tok::Eof => "EOF".to_string(),
    }
}

impl Parser {
    fn tok(&self) -> &Tok {
        &self.toks[self.pos].tok
    }
    fn tok_at(&self, off: usize) -> &Tok {
        let i = (self.pos + off).min(self.toks.len() - 1);
        &self.toks[i].tok
    }
    fn line(&self) -> u32 {
        self.toks[self.pos].line
    }
    fn col(&self) -> u32 {
        self.toks[self.pos].col
    }
    fn next(&mut self) {
        if self.pos + 1 < self.toks.len() {
            self.pos += 1;
        }
    }
    fn id(&mut self) -> NodeId {
        let id = self.next_id;
        self.next_id += 1;
        id
    }
    fn syntax<T>(&self, msg: impl Into<String>) -> PResult<T> {
        Err(ParseError::Syntax { line: self.line(), col: self.col(), msg: msg.into() })
    }
    fn unexpected<T>(&self, ctx: &str) -> PResult<T> {
        self.syntax(format!("unexpected {}, {}", tok_desc(self.tok()), ctx))
    }
    fn unsupported<T>(&self, what: impl Into<String>) -> PResult<T> {
        Err(ParseError::Unsupported { line: self.line(), what: what.into() })
    }
    fn is_op(&self, op: Op) -> bool {
        matches!(self.tok(), Tok::Op(o) if *o == op)
    }
    fn is_kw(&self, kw: Kw) -> bool {
        matches!(self.tok(), Tok::Kw(k) if *k == kw)
    }
    fn got_op(&mut self, op: Op) -> bool {
        if self.is_op(op) {
            self.next();
            true
        } else {
            false
        }
    }
    fn want_op(&mut self, op: Op, ctx: &str) -> PResult<()> {
        if self.got_op(op) {
            Ok(())
        } else {
            self.unexpected(&format!("expected {} {}", op.as_str(), ctx))
        }
    }
    fn is_semi(&self) -> bool {
        matches!(self.tok(), Tok::Semi { .. })
    }
    fn enter(&mut self) -> PResult<()> {
        self.depth += 1;
        if self.depth > MAX_DEPTH {
            return self.unsupported("nesting too deep");
        }
        Ok(())
    }
    fn leave(&mut self) {
        self.depth -= 1;
    }

    fn ident(&mut self, ctx: &str) -> PResult<Ident> {
        match self.tok().clone() {
            Tok::Ident(name) => {
                let line = self.line();
                self.next();
                let id = self.id();
                Ok(Ident { name, line, id })
            }
            Tok::Kw(k) => self.syntax(format!("keyword-as-ident: unexpected keyword {}, expected name {}", k.as_str(), ctx)),
            _ => self.unexpected(&format!("expected name {}", ctx)),
        }
    }

    // ---------------------------------------------------------------- file

    fn file(&mut self) -> PResult<File> {
        if !self.is_kw(Kw::Package) {
            return self.unexpected("expected package clause");
        }
        self.next();
        let package = self.ident("in package clause")?;
        if package.name == "_" {
            return self.syntax("invalid package name _");
        }
        self.end_of_decl("after package clause")?;
        let mut imports = Vec::new();
        while self.is_kw(Kw::Import) {
            self.next();
            if self.got_op(Op::LParen) {
                while !self.is_op(Op::RParen) {
                    if matches!(self.tok(), Tok::Eof) {
                        return self.unexpected("expected )");
                    }
                    imports.push(self.import_spec()?);
                    if !self.is_op(Op::RParen) {
                        if self.is_semi() {
                            self.next();
                        } else {
                            return self.unexpected("expected ; or ) in import declaration");
                        }
                    }
                }
                self.next();
            } else {
                imports.push(self.import_spec()?);
            }
            self.end_of_decl("after top level declaration")?;
        }
        let mut decls = Vec::new();
        loop {
            match self.tok().clone() {
                Tok::Eof => break,
                Tok::Semi { .. } => {
                    // stray semicolon at top level: not sure what gc does
                    return self.unsupported("empty declaration (stray semicolon) at top level");
                }
                Tok::Kw(Kw::Import) => return self.syntax("imports must appear before other declarations"),
                Tok::Kw(Kw::Const) => return self.unsupported("const declaration"),
                Tok::Kw(Kw::Var) => {
                    self.next();
                    let specs = self.var_decl()?;
                    for s in specs {
                        decls.push(Decl::Var(s));
                    }
                }
                Tok::Kw(Kw::Type) => {
                    self.next();
                    let specs = self.type_decl()?;
                    for s in specs {
                        decls.push(Decl::Type(s));
                    }
                }
                Tok::Kw(Kw::Func) => {
                    let f = self.func_decl()?;
                    decls.push(Decl::Func(f));
                }
                _ => return self.syntax(format!("non-declaration statement outside function body (unexpected {})", tok_desc(self.tok()))),
            }
            self.end_of_decl("after top level declaration")?;
        }
        Ok(File { package, imports, decls, node_count: self.next_id })
    }

    fn end_of_decl(&mut self, ctx: &str) -> PResult<()> {
        match self.tok() {
            Tok::Eof => Ok(()),
            Tok::Semi { .. } => {
                self.next();
                Ok(())
            }
            _ => self.unexpected(ctx),
        }
    }

    fn import_spec(&mut self) -> PResult<Import> {
        let line = self.line();
        let alias = match self.tok().clone() {
            Tok::Ident(_) => Some(self.ident("in import")?),
            Tok::Op(Op::Period) => return self.unsupported("dot import"),
            _ => None,
        };
        match self.tok().clone() {
            Tok::Str(bytes) => {
                self.next();
                match String::from_utf8(bytes) {
                    Ok(path) => Ok(Import { alias, path, line }),
                    Err(_) => self.syntax("invalid import path"),
                }
            }
            _ => self.unexpected("expected import path string"),
        }
    }

    /// after `var`
    fn var_decl(&mut self) -> PResult<Vec<VarSpec>> {
        if self.got_op(Op::LParen) {
            let mut specs = Vec::new();
            while !self.is_op(Op::RParen) {
                if matches!(self.tok(), Tok::Eof) {
                    return self.unexpected("expected )");
                }
                specs.push(self.var_spec()?);
                if !self.is_op(Op::RParen) {
                    if self.is_semi() {
                        self.next();
                    } else {
                        return self.unexpected("expected ; or ) in var declaration");
                    }
                }
            }
            self.next();
            Ok(specs)
        } else {
            Ok(vec![self.var_spec()?])
        }
    }

    fn var_spec(&mut self) -> PResult<VarSpec> {
        let line = self.line();
        let mut names = vec![self.ident("in var declaration")?];
        while self.got_op(Op::Comma) {
            names.push(self.ident("in var declaration")?);
        }
        let mut ty = None;
        let mut values = Vec::new();
        if self.got_op(Op::Assign) {
            values = self.expr_list()?;
        } else {
            if !self.type_start() {
                return self.unexpected("expected type in var declaration");
            }
            ty = Some(self.parse_type()?);
            if self.got_op(Op::Assign) {
                values = self.expr_list()?;
            }
        }
        Ok(VarSpec { names, ty, values, line })
    }

    /// after `type`
    fn type_decl(&mut self) -> PResult<Vec<TypeDecl>> {
        if self.got_op(Op::LParen) {
            let mut specs = Vec::new();
            while !self.is_op(Op::RParen) {
                if matches!(self.tok(), Tok::Eof) {
                    return self.unexpected("expected )");
                }
                specs.push(self.type_spec()?);
                if !self.is_op(Op::RParen) {
                    if self.is_semi() {
                        self.next();
                    } else {
                        return self.unexpected("expected ; or ) in type declaration");
                    }
                }
            }
            self.next();
            Ok(specs)
        } else {
            Ok(vec![self.type_spec()?])
        }
    }

    fn type_spec(&mut self) -> PResult<TypeDecl> {
        let line = self.line();
        let name = self.ident("in type declaration")?;
        if self.is_op(Op::LBrack) {
            // `type T [N]E` (array) or `type T[P any] ...` (generic)
            // array if `[` `]` or `[` expr `]` type ; generic otherwise. We
            // accept only the unambiguous slice/array-literal-length forms.
            let arrayish = matches!(self.tok_at(1), Tok::Op(Op::RBrack))
                || (matches!(self.tok_at(1), Tok::Int(_)) && matches!(self.tok_at(2), Tok::Op(Op::RBrack)));
            if !arrayish {
                return self.unsupported("generic type declaration or computed array length");
            }
        }
        let alias = self.got_op(Op::Assign);
        if !self.type_start() {
            return self.unexpected("expected type in type declaration");
        }
        let ty = self.parse_type()?;
        Ok(TypeDecl { name, alias, ty, line })
    }

    fn func_decl(&mut self) -> PResult<FuncDecl> {
        let line = self.line();
        self.next(); // func
        let mut recv = None;
        if self.is_op(Op::LParen) {
            let rline = self.line();
            let mut ps = self.params()?;
            if ps.len() != 1 {
                return Err(ParseError::Syntax { line: rline, col: 0, msg: "method has multiple or no receivers".into() });
            }
            recv = Some(ps.remove(0));
        }
        let name = self.ident("in function declaration")?;
        if self.is_op(Op::LBrack) {
            return self.unsupported("generic function");
        }
        if !self.is_op(Op::LParen) {
            return self.unexpected("expected ( in function declaration");
        }
        let params = self.params()?;
        let results = self.results()?;
        let mut body = None;
        let mut end_line = self.line();
        if self.is_op(Op::LBrace) {
            let saved = self.xnest;
            self.xnest = 0;
            let b = self.block()?;
            self.xnest = saved;
            end_line = b.end_line;
            body = Some(b);
        }
        Ok(FuncDecl { name, recv, params, results, body, line, end_line })
    }

    // --------------------------------------------------------------- types

    fn type_start(&self) -> bool {
        match self.tok() {
            Tok::Ident(_) => true,
            Tok::Op(Op::Mul | Op::LBrack | Op::LParen | Op::Arrow) => true,
            Tok::Kw(Kw::Func | Kw::Struct | Kw::Interface | Kw::Map | Kw::Chan) => true,
            _ => false,
        }
    }

    fn mk_type(&mut self, kind: TypeExprKind, line: u32) -> TypeExpr {
        let id = self.id();
        TypeExpr { kind, line, id }
    }

    fn parse_type(&mut self) -> PResult<TypeExpr> {
        self.enter()?;
        let r = self.parse_type_inner();
        self.leave();
        r
    }

    fn parse_type_inner(&mut self) -> PResult<TypeExpr> {
        let line = self.line();
        match self.tok().clone() {
            Tok::Ident(name) => {
                self.next();
                let (pkg, name) = if self.is_op(Op::Period) {
                    self.next();
                    let sel = self.ident("after . in qualified type")?;
                    (Some(name), sel.name)
                } else {
                    (None, name)
                };
                if self.is_op(Op::LBrack) {
                    return self.unsupported("generic type instantiation");
                }
                Ok(self.mk_type(TypeExprKind::Name { pkg, name }, line))
            }
            Tok::Op(Op::Mul) => {
                self.next();
                if !self.type_start() {
                    return self.unexpected("expected type after *");
                }
                let inner = self.parse_type()?;
                Ok(self.mk_type(TypeExprKind::Pointer(Box::new(inner)), line))
            }
            Tok::Op(Op::LParen) => {
                self.next();
                if !self.type_start() {
                    return self.unexpected("expected type");
                }
                let inner = self.parse_type()?;
                self.want_op(Op::RParen, "after parenthesized type")?;
                Ok(inner)
            }
            Tok::Op(Op::LBrack) => {
                self.next();
                if self.got_op(Op::RBrack) {
                    if !self.type_start() {
                        return self.unexpected("expected element type");
                    }
                    let elem = self.parse_type()?;
                    return Ok(self.mk_type(TypeExprKind::Slice(Box::new(elem)), line));
                }
                if self.is_op(Op::Ellipsis) {
                    return self.unsupported("[...]T array literal type");
                }
                let saved = self.xnest;
                self.xnest += 1;
                let len = self.expr();
                self.xnest = saved;
                let len = len?;
                self.want_op(Op::RBrack, "in array type")?;
                if !self.type_start() {
                    return self.unexpected("expected element type");
                }
                let elem = self.parse_type()?;
                Ok(self.mk_type(TypeExprKind::Array { len: Box::new(len), elem: Box::new(elem) }, line))
            }
            Tok::Kw(Kw::Struct) => {
                self.next();
                self.want_op(Op::LBrace, "after struct")?;
                let mut fields = Vec::new();
                while !self.is_op(Op::RBrace) {
                    match self.tok().clone() {
                        Tok::Eof => return self.unexpected("expected } in struct type"),
                        Tok::Ident(_) => {
                            // `a, b T` | `a T` | embedded `T` / `pkg.T`
                            let first = self.ident("in struct type")?;
                            if self.is_op(Op::Period) {
                                self.next();
                                let sel = self.ident("after . in embedded field")?;
                                if matches!(self.tok(), Tok::Str(_)) {
                                    return self.unsupported("struct field tag");
                                }
                                let t = self.mk_type(TypeExprKind::Name { pkg: Some(first.name.clone()), name: sel.name.clone() }, first.line);
                                fields.push(Field { name: sel, ty: t, embedded: true });
                            } else if self.is_semi() || self.is_op(Op::RBrace) || matches!(self.tok(), Tok::Str(_)) {
                                if matches!(self.tok(), Tok::Str(_)) {
                                    return self.unsupported("struct field tag");
                                }
                                let t = self.mk_type(TypeExprKind::Name { pkg: None, name: first.name.clone() }, first.line);
                                fields.push(Field { name: first, ty: t, embedded: true });
                            } else {
                            let mut names = vec![first];
                            while self.got_op(Op::Comma) {
                                names.push(self.ident("in struct type")?);
                            }
                            if !self.type_start() {
                                return self.unexpected("expected field type");
                            }
                            let ty = self.parse_type()?;
                            if matches!(self.tok(), Tok::Str(_)) {
                                return self.unsupported("struct field tag");
                            }
                            let n = names.len();
                            for (i, name) in names.into_iter().enumerate() {
                                // each name gets its own copy of the type expr
                                let t = if i + 1 == n { ty.clone() } else { self.reid_type(&ty) };
                                fields.push(Field { name, ty: t, embedded: false });
                            }
                            }
                        }
                        Tok::Op(Op::Mul) | Tok::Op(Op::LParen) => return self.unsupported("embedded field"),
                        Tok::Kw(k) => {
                            return self.syntax(format!("keyword-as-ident: unexpected keyword {}, expected field name or embedded type", k.as_str()))
                        }
                        _ => return self.unexpected("expected field name or embedded type"),
                    }
                    if !self.is_op(Op::RBrace) {
                        if self.is_semi() {
                            self.next();
                        } else {
                            return self.unexpected("expected ; or } in struct type");
                        }
                    }
                }
                self.next();
                Ok(self.mk_type(TypeExprKind::Struct { fields }, line))
            }
            Tok::Kw(Kw::Interface) => {
                self.next();
                self.want_op(Op::LBrace, "after interface")?;
                let mut methods = Vec::new();
                while !self.is_op(Op::RBrace) {
                    match self.tok().clone() {
                        Tok::Eof => return self.unexpected("expected } in interface type"),
                        Tok::Ident(_) => {
                            let name = self.ident("in interface type")?;
                            if !self.is_op(Op::LParen) {
                                return self.unsupported("embedded interface or type constraint");
                            }
                            let params = self.params()?;
                            let results = self.results()?;
                            methods.push(MethodSpec { name, params, results });
                        }
                        Tok::Op(Op::Tilde | Op::Mul | Op::LBrack | Op::LParen) | Tok::Kw(Kw::Func | Kw::Struct | Kw::Interface | Kw::Map | Kw::Chan) => {
                            return self.unsupported("type constraint in interface")
                        }
                        Tok::Kw(k) => {
                            return self.syntax(format!("keyword-as-ident: unexpected keyword {}, expected method name", k.as_str()))
                        }
                        _ => return self.unexpected("expected method or embedded element"),
                    }
                    if !self.is_op(Op::RBrace) {
                        if self.is_semi() {
                            self.next();
                        } else {
                            return self.unexpected("expected ; or } in interface type");
                        }
                    }
                }
                self.next();
                Ok(self.mk_type(TypeExprKind::Interface { methods }, line))
            }
            Tok::Kw(Kw::Func) => {
                self.next();
                if !self.is_op(Op::LParen) {
                    return self.unexpected("expected ( in function type");
                }
                let params = self.params()?;
                let results = self.results()?;
                Ok(self.mk_type(TypeExprKind::Func { params, results }, line))
            }
            Tok::Kw(Kw::Map) => self.unsupported("map type"),
            Tok::Kw(Kw::Chan) | Tok::Op(Op::Arrow) => self.unsupported("channel type"),
            _ => self.unexpected("expected type"),
        }
    }

    /// Deep copy of a type expression with fresh node ids.
    fn reid_type(&mut self, t: &TypeExpr) -> TypeExpr {
        // ids inside are only used as keys for side tables; sharing them
        // between copies of the same type text is harmless, but the outer id
        // is refreshed to keep ids unique per node.
        let mut c = t.clone();
        c.id = self.id();
        c
    }

    /// Parses `( ... )` parameter list.
    fn params(&mut self) -> PResult<Vec<Param>> {
        self.enter()?;
        let r = self.params_inner();
        self.leave();
        r
    }

    fn params_inner(&mut self) -> PResult<Vec<Param>> {
        self.want_op(Op::LParen, "in parameter list")?;
        // each entry: (name?, type?)
        enum Entry {
            Lone(Ident),
            Named(Ident, TypeExpr),
            Type(TypeExpr),
        }
        let mut entries: Vec<Entry> = Vec::new();
        while !self.is_op(Op::RParen) {
            match self.tok().clone() {
                Tok::Eof => return self.unexpected("expected ) in parameter list"),
                Tok::Op(Op::Ellipsis) => return self.unsupported("variadic parameter"),
                Tok::Ident(_) => {
                    let nxt = self.tok_at(1).clone();
                    match nxt {
                        Tok::Op(Op::Comma) | Tok::Op(Op::RParen) => {
                            let id = self.ident("in parameter list")?;
                            entries.push(Entry::Lone(id));
                        }
                        Tok::Op(Op::Period) => {
                            let t = self.parse_type()?;
                            entries.push(Entry::Type(t));
                        }
                        Tok::Op(Op::Ellipsis) => return self.unsupported("variadic parameter"),
                        Tok::Op(Op::LBrack) => {
                            // `a []T` / `a [3]T` (named) versus `T[int]` (generic)
                            let ok = matches!(self.tok_at(2), Tok::Op(Op::RBrack))
                                || (matches!(self.tok_at(2), Tok::Int(_)) && matches!(self.tok_at(3), Tok::Op(Op::RBrack)));
                            if !ok {
                                return self.unsupported("generic type or computed array length in parameter list");
                            }
                            let id = self.ident("in parameter list")?;
                            let t = self.parse_type()?;
                            entries.push(Entry::Named(id, t));
                        }
                        _ => {
                            let id = self.ident("in parameter list")?;
                            if !self.type_start() {
                                return self.unexpected("expected type in parameter list");
                            }
                            let t = self.parse_type()?;
                            entries.push(Entry::Named(id, t));
                        }
                    }
                }
                Tok::Kw(k) if !matches!(k, Kw::Func | Kw::Struct | Kw::Interface | Kw::Map | Kw::Chan) => {
                    return self.syntax(format!("keyword-as-ident: unexpected keyword {}, expected parameter", k.as_str()));
                }
                _ => {
                    if !self.type_start() {
                        return self.unexpected("expected parameter");
                    }
                    let t = self.parse_type()?;
                    entries.push(Entry::Type(t));
                }
            }
            if !self.got_op(Op::Comma) {
                if !self.is_op(Op::RParen) {
                    return self.unexpected("expected , or ) in parameter list");
                }
            }
        }
        self.next(); // )
        let any_named = entries.iter().any(|e| matches!(e, Entry::Named(..)));
        let mut out = Vec::new();
        if any_named {
            // every entry must be named; lone identifiers take the next type
            let mut pending: Vec<Ident> = Vec::new();
            for e in entries {
                match e {
                    Entry::Lone(id) => pending.push(id),
                    Entry::Named(id, t) => {
                        let ps: Vec<Ident> = pending.drain(..).collect();
                        for p in ps {
                            let tc = self.reid_type(&t);
                            out.push(Param { name: Some(p), ty: tc });
                        }
                        out.push(Param { name: Some(id), ty: t });
                    }
                    Entry::Type(t) => {
                        return Err(ParseError::Syntax { line: t.line, col: 0, msg: "mixed named and unnamed parameters".into() });
                    }
                }
            }
            if let Some(p) = pending.first() {
                return Err(ParseError::Syntax { line: p.line, col: 0, msg: "mixed named and unnamed parameters".into() });
            }
        } else {
            for e in entries {
                match e {
                    Entry::Lone(id) => {
                        let line = id.line;
                        let t = self.mk_type(TypeExprKind::Name { pkg: None, name: id.name }, line);
                        out.push(Param { name: None, ty: t });
                    }
                    Entry::Type(t) => out.push(Param { name: None, ty: t }),
                    Entry::Named(..) => unreachable!(),
                }
            }
        }
        Ok(out)
    }

    fn results(&mut self) -> PResult<Vec<Param>> {
        if self.is_op(Op::LParen) {
            return self.params();
        }
        if self.type_start() {
            let t = self.parse_type()?;
            return Ok(vec![Param { name: None, ty: t }]);
        }
        Ok(Vec::new())
    }

    // ---------------------------------------------------------- statements

    fn block(&mut self) -> PResult<Block> {
        self.enter()?;
        let r = self.block_inner();
        self.leave();
        r
    }

    fn block_inner(&mut self) -> PResult<Block> {
        let line = self.line();
        self.want_op(Op::LBrace, "to open block")?;
        let stmts = self.stmt_list()?;
        let end_line = self.line();
        if !self.got_op(Op::RBrace) {
            return self.unexpected("expected }");
        }
        Ok(Block { stmts, line, end_line })
    }

    fn stmt_list(&mut self) -> PResult<Vec<Stmt>> {
        let mut list = Vec::new();
        loop {
            match self.tok() {
                Tok::Eof | Tok::Op(Op::RBrace) | Tok::Kw(Kw::Case) | Tok::Kw(Kw::Default) => break,
                _ => {}
            }
            let s = self.stmt()?;
            if !matches!(s.kind, StmtKind::Empty) {
                list.push(s);
            } else if !self.is_semi() {
                // an empty statement must be followed by its semicolon
            }
            if self.is_semi() {
                self.next();
            } else if !self.is_op(Op::RBrace) {
                return self.unexpected("at end of statement");
            }
        }
        Ok(list)
    }

    fn mk_stmt(&mut self, kind: StmtKind, line: u32) -> Stmt {
        let id = self.id();
        Stmt { kind, line, id }
    }

    fn stmt(&mut self) -> PResult<Stmt> {
        self.enter()?;
        let r = self.stmt_inner();
        self.leave();
        r
    }

    fn stmt_inner(&mut self) -> PResult<Stmt> {
        let line = self.line();
        match self.tok().clone() {
            Tok::Semi { .. } => Ok(self.mk_stmt(StmtKind::Empty, line)),
            Tok::Kw(Kw::Var) => {
                self.next();
                if self.is_op(Op::LParen) {
                    return self.unsupported("grouped var declaration in function");
                }
                let spec = self.var_spec()?;
                Ok(self.mk_stmt(StmtKind::Var(spec), line))
            }
            Tok::Kw(Kw::Const) => self.unsupported("const declaration"),
            Tok::Kw(Kw::Type) => self.unsupported("local type declaration"),
            Tok::Kw(Kw::Go) => {
                self.next();
                let e = self.expr()?;
                Ok(self.mk_stmt(StmtKind::Go(e), line))
            }
            Tok::Kw(Kw::Defer) => self.unsupported("defer statement"),
            Tok::Kw(Kw::Return) => {
                self.next();
                let mut vals = Vec::new();
                if !self.is_semi() && !self.is_op(Op::RBrace) {
                    vals = self.expr_list()?;
                }
                Ok(self.mk_stmt(StmtKind::Return(vals), line))
            }
            Tok::Kw(Kw::Break) => {
                self.next();
                if matches!(self.tok(), Tok::Ident(_)) {
                    return self.unsupported("labeled break");
                }
                Ok(self.mk_stmt(StmtKind::Break, line))
            }
            Tok::Kw(Kw::Continue) => {
                self.next();
                if matches!(self.tok(), Tok::Ident(_)) {
                    return self.unsupported("labeled continue");
                }
                Ok(self.mk_stmt(StmtKind::Continue, line))
            }
            Tok::Kw(Kw::Goto) => self.unsupported("goto statement"),
            Tok::Kw(Kw::Fallthrough) => self.unsupported("fallthrough statement"),
            Tok::Kw(Kw::Select) => self.unsupported("select statement"),
            Tok::Op(Op::LBrace) => {
                let b = self.block()?;
                Ok(self.mk_stmt(StmtKind::Block(b), line))
            }
            Tok::Kw(Kw::If) => self.if_stmt(),
            Tok::Kw(Kw::For) => self.for_stmt(),
            Tok::Kw(Kw::Switch) => self.switch_stmt(),
            Tok::Kw(Kw::Func) => {
                // a function literal expression statement, or a misplaced
                // function declaration; the latter is a syntax error
                if matches!(self.tok_at(1), Tok::Ident(_)) {
                    return self.syntax("unexpected name, expected ( (function declaration inside function)");
                }
                self.simple_stmt()
            }
            Tok::Kw(k @ (Kw::Case | Kw::Default | Kw::Else | Kw::Import | Kw::Package | Kw::Range)) => {
                self.syntax(format!("unexpected keyword {}, expected statement", k.as_str()))
            }
            _ => self.simple_stmt(),
        }
    }

    fn operand_start(&self) -> bool {
        match self.tok() {
            Tok::Ident(_) | Tok::Int(_) | Tok::Float(_) | Tok::Imag(_) | Tok::Char(_) | Tok::Str(_) => true,
            Tok::Op(Op::LParen | Op::LBrack | Op::Mul | Op::And | Op::Add | Op::Sub | Op::Not | Op::Xor | Op::Arrow | Op::Tilde) => true,
            Tok::Kw(Kw::Func | Kw::Struct | Kw::Map | Kw::Chan | Kw::Interface) => true,
            _ => false,
        }
    }

    fn simple_stmt(&mut self) -> PResult<Stmt> {
        let line = self.line();
        if !self.operand_start() {
            return self.unexpected("expected statement");
        }
        let lhs = self.expr_list()?;
        match self.tok().clone() {
            Tok::Op(Op::Define) => {
                self.next();
                if self.is_kw(Kw::Range) {
                    return self.unsupported("range clause");
                }
                let mut names = Vec::new();
                for e in &lhs {
                    match &e.kind {
                        ExprKind::Ident(n) => names.push(Ident { name: n.clone(), line: e.line, id: e.id }),
                        _ => {
                            return Err(ParseError::Syntax { line: e.line, col: 0, msg: "non-name on left side of :=".into() });
                        }
                    }
                }
                let values = self.expr_list()?;
                Ok(self.mk_stmt(StmtKind::ShortVar { names, values }, line))
            }
            Tok::Op(Op::Assign) => {
                self.next();
                if self.is_kw(Kw::Range) {
                    return self.unsupported("range clause");
                }
                let rhs = self.expr_list()?;
                Ok(self.mk_stmt(StmtKind::Assign { lhs, op: None, rhs }, line))
            }
            Tok::Op(
                o @ (Op::AddAssign
                | Op::SubAssign
                | Op::MulAssign
                | Op::QuoAssign
                | Op::RemAssign
                | Op::AndAssign
                | Op::OrAssign
                | Op::XorAssign
                | Op::ShlAssign
                | Op::ShrAssign
                | Op::AndNotAssign),
            ) => {
                self.next();
                let op = match o {
                    Op::AddAssign => BinOp::Add,
                    Op::SubAssign => BinOp::Sub,
                    Op::MulAssign => BinOp::Mul,
                    Op::QuoAssign => BinOp::Div,
                    Op::RemAssign => BinOp::Rem,
                    Op::AndAssign => BinOp::And,
                    Op::OrAssign => BinOp::Or,
                    Op::XorAssign => BinOp::Xor,
                    Op::ShlAssign => BinOp::Shl,
                    Op::ShrAssign => BinOp::Shr,
                    _ => BinOp::AndNot,
                };
                let rhs = self.expr_list()?;
                if lhs.len() != 1 || rhs.len() != 1 {
                    return Err(ParseError::Syntax { line, col: 0, msg: "assignment operation requires single-valued expressions".into() });
                }
                Ok(self.mk_stmt(StmtKind::Assign { lhs, op: Some(op), rhs }, line))
            }
            Tok::Op(o @ (Op::Inc | Op::Dec)) => {
                self.next();
                if lhs.len() != 1 {
                    return self.syntax("unexpected ++ or --, expected := or = or comma");
                }
                let x = lhs.into_iter().next().unwrap();
                Ok(self.mk_stmt(StmtKind::IncDec { x, inc: o == Op::Inc }, line))
            }
            Tok::Op(Op::Arrow) => self.unsupported("send statement"),
            Tok::Op(Op::Colon) if lhs.len() == 1 && matches!(lhs[0].kind, ExprKind::Ident(_)) && self.xnest >= 0 => {
                self.unsupported("labeled statement")
            }
            _ => {
                if lhs.len() != 1 {
                    return self.unexpected("expected := or = or comma");
                }
                let x = lhs.into_iter().next().unwrap();
                Ok(self.mk_stmt(StmtKind::Expr(x), line))
            }
        }
    }

    /// Parses the header of if/for/switch: `[init ;] [cond] [; post]`.
    /// Returns (init, cond-as-stmt, post, number of semicolons seen).
    fn header(&mut self, is_for: bool) -> PResult<(Option<Stmt>, Option<Stmt>, Option<Stmt>, u32)> {
        let outer = self.xnest;
        self.xnest = -1;
        let r = self.header_inner(is_for);
        self.xnest = outer;
        r
    }

    fn header_inner(&mut self, is_for: bool) -> PResult<(Option<Stmt>, Option<Stmt>, Option<Stmt>, u32)> {
        if self.is_op(Op::LBrace) {
            return Ok((None, None, None, 0));
        }
        if is_for && self.is_kw(Kw::Range) {
            return self.unsupported("range clause");
        }
        let mut init = None;
        if !self.is_semi() {
            init = Some(self.simple_stmt()?);
        }
        if !self.is_semi() {
            // single statement header: it is the condition / tag
            return Ok((None, init, None, 0));
        }
        if let Tok::Semi { auto: true } = self.tok() {
            // gc rejects most of these ("unexpected newline, expected { after
            // if clause"), but not all; we do not decide
            return self.unsupported("newline inside if/for/switch header");
        }
        self.next();
        let mut semis = 1;
        let mut cond = None;
        let mut post = None;
        if is_for {
            if !self.is_semi() {
                if self.is_op(Op::LBrace) {
                    return self.syntax("expected for loop condition");
                }
                cond = Some(self.simple_stmt()?);
            }
            if !self.is_semi() {
                return self.unexpected("expected ; in for clause");
            }
            if let Tok::Semi { auto: true } = self.tok() {
                return self.unsupported("newline inside for header");
            }
            self.next();
            semis = 2;
            if !self.is_op(Op::LBrace) {
                post = Some(self.simple_stmt()?);
            }
        } else if !self.is_op(Op::LBrace) {
            cond = Some(self.simple_stmt()?);
        }
        Ok((init, cond, post, semis))
    }

    fn cond_expr(&mut self, s: Option<Stmt>, what: &str, line: u32) -> PResult<Option<Expr>> {
        match s {
            None => Ok(None),
            Some(Stmt { kind: StmtKind::Expr(e), .. }) => Ok(Some(e)),
            Some(st) => Err(ParseError::Syntax { line: st.line.max(line), col: 0, msg: format!("cannot use statement as {}", what) }),
        }
    }

    fn if_stmt(&mut self) -> PResult<Stmt> {
        let line = self.line();
        self.next(); // if
        if self.is_op(Op::LBrace) {
            return self.syntax("missing condition in if statement");
        }
        let (init, cond, _post, _) = self.header(false)?;
        let cond = match self.cond_expr(cond, "value (condition of if)", line)? {
            Some(c) => c,
            None => return Err(ParseError::Syntax { line, col: 0, msg: "missing condition in if statement".into() }),
        };
        if !self.is_op(Op::LBrace) {
            return self.unexpected("expected { after if clause");
        }
        let then = self.block()?;
        let mut els = None;
        if self.is_kw(Kw::Else) {
            self.next();
            if self.is_kw(Kw::If) {
                self.enter()?;
                let s = self.if_stmt();
                self.leave();
                els = Some(Box::new(s?));
            } else if self.is_op(Op::LBrace) {
                let bline = self.line();
                let b = self.block()?;
                els = Some(Box::new(self.mk_stmt(StmtKind::Block(b), bline)));
            } else {
                return self.syntax("else must be followed by if or statement block");
            }
        }
        Ok(self.mk_stmt(StmtKind::If { init: init.map(Box::new), cond, then, els }, line))
    }

    fn for_stmt(&mut self) -> PResult<Stmt> {
        let line = self.line();
        self.next(); // for
        let (init, cond, post, semis) = self.header(true)?;
        let cond = self.cond_expr(cond, "for loop condition", line)?;
        if semis == 0 && init.is_some() {
            unreachable!();
        }
        if !self.is_op(Op::LBrace) {
            return self.unexpected("expected for loop body");
        }
        if let Some(p) = &post {
            if matches!(p.kind, StmtKind::ShortVar { .. }) {
                return Err(ParseError::Syntax { line: p.line, col: 0, msg: "cannot declare in post statement of for loop".into() });
            }
        }
        let body = self.block()?;
        Ok(self.mk_stmt(StmtKind::For { init: init.map(Box::new), cond, post: post.map(Box::new), body }, line))
    }

    fn switch_stmt(&mut self) -> PResult<Stmt> {
        let line = self.line();
        self.next(); // switch
        let saved_allow = self.allow_guard;
        let guards_before = self.guards_seen;
        self.allow_guard = true;
        let h = self.header(false);
        self.allow_guard = saved_allow;
        let (init, tag, _post, _) = h?;
        if !self.is_op(Op::LBrace) {
            return self.unexpected("expected { after switch clause");
        }
        // a guard is only acceptable as the tag statement
        let guards = self.guards_seen - guards_before;
        let mut ts: Option<(Option<Ident>, Expr)> = None;
        if guards > 0 {
            let ok = match &tag {
                Some(Stmt { kind: StmtKind::Expr(Expr { kind: ExprKind::TypeSwitchGuard(_), .. }), .. }) => guards == 1,
                Some(Stmt { kind: StmtKind::ShortVar { names, values }, .. }) => {
                    guards == 1 && names.len() == 1 && values.len() == 1 && matches!(values[0].kind, ExprKind::TypeSwitchGuard(_))
                }
                _ => false,
            };
            if !ok {
                return Err(ParseError::Syntax { line, col: 0, msg: "use of .(type) outside type switch".into() });
            }
            match tag.clone().unwrap().kind {
                StmtKind::Expr(Expr { kind: ExprKind::TypeSwitchGuard(x), .. }) => ts = Some((None, *x)),
                StmtKind::ShortVar { mut names, mut values } => {
                    if let ExprKind::TypeSwitchGuard(x) = values.remove(0).kind {
                        ts = Some((Some(names.remove(0)), *x));
                    }
                }
                _ => {}
            }
        }
        self.next(); // {
        if let Some((bind, x)) = ts {
            let mut clauses = Vec::new();
            loop {
                let cline = self.line();
                match self.tok().clone() {
                    Tok::Op(Op::RBrace) => break,
                    Tok::Kw(Kw::Case) => {
                        self.next();
                        let mut types = Vec::new();
                        loop {
                            if let Tok::Ident(n) = self.tok() {
                                if n == "nil" && matches!(self.tok_at(1), Tok::Op(Op::Comma | Op::Colon)) {
                                    types.push(TypeCase::Nil(self.line()));
                                    self.next();
                                    if !self.got_op(Op::Comma) {
                                        break;
                                    }
                                    continue;
                                }
                            }
                            if !self.type_start() {
                                return self.unexpected("expected type in type switch case");
                            }
                            let saved = self.xnest;
                            self.xnest = 0;
                            let t = self.parse_type();
                            self.xnest = saved;
                            types.push(TypeCase::Type(t?));
                            if !self.got_op(Op::Comma) {
                                break;
                            }
                        }
                        self.want_op(Op::Colon, "after case types")?;
                        let body = self.stmt_list()?;
                        let id = self.id();
                        clauses.push(TypeClause { types: Some(types), body, line: cline, id });
                    }
                    Tok::Kw(Kw::Default) => {
                        self.next();
                        self.want_op(Op::Colon, "after default")?;
                        let body = self.stmt_list()?;
                        let id = self.id();
                        clauses.push(TypeClause { types: None, body, line: cline, id });
                    }
                    _ => return self.unexpected("expected case or default or }"),
                }
            }
            self.next(); // }
            return Ok(self.mk_stmt(StmtKind::TypeSwitch { init: init.map(Box::new), bind, x, clauses }, line));
        }
        let tag = self.cond_expr(tag, "switch tag", line)?;
        let mut clauses = Vec::new();
        loop {
            let cline = self.line();
            match self.tok().clone() {
                Tok::Op(Op::RBrace) => break,
                Tok::Kw(Kw::Case) => {
                    self.next();
                    let exprs = self.expr_list()?;
                    self.want_op(Op::Colon, "after case expressions")?;
                    let body = self.stmt_list()?;
                    clauses.push(CaseClause { exprs: Some(exprs), body, line: cline });
                }
                Tok::Kw(Kw::Default) => {
                    self.next();
                    self.want_op(Op::Colon, "after default")?;
                    let body = self.stmt_list()?;
                    clauses.push(CaseClause { exprs: None, body, line: cline });
                }
                _ => return self.unexpected("expected case or default or }"),
            }
        }
        self.next(); // }
        Ok(self.mk_stmt(StmtKind::Switch { init: init.map(Box::new), tag, clauses }, line))
    }

    // --------------------------------------------------------- expressions

    fn mk(&mut self, kind: ExprKind, line: u32) -> PResult<Expr> {
        let d = 1 + self.child_depth(&kind);
        if d > MAX_DEPTH {
            return Err(ParseError::Unsupported { line, what: "expression nesting too deep".into() });
        }
        let id = self.id();
        if self.depth_of.len() <= id as usize {
            self.depth_of.resize(id as usize + 1, 0);
        }
        self.depth_of[id as usize] = d as u16;
        Ok(Expr { kind, line, id })
    }

    fn d(&self, e: &Expr) -> u32 {
        self.depth_of.get(e.id as usize).copied().unwrap_or(0) as u32
    }

    fn child_depth(&self, kind: &ExprKind) -> u32 {
        match kind {
            ExprKind::Ident(_) | ExprKind::IntLit(_) | ExprKind::FloatLit(_) | ExprKind::RuneLit(_) | ExprKind::StrLit(_) => 0,
            ExprKind::Composite { elems, .. } => {
                let mut m = 0;
                for e in elems {
                    m = m.max(self.d(&e.value));
                    if let Some(k) = &e.key {
                        m = m.max(self.d(k));
                    }
                }
                m
            }
            ExprKind::Selector { x, .. } => self.d(x),
            ExprKind::Index { x, index } => self.d(x).max(self.d(index)),
            ExprKind::Call { fun, args } => {
                let mut m = self.d(fun);
                for a in args {
                    m = m.max(self.d(a));
                }
                m
            }
            ExprKind::TypeAssert { x, .. } => self.d(x),
            ExprKind::TypeSwitchGuard(x) => self.d(x),
            ExprKind::Unary { x, .. } => self.d(x),
            ExprKind::Star(x) => self.d(x),
            ExprKind::Binary { x, y, .. } => self.d(x).max(self.d(y)),
            ExprKind::Paren(x) => self.d(x),
            ExprKind::Type(_) => 0,
        }
    }

    fn expr_list(&mut self) -> PResult<Vec<Expr>> {
        let mut v = vec![self.expr()?];
        while self.got_op(Op::Comma) {
            v.push(self.expr()?);
        }
        Ok(v)
    }

    pub fn expr(&mut self) -> PResult<Expr> {
        self.binary_expr(1)
    }

    fn binop(&self) -> Option<BinOp> {
        Some(match self.tok() {
            Tok::Op(o) => match o {
                Op::LOr => BinOp::LOr,
                Op::LAnd => BinOp::LAnd,
                Op::Eql => BinOp::Eq,
                Op::Neq => BinOp::Ne,
                Op::Lss => BinOp::Lt,
                Op::Leq => BinOp::Le,
                Op::Gtr => BinOp::Gt,
                Op::Geq => BinOp::Ge,
                Op::Add => BinOp::Add,
                Op::Sub => BinOp::Sub,
                Op::Or => BinOp::Or,
                Op::Xor => BinOp::Xor,
                Op::Mul => BinOp::Mul,
                Op::Quo => BinOp::Div,
                Op::Rem => BinOp::Rem,
                Op::Shl => BinOp::Shl,
                Op::Shr => BinOp::Shr,
                Op::And => BinOp::And,
                Op::AndNot => BinOp::AndNot,
                _ => return None,
            },
            _ => return None,
        })
    }

    fn binary_expr(&mut self, min_prec: u8) -> PResult<Expr> {
        self.enter()?;
        let r = self.binary_expr_inner(min_prec);
        self.leave();
        r
    }

    fn binary_expr_inner(&mut self, min_prec: u8) -> PResult<Expr> {
        let mut x = self.unary_expr()?;
        loop {
            let op = match self.binop() {
                Some(op) if op.precedence() >= min_prec => op,
                _ => break,
            };
            let line = self.line();
            self.next();
            let y = self.binary_expr(op.precedence() + 1)?;
            x = self.mk(ExprKind::Binary { op, x: Box::new(x), y: Box::new(y) }, line)?;
        }
        Ok(x)
    }

    fn unary_expr(&mut self) -> PResult<Expr> {
        self.enter()?;
        let r = self.unary_expr_inner();
        self.leave();
        r
    }

    fn unary_expr_inner(&mut self) -> PResult<Expr> {
        let line = self.line();
        match self.tok().clone() {
            Tok::Op(o @ (Op::Add | Op::Sub | Op::Not | Op::Xor | Op::And)) => {
                self.next();
                let x = self.unary_expr()?;
                let op = match o {
                    Op::Add => UnOp::Pos,
                    Op::Sub => UnOp::Neg,
                    Op::Not => UnOp::Not,
                    Op::Xor => UnOp::BitNot,
                    _ => UnOp::Addr,
                };
                self.mk(ExprKind::Unary { op, x: Box::new(x) }, line)
            }
            Tok::Op(Op::Mul) => {
                self.next();
                let x = self.unary_expr()?;
                self.mk(ExprKind::Star(Box::new(x)), line)
            }
            Tok::Op(Op::Arrow) => self.unsupported("channel receive or channel type"),
            Tok::Op(Op::Tilde) => self.unsupported("~ operator"),
            _ => self.primary_expr(),
        }
    }

    fn is_literal_type(e: &Expr) -> (bool, bool) {
        // returns (is name-like, is explicit composite type)
        match &e.kind {
            ExprKind::Ident(_) => (true, false),
            ExprKind::Selector { x, .. } => (matches!(x.kind, ExprKind::Ident(_)), false),
            ExprKind::Type(t) => (false, matches!(t.kind, TypeExprKind::Array { .. } | TypeExprKind::Slice(_) | TypeExprKind::Struct { .. })),
            _ => (false, false),
        }
    }

    fn expr_to_type(&mut self, e: Expr) -> PResult<TypeExpr> {
        let line = e.line;
        match e.kind {
            ExprKind::Ident(name) => Ok(TypeExpr { kind: TypeExprKind::Name { pkg: None, name }, line, id: e.id }),
            ExprKind::Selector { x, sel } => match x.kind {
                ExprKind::Ident(p) => Ok(TypeExpr { kind: TypeExprKind::Name { pkg: Some(p), name: sel.name }, line, id: e.id }),
                _ => Err(ParseError::Syntax { line, col: 0, msg: "invalid composite literal type".into() }),
            },
            ExprKind::Type(t) => Ok(*t),
            _ => Err(ParseError::Syntax { line, col: 0, msg: "invalid composite literal type".into() }),
        }
    }

    fn primary_expr(&mut self) -> PResult<Expr> {
        let mut x = self.operand()?;
        loop {
            let line = self.line();
            match self.tok().clone() {
                Tok::Op(Op::Period) => {
                    self.next();
                    match self.tok().clone() {
                        Tok::Ident(_) => {
                            let sel = self.ident("after .")?;
                            x = self.mk(ExprKind::Selector { x: Box::new(x), sel }, line)?;
                        }
                        Tok::Op(Op::LParen) => {
                            self.next();
                            if self.is_kw(Kw::Type) {
                                self.next();
                                self.want_op(Op::RParen, "after .(type")?;
                                if !self.allow_guard {
                                    return Err(ParseError::Syntax { line, col: 0, msg: "use of .(type) outside type switch".into() });
                                }
                                self.guards_seen += 1;
                                x = self.mk(ExprKind::TypeSwitchGuard(Box::new(x)), line)?;
                            } else {
                                if !self.type_start() {
                                    return self.unexpected("expected type in type assertion");
                                }
                                let saved = self.xnest;
                                self.xnest += 1;
                                let t = self.parse_type();
                                self.xnest = saved;
                                let t = t?;
                                self.want_op(Op::RParen, "after type assertion")?;
                                x = self.mk(ExprKind::TypeAssert { x: Box::new(x), ty: Box::new(t) }, line)?;
                            }
                        }
                        Tok::Kw(k) => {
                            return self.syntax(format!("keyword-as-ident: unexpected keyword {}, expected name or (", k.as_str()));
                        }
                        _ => return self.unexpected("expected name or ( after ."),
                    }
                }
                Tok::Op(Op::LBrack) => {
                    self.next();
                    let saved = self.xnest;
                    self.xnest += 1;
                    let r = self.index_tail(x, line);
                    self.xnest = saved;
                    x = r?;
                }
                Tok::Op(Op::LParen) => {
                    self.next();
                    let saved = self.xnest;
                    self.xnest += 1;
                    let r = self.call_args();
                    self.xnest = saved;
                    let args = r?;
                    x = self.mk(ExprKind::Call { fun: Box::new(x), args }, line)?;
                }
                Tok::Op(Op::LBrace) => {
                    // composite literal or start of a block
                    let inner = match &x.kind {
                        ExprKind::Paren(p) => p.as_ref(),
                        _ => &x,
                    };
                    let (namelike, explicit) = Parser::is_literal_type(inner);
                    let ok = explicit || (namelike && self.xnest >= 0);
                    if !ok {
                        break;
                    }
                    if matches!(x.kind, ExprKind::Paren(_)) {
                        return self.syntax("cannot parenthesize type in composite literal");
                    }
                    let ty = self.expr_to_type(x)?;
                    x = self.composite_body(Some(ty), line)?;
                }
                _ => break,
            }
        }
        Ok(x)
    }

    fn index_tail(&mut self, x: Expr, line: u32) -> PResult<Expr> {
        if self.is_op(Op::Colon) {
            return self.unsupported("slice expression");
        }
        if self.is_op(Op::RBrack) {
            return self.syntax("expected operand");
        }
        let i = self.expr()?;
        if self.is_op(Op::Colon) {
            return self.unsupported("slice expression");
        }
        if self.is_op(Op::Comma) {
            return self.unsupported("generic instantiation with multiple type arguments");
        }
        self.want_op(Op::RBrack, "after index")?;
        self.mk(ExprKind::Index { x: Box::new(x), index: Box::new(i) }, line)
    }

    fn call_args(&mut self) -> PResult<Vec<Expr>> {
        let mut args = Vec::new();
        while !self.is_op(Op::RParen) {
            if matches!(self.tok(), Tok::Eof) {
                return self.unexpected("expected ) in argument list");
            }
            // a type may be an argument (new(T), make([]T, n)): parsed by
            // operand() as ExprKind::Type
            args.push(self.expr()?);
            if self.is_op(Op::Ellipsis) {
                return self.unsupported("variadic call with ...");
            }
            if !self.got_op(Op::Comma) {
                if !self.is_op(Op::RParen) {
                    return self.unexpected("in argument list; possibly missing comma or )");
                }
            }
        }
        self.next();
        Ok(args)
    }

    fn composite_body(&mut self, ty: Option<TypeExpr>, line: u32) -> PResult<Expr> {
        self.enter()?;
        let saved = self.xnest;
        self.xnest = self.xnest.max(0) + 1;
        let r = self.composite_body_inner(ty, line);
        self.xnest = saved;
        self.leave();
        r
    }

    fn composite_body_inner(&mut self, ty: Option<TypeExpr>, line: u32) -> PResult<Expr> {
        self.want_op(Op::LBrace, "in composite literal")?;
        let mut elems = Vec::new();
        while !self.is_op(Op::RBrace) {
            if matches!(self.tok(), Tok::Eof) {
                return self.unexpected("expected } in composite literal");
            }
            let eline = self.line();
            let first = if self.is_op(Op::LBrace) { self.composite_body(None, eline)? } else { self.expr()? };
            if self.got_op(Op::Colon) {
                let vline = self.line();
                let value = if self.is_op(Op::LBrace) { self.composite_body(None, vline)? } else { self.expr()? };
                elems.push(KeyedElem { key: Some(first), value });
            } else {
                elems.push(KeyedElem { key: None, value: first });
            }
            if !self.got_op(Op::Comma) {
                if !self.is_op(Op::RBrace) {
                    return self.unexpected("in composite literal; possibly missing comma or }");
                }
            }
        }
        self.next();
        self.mk(ExprKind::Composite { ty: ty.map(Box::new), elems }, line)
    }

    fn operand(&mut self) -> PResult<Expr> {
        let line = self.line();
        match self.tok().clone() {
            Tok::Ident(name) => {
                self.next();
                self.mk(ExprKind::Ident(name), line)
            }
            Tok::Int(s) => {
                self.next();
                self.mk(ExprKind::IntLit(s), line)
            }
            Tok::Float(s) => {
                self.next();
                self.mk(ExprKind::FloatLit(s), line)
            }
            Tok::Imag(_) => self.unsupported("imaginary literal"),
            Tok::Char(c) => {
                self.next();
                self.mk(ExprKind::RuneLit(c), line)
            }
            Tok::Str(s) => {
                self.next();
                self.mk(ExprKind::StrLit(s), line)
            }
            Tok::Op(Op::LParen) => {
                self.next();
                let saved = self.xnest;
                self.xnest += 1;
                let r = self.paren_inner();
                self.xnest = saved;
                let inner = r?;
                self.want_op(Op::RParen, "after parenthesized expression")?;
                self.mk(ExprKind::Paren(Box::new(inner)), line)
            }
            Tok::Kw(Kw::Func) => {
                let t = self.parse_type()?;
                if self.is_op(Op::LBrace) {
                    return self.unsupported("function literal");
                }
                self.mk(ExprKind::Type(Box::new(t)), line)
            }
            Tok::Op(Op::LBrack) | Tok::Kw(Kw::Struct) | Tok::Kw(Kw::Interface) => {
                let t = self.parse_type()?;
                self.mk(ExprKind::Type(Box::new(t)), line)
            }
            Tok::Kw(Kw::Map) => self.unsupported("map type"),
            Tok::Kw(Kw::Chan) => self.unsupported("channel type"),
            Tok::Kw(k) => self.syntax(format!("keyword-as-ident: unexpected keyword {}, expected expression", k.as_str())),
            _ => self.unexpected("expected expression"),
        }
    }

    fn paren_inner(&mut self) -> PResult<Expr> {
        // expression or type; types starting with these keywords or `[` are
        // handled by operand(); `*T` parses as Star(Ident)
        self.expr()
    }
}
