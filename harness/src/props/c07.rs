//! C07: generic code behaves identically at every instantiation and is fully specialised.
use crate::capi;
use crate::diff::{self, DiffOpts, Outcome};
use crate::gl::ast::*;
use crate::gl::pgen::{Features, Gen, generate};
use crate::irmon::{self, IrStats};
use crate::runner::{self, Case, Ctx, PropSpec};
use crate::util::{self, Rng, hash_str};
use serde_json::json;
use std::collections::{BTreeMap, BTreeSet};

pub static SPEC: PropSpec = PropSpec {
    id: "C07",
    level: "exploration",
    rule: "programs: 16 Self-position programs and a generic + instance-specific inherent block pair in both declaration orders (executed against expected output); a library of 28 generic functions / methods (values built inside the generic body at a type mentioning the parameter - array literal, Ref cell, Vec pushes, closure literal -, functions whose type parameter occurs only inside a type application with concrete co-arguments, a generic struct whose fields apply other generic types to its own parameter built and taken apart at generic-application arguments, identity, pairs, swaps, apply, callbacks whose result type occurs only in the callback's return type, containers Vec / Ref / array / Opt[T] / Box[T], bounded generics through trait bounds, generics calling generics at composed types, bounded recursion) instantiated in `main` at type tuples drawn from 14 concrete types (all integer widths used, bool, string, unit, tuples, arrays, Vec, Ref, structs, enums, generic instances, function types), plus randomly generated generic-heavy programs; each program is (1) executed and compared with refsem (generics by substitution), (2) monitored after mono: no duplicate function names, no type-parameter residue in Mono/Lift/ANF or in the Go text, and at least one Mono function per distinct (generic function, type tuple) used. distinct / non-trivial = distinct (generic item, type-argument tuple) pairs instantiated",
    eval_counter: "instantiations",
    assumptions: &["relative to refsem (generics by substitution) and gomini; instance counting is a lower bound (statically reachable instances may exceed dynamically used ones)"],
    crash_is_violation: false,
    stack_mib: 256,
    case_cpu_s: 120,
    shards: 0,
    run,
    floors: &[("instantiations", 1_500, 40_000), ("programs_agree", 60, 2_500), ("mono_fns_checked", 2_000, 80_000), ("template_programs_agree", 18, 18)],
    finish: None,
};

fn i(v: i128) -> Expr {
    Expr::Int(IntTy::I32, v, false)
}
fn s(x: &str) -> Expr {
    Expr::Str(x.into())
}
fn var(x: &str) -> Expr {
    Expr::Var(x.into())
}
fn bi(f: &str, args: Vec<Expr>) -> Expr {
    Expr::Builtin(f.into(), args)
}
fn bin(op: BinOp, l: Expr, r: Expr) -> Expr {
    Expr::Binary(op, Box::new(l), Box::new(r))
}
fn blk(stmts: Vec<Stmt>, tail: Expr) -> Expr {
    Expr::Block(stmts, Some(Box::new(tail)))
}
fn tp(n: &str) -> Ty {
    Ty::Param(n.into())
}
fn fnd(name: &str, tparams: &[(&str, &[&str])], params: Vec<(&str, Ty)>, ret: Ty, body: Expr) -> FnDecl {
    FnDecl {
        name: name.into(),
        tparams: tparams.iter().map(|(p, bs)| (p.to_string(), bs.iter().map(|b| b.to_string()).collect())).collect(),
        params: params.into_iter().map(|(n, t)| (n.to_string(), t)).collect(),
        ret,
        body,
    }
}

fn opt(t: Ty) -> Ty {
    Ty::Enum("Opt".into(), vec![t])
}
fn boxt(t: Ty) -> Ty {
    Ty::Struct("Bx".into(), vec![t])
}

struct Lib {
    items: Vec<Item>,
    structs: Vec<StructDecl>,
    enums: Vec<EnumDecl>,
}

fn library() -> Lib {
    let structs = vec![
        StructDecl { name: "Pt".into(), tparams: vec![], fields: vec![("x".into(), I32), ("y".into(), Ty::Bool)], derives: vec![] },
        StructDecl { name: "Bx".into(), tparams: vec!["A".into()], fields: vec![("v".into(), tp("A")), ("n".into(), I32)], derives: vec![] },
        // two parameters: generic functions below name their own parameters like these, at other positions
        StructDecl { name: "Pr".into(), tparams: vec!["A".into(), "B".into()], fields: vec![("first".into(), tp("A")), ("second".into(), tp("B"))], derives: vec![] },
        // a generic struct with a field whose type is a CONCRETE application of another generic type (it mentions no
        // parameter of the struct, but still has to be rewritten to its instance in every copy; added after a seeded
        // change that copied parameter-free fields verbatim)
        StructDecl { name: "Ch".into(), tparams: vec!["A".into()], fields: vec![("item".into(), tp("A")), ("hits".into(), opt(I32)), ("pair".into(), Ty::Struct("Pr".into(), vec![Ty::Bool, Ty::Str]))], derives: vec![] },
        // a generic struct whose field applies another generic type to its own parameter
        StructDecl { name: "Wr".into(), tparams: vec!["A".into()], fields: vec![("inner".into(), boxt(tp("A"))), ("tag".into(), I32), ("alt".into(), opt(boxt(tp("A"))))], derives: vec![] },
    ];
    let enums = vec![
        EnumDecl { name: "Col".into(), tparams: vec![], variants: vec![("Red".into(), vec![]), ("Rgb".into(), vec![I32, I32])], derives: vec![] },
        EnumDecl { name: "Opt".into(), tparams: vec!["T".into()], variants: vec![("Som".into(), vec![tp("T")]), ("Non".into(), vec![])], derives: vec![] },
        EnumDecl { name: "Res".into(), tparams: vec!["T".into(), "E".into()], variants: vec![("Okv".into(), vec![tp("T")]), ("Errv".into(), vec![tp("E")])], derives: vec![] },
    ];
    let mut items: Vec<Item> = Vec::new();
    for st in &structs {
        items.push(Item::Struct(st.clone()));
    }
    for e in &enums {
        items.push(Item::Enum(e.clone()));
    }
    items.push(Item::Trait(TraitDecl { name: "Show".into(), methods: vec![MethodSig { name: "show".into(), extra: vec![], ret: Ty::Str }, MethodSig { name: "weight".into(), extra: vec![I32], ret: I32 }] }));
    let mk_impl = |ty: Ty, show_body: Expr, w: Expr| ImplDecl {
        trait_name: Some("Show".into()),
        for_ty: ty.clone(),
        tparams: vec![],
        methods: vec![
            FnDecl { name: "show".into(), tparams: vec![], params: vec![("self".into(), ty.clone())], ret: Ty::Str, body: blk(vec![], show_body) },
            FnDecl { name: "weight".into(), tparams: vec![], params: vec![("self".into(), ty), ("k".into(), I32)], ret: I32, body: blk(vec![], w) },
        ],
    };
    items.push(Item::Impl(mk_impl(I32, bin(BinOp::Add, s("i:"), bi("int32_to_string", vec![var("self")])), bin(BinOp::Add, var("self"), var("k")))));
    items.push(Item::Impl(mk_impl(Ty::Bool, bin(BinOp::Add, s("b:"), bi("bool_to_string", vec![var("self")])), bin(BinOp::Mul, var("k"), i(2)))));
    items.push(Item::Impl(mk_impl(Ty::Str, bin(BinOp::Add, s("s:"), var("self")), bin(BinOp::Add, bi("string_len", vec![var("self")]), var("k")))));
    items.push(Item::Impl(mk_impl(
        Ty::Struct("Pt".into(), vec![]),
        bin(BinOp::Add, s("pt:"), bi("int32_to_string", vec![Expr::Field(Box::new(var("self")), "x".into())])),
        bin(BinOp::Sub, Expr::Field(Box::new(var("self")), "x".into()), var("k")),
    )));
    // generic library
    let (t, u) = (tp("T"), tp("U"));
    items.push(Item::Fn(fnd("idg", &[("T", &[])], vec![("x", t.clone())], t.clone(), blk(vec![], var("x")))));
    items.push(Item::Fn(fnd("pairg", &[("T", &[]), ("U", &[])], vec![("a", t.clone()), ("b", u.clone())], Ty::Tuple(vec![t.clone(), u.clone()]), blk(vec![], Expr::Tuple(vec![var("a"), var("b")])))));
    items.push(Item::Fn(fnd(
        "swapg",
        &[("T", &[]), ("U", &[])],
        vec![("p", Ty::Tuple(vec![t.clone(), u.clone()]))],
        Ty::Tuple(vec![u.clone(), t.clone()]),
        blk(vec![Stmt::Let(Pat::Tuple(vec![Pat::Var("a".into()), Pat::Var("b".into())]), None, var("p"))], Expr::Tuple(vec![var("b"), var("a")])),
    )));
    items.push(Item::Fn(fnd("applyg", &[("T", &[]), ("U", &[])], vec![("x", t.clone()), ("f", Ty::Func(vec![t.clone()], Box::new(u.clone())))], u.clone(), blk(vec![], Expr::CallValue(Box::new(var("f")), vec![var("x")])))));
    // U occurs only in the callback's result type
    items.push(Item::Fn(fnd(
        "eachg",
        &[("T", &[]), ("U", &[])],
        vec![("xs", Ty::Vec(Box::new(t.clone()))), ("f", Ty::Func(vec![t.clone()], Box::new(u.clone())))],
        I32,
        blk(
            vec![
                Stmt::Let(Pat::Var("k".into()), None, bi("ref", vec![i(0)])),
                Stmt::Expr(Expr::While(
                    Box::new(bin(BinOp::Lt, bi("ref_get", vec![var("k")]), bi("vec_len", vec![var("xs")]))),
                    Box::new(Expr::Block(
                        vec![
                            Stmt::Let(Pat::Wild, None, Expr::CallValue(Box::new(var("f")), vec![bi("vec_get", vec![var("xs"), bi("ref_get", vec![var("k")])])])),
                            Stmt::Let(Pat::Wild, None, bi("ref_set", vec![var("k"), bin(BinOp::Add, bi("ref_get", vec![var("k")]), i(1))])),
                        ],
                        None,
                    )),
                )),
            ],
            bi("ref_get", vec![var("k")]),
        ),
    )));
    items.push(Item::Fn(fnd(
        "twiceg",
        &[("T", &[])],
        vec![("f", Ty::Func(vec![], Box::new(t.clone())))],
        Ty::Unit,
        blk(vec![Stmt::Let(Pat::Wild, None, Expr::CallValue(Box::new(var("f")), vec![])), Stmt::Let(Pat::Wild, None, Expr::CallValue(Box::new(var("f")), vec![]))], Expr::Unit),
    )));
    items.push(Item::Fn(fnd("wrapg", &[("T", &[])], vec![("x", t.clone())], opt(t.clone()), blk(vec![], Expr::Constr { enum_name: "Opt".into(), variant: "Som".into(), ty: opt(t.clone()), args: vec![var("x")], qualified: true }))));
    items.push(Item::Fn(fnd(
        "unwrapg",
        &[("T", &[])],
        vec![("o", opt(t.clone())), ("d", t.clone())],
        t.clone(),
        blk(vec![], Expr::Match(Box::new(var("o")), vec![(Pat::Constr { enum_name: "Opt".into(), variant: "Som".into(), args: vec![Pat::Var("v".into())], qualified: true }, var("v")), (Pat::Constr { enum_name: "Opt".into(), variant: "Non".into(), args: vec![], qualified: true }, var("d"))])),
    )));
    items.push(Item::Fn(fnd(
        "mapoptg",
        &[("T", &[]), ("U", &[])],
        vec![("o", opt(t.clone())), ("f", Ty::Func(vec![t.clone()], Box::new(u.clone())))],
        opt(u.clone()),
        blk(
            vec![],
            Expr::Match(
                Box::new(var("o")),
                vec![
                    (Pat::Constr { enum_name: "Opt".into(), variant: "Som".into(), args: vec![Pat::Var("v".into())], qualified: true }, Expr::Constr { enum_name: "Opt".into(), variant: "Som".into(), ty: opt(u.clone()), args: vec![Expr::CallValue(Box::new(var("f")), vec![var("v")])], qualified: true }),
                    (Pat::Constr { enum_name: "Opt".into(), variant: "Non".into(), args: vec![], qualified: true }, Expr::Constr { enum_name: "Opt".into(), variant: "Non".into(), ty: opt(u.clone()), args: vec![], qualified: true }),
                ],
            ),
        ),
    )));
    items.push(Item::Fn(fnd("firstg", &[("T", &[])], vec![("a", Ty::Array(Box::new(t.clone()), 2))], t.clone(), blk(vec![], bi("array_get", vec![var("a"), i(0)])))));
    items.push(Item::Fn(fnd("derefg", &[("T", &[])], vec![("r", Ty::Ref(Box::new(t.clone())))], t.clone(), blk(vec![], bi("ref_get", vec![var("r")])))));
    items.push(Item::Fn(fnd("vlastg", &[("T", &[])], vec![("v", Ty::Vec(Box::new(t.clone()))), ("d", t.clone())], t.clone(), blk(vec![], Expr::If(Box::new(bin(BinOp::Gt, bi("vec_len", vec![var("v")]), i(0))), Box::new(blk(vec![], bi("vec_get", vec![var("v"), bin(BinOp::Sub, bi("vec_len", vec![var("v")]), i(1))]))), Box::new(blk(vec![], var("d"))))))));
    // generic calling generics at composed types
    items.push(Item::Fn(fnd(
        "dupg",
        &[("T", &[])],
        vec![("x", t.clone())],
        Ty::Tuple(vec![t.clone(), t.clone()]),
        blk(vec![], Expr::Call { name: "pairg".into(), targs: vec![("T".into(), t.clone()), ("U".into(), t.clone())], args: vec![var("x"), var("x")] }),
    )));
    items.push(Item::Fn(fnd(
        "nestg",
        &[("T", &[])],
        vec![("x", t.clone())],
        opt(Ty::Tuple(vec![t.clone(), t.clone()])),
        blk(vec![], Expr::Call { name: "wrapg".into(), targs: vec![("T".into(), Ty::Tuple(vec![t.clone(), t.clone()]))], args: vec![Expr::Call { name: "dupg".into(), targs: vec![("T".into(), t.clone())], args: vec![var("x")] }] }),
    )));
    // values BUILT inside the generic body at a type mentioning the parameter: array literal, array literal read back,
    // Ref cell, Vec built by pushes, closure literal over the parameter type
    items.push(Item::Fn(fnd("arr2g", &[("T", &[])], vec![("a", t.clone()), ("b", t.clone())], Ty::Array(Box::new(t.clone()), 2), blk(vec![], Expr::Array(vec![var("a"), var("b")])))));
    items.push(Item::Fn(fnd(
        "pickg",
        &[("T", &[])],
        vec![("a", t.clone()), ("b", t.clone()), ("k", I32)],
        t.clone(),
        blk(vec![Stmt::Let(Pat::Var("both".into()), None, Expr::Array(vec![var("a"), var("b")]))], bi("array_get", vec![var("both"), var("k")])),
    )));
    items.push(Item::Fn(fnd(
        "cellg",
        &[("T", &[])],
        vec![("a", t.clone()), ("b", t.clone())],
        t.clone(),
        blk(vec![Stmt::Let(Pat::Var("cell".into()), None, bi("ref", vec![var("a")])), Stmt::Let(Pat::Wild, None, bi("ref_set", vec![var("cell"), var("b")]))], bi("ref_get", vec![var("cell")])),
    )));
    items.push(Item::Fn(fnd(
        "vec2g",
        &[("T", &[])],
        vec![("a", t.clone()), ("b", t.clone())],
        Ty::Vec(Box::new(t.clone())),
        blk(vec![Stmt::Let(Pat::Var("v0".into()), Some(Ty::Vec(Box::new(t.clone()))), bi("vec_new", vec![])), Stmt::Let(Pat::Var("v1".into()), None, bi("vec_push", vec![var("v0"), var("a")]))], bi("vec_push", vec![var("v1"), var("b")])),
    )));
    items.push(Item::Fn(fnd(
        "constg",
        &[("T", &[])],
        vec![("a", t.clone()), ("b", t.clone())],
        t.clone(),
        blk(vec![Stmt::Let(Pat::Var("keep".into()), None, Expr::Closure { params: vec![("ignored".into(), Some(t.clone()))], body: Box::new(var("a")) })], Expr::CallValue(Box::new(var("keep")), vec![var("b")])),
    )));
    // field access on a two-parameter generic struct inside functions whose own parameter is named like the struct's
    // LATER parameter and passed at an EARLIER position (`Pr[B, int32]`, `Pr[B, A]`): simultaneous substitution
    let pr = |a: Ty, b: Ty| Ty::Struct("Pr".into(), vec![a, b]);
    items.push(Item::Fn(fnd("firstb", &[("B", &[])], vec![("p", pr(tp("B"), I32))], tp("B"), blk(vec![], Expr::Field(Box::new(var("p")), "first".into())))));
    items.push(Item::Fn(fnd(
        "flipba",
        &[("B", &[]), ("A", &[])],
        vec![("p", pr(tp("B"), tp("A")))],
        pr(tp("A"), tp("B")),
        blk(vec![], Expr::StructLit { name: "Pr".into(), ty: pr(tp("A"), tp("B")), fields: vec![("first".into(), Expr::Field(Box::new(var("p")), "second".into())), ("second".into(), Expr::Field(Box::new(var("p")), "first".into()))] }),
    )));
    items.push(Item::Fn(fnd(
        "idfirstb",
        &[("B", &[])],
        vec![("p", pr(tp("B"), Ty::Str))],
        tp("B"),
        blk(vec![], Expr::Call { name: "idg".into(), targs: vec![("T".into(), tp("B"))], args: vec![Expr::Field(Box::new(var("p")), "first".into())] }),
    )));
    // bounded recursion at the same instance
    items.push(Item::Fn(fnd(
        "countg",
        &[("T", &[])],
        vec![("x", t.clone()), ("n", I32)],
        I32,
        blk(vec![], Expr::If(Box::new(bin(BinOp::Le, var("n"), i(0))), Box::new(blk(vec![], i(0))), Box::new(blk(vec![], bin(BinOp::Add, i(1), Expr::Call { name: "countg".into(), targs: vec![("T".into(), t.clone())], args: vec![var("x"), bin(BinOp::Sub, var("n"), i(1))] }))))),
    )));
    // trait-bounded generics: static call, method syntax, both
    items.push(Item::Fn(fnd("showg", &[("T", &["Show"])], vec![("x", t.clone())], Ty::Str, blk(vec![], bin(BinOp::Add, s("<"), bin(BinOp::Add, Expr::AssocCall { head: "Show".into(), method: "show".into(), args: vec![var("x")] }, s(">")))))));
    items.push(Item::Fn(fnd("weighg", &[("T", &["Show"])], vec![("x", t.clone()), ("k", I32)], I32, blk(vec![], Expr::MethodCall { recv: Box::new(var("x")), method: "weight".into(), args: vec![var("k")] }))));
    items.push(Item::Fn(fnd(
        "show2g",
        &[("T", &["Show"]), ("U", &["Show"])],
        vec![("a", t.clone()), ("b", u.clone())],
        Ty::Str,
        blk(vec![], bin(BinOp::Add, Expr::Call { name: "showg".into(), targs: vec![("T".into(), t.clone())], args: vec![var("a")] }, Expr::Call { name: "showg".into(), targs: vec![("T".into(), u.clone())], args: vec![var("b")] })),
    )));
    // generic inherent methods
    let bx = boxt(tp("A"));
    items.push(Item::Impl(ImplDecl {
        trait_name: None,
        for_ty: bx.clone(),
        tparams: vec!["A".into()],
        methods: vec![
            FnDecl { name: "get".into(), tparams: vec![], params: vec![("self".into(), bx.clone())], ret: tp("A"), body: blk(vec![], Expr::Field(Box::new(var("self")), "v".into())) },
            FnDecl { name: "count".into(), tparams: vec![], params: vec![("self".into(), bx.clone()), ("k".into(), I32)], ret: I32, body: blk(vec![], bin(BinOp::Add, Expr::Field(Box::new(var("self")), "n".into()), var("k"))) },
        ],
    }));
    // Wr[T]: built and taken apart by generic functions (instantiated at generic applications too)
    let wr = Ty::Struct("Wr".into(), vec![tp("T")]);
    items.push(Item::Fn(fnd(
        "mkwrg",
        &[("T", &[])],
        vec![("x", tp("T"))],
        wr.clone(),
        blk(
            vec![],
            Expr::StructLit {
                name: "Wr".into(),
                ty: wr.clone(),
                fields: vec![
                    ("inner".into(), Expr::StructLit { name: "Bx".into(), ty: boxt(tp("T")), fields: vec![("v".into(), var("x")), ("n".into(), i(1))] }),
                    ("tag".into(), i(2)),
                    ("alt".into(), Expr::Constr { enum_name: "Opt".into(), variant: "Non".into(), ty: opt(boxt(tp("T"))), args: vec![], qualified: true }),
                ],
            },
        ),
    )));
    items.push(Item::Fn(fnd(
        "unwrg",
        &[("T", &[])],
        vec![("w", wr.clone())],
        tp("T"),
        blk(
            vec![Stmt::Let(Pat::Var("b".into()), Some(boxt(tp("T"))), Expr::Field(Box::new(var("w")), "inner".into()))],
            Expr::Match(
                Box::new(Expr::Field(Box::new(var("w")), "alt".into())),
                vec![
                    (Pat::Constr { enum_name: "Opt".into(), variant: "Som".into(), args: vec![Pat::Var("o".into())], qualified: true }, Expr::Field(Box::new(var("o")), "v".into())),
                    (Pat::Constr { enum_name: "Opt".into(), variant: "Non".into(), args: vec![], qualified: true }, Expr::Field(Box::new(var("b")), "v".into())),
                ],
            ),
        ),
    )));
    // the type parameter occurs only inside a type application that also has concrete arguments
    let res_ts = Ty::Enum("Res".into(), vec![tp("T"), Ty::Str]);
    items.push(Item::Fn(fnd(
        "isokg",
        &[("T", &[])],
        vec![("r", res_ts.clone())],
        Ty::Bool,
        blk(
            vec![],
            Expr::Match(
                Box::new(var("r")),
                vec![
                    (Pat::Constr { enum_name: "Res".into(), variant: "Okv".into(), args: vec![Pat::Wild], qualified: true }, Expr::Bool(true)),
                    (Pat::Constr { enum_name: "Res".into(), variant: "Errv".into(), args: vec![Pat::Wild], qualified: true }, Expr::Bool(false)),
                ],
            ),
        ),
    )));
    let res_it = Ty::Enum("Res".into(), vec![I32, tp("T")]);
    items.push(Item::Fn(fnd(
        "iserrg",
        &[("T", &[])],
        vec![("r", res_it.clone())],
        I32,
        blk(
            vec![],
            Expr::Match(
                Box::new(var("r")),
                vec![
                    (Pat::Constr { enum_name: "Res".into(), variant: "Okv".into(), args: vec![Pat::Var("k".into())], qualified: true }, var("k")),
                    (Pat::Constr { enum_name: "Res".into(), variant: "Errv".into(), args: vec![Pat::Wild], qualified: true }, i(0 - 1)),
                ],
            ),
        ),
    )));
    // one type parameter is fixed by an argument, the other occurs only in the result type (the expected type of the
    // call fixes it): every (T, E) pair is its own instance (added after a seeded change that dropped result-only
    // parameters from the substitution once an argument had bound another one)
    let res_te = Ty::Enum("Res".into(), vec![tp("T"), tp("E")]);
    items.push(Item::Fn(fnd("okg", &[("T", &[]), ("E", &[])], vec![("x", t.clone())], res_te.clone(), blk(vec![], Expr::Constr { enum_name: "Res".into(), variant: "Okv".into(), ty: res_te.clone(), args: vec![var("x")], qualified: true }))));
    items.push(Item::Fn(fnd("errg", &[("T", &[]), ("E", &[])], vec![("e", tp("E"))], res_te.clone(), blk(vec![], Expr::Constr { enum_name: "Res".into(), variant: "Errv".into(), ty: res_te.clone(), args: vec![var("e")], qualified: true }))));
    items.push(Item::Fn(fnd(
        "tagg",
        &[("T", &[]), ("U", &[])],
        vec![("x", t.clone())],
        Ty::Tuple(vec![t.clone(), opt(u.clone())]),
        blk(vec![], Expr::Tuple(vec![var("x"), Expr::Constr { enum_name: "Opt".into(), variant: "Non".into(), ty: opt(u.clone()), args: vec![], qualified: true }])),
    )));
    // the same through a struct: B only in the result
    items.push(Item::Fn(fnd(
        "halfpr",
        &[("A", &[]), ("B", &[])],
        vec![("a", tp("A"))],
        Ty::Tuple(vec![tp("A"), opt(Ty::Struct("Pr".into(), vec![tp("A"), tp("B")]))]),
        blk(vec![], Expr::Tuple(vec![var("a"), Expr::Constr { enum_name: "Opt".into(), variant: "Non".into(), ty: opt(Ty::Struct("Pr".into(), vec![tp("A"), tp("B")])), args: vec![], qualified: true }])),
    )));
    // a generic function that calls itself with its type parameters swapped: instantiating it at (X, Y) needs the
    // instance at (Y, X) too (added after a seeded change that bound a recursive call to the instance being specialised)
    items.push(Item::Fn(fnd(
        "swaprec",
        &[("A", &[]), ("B", &[])],
        vec![("a", tp("A")), ("b", tp("B")), ("n", I32)],
        I32,
        blk(
            vec![],
            Expr::If(
                Box::new(bin(BinOp::Le, var("n"), i(0))),
                Box::new(blk(vec![], i(0))),
                Box::new(blk(vec![], bin(BinOp::Add, i(1), Expr::Call { name: "swaprec".into(), targs: vec![("A".into(), tp("B")), ("B".into(), tp("A"))], args: vec![var("b"), var("a"), bin(BinOp::Sub, var("n"), i(1))] }))),
            ),
        ),
    )));
    items.push(Item::Fn(fnd(
        "hitsg",
        &[("T", &[])],
        vec![("c", Ty::Struct("Ch".into(), vec![tp("T")]))],
        I32,
        blk(
            vec![],
            Expr::Match(
                Box::new(Expr::Field(Box::new(var("c")), "hits".into())),
                vec![
                    (Pat::Constr { enum_name: "Opt".into(), variant: "Som".into(), args: vec![Pat::Var("k".into())], qualified: true }, var("k")),
                    (Pat::Constr { enum_name: "Opt".into(), variant: "Non".into(), args: vec![], qualified: true }, i(0)),
                ],
            ),
        ),
    )));
    // monomorphic unary functions used as callbacks
    items.push(Item::Fn(fnd("i_to_s", &[], vec![("x", I32)], Ty::Str, blk(vec![], bin(BinOp::Add, s("#"), bi("int32_to_string", vec![var("x")]))))));
    items.push(Item::Fn(fnd("i_to_b", &[], vec![("x", I32)], Ty::Bool, blk(vec![], bin(BinOp::Gt, var("x"), i(2))))));
    items.push(Item::Fn(fnd("i_to_u", &[], vec![("x", I32)], Ty::Unit, blk(vec![], bi("string_println", vec![bin(BinOp::Add, s("cb"), bi("int32_to_string", vec![var("x")]))])))));
    items.push(Item::Fn(fnd("i_to_i", &[], vec![("x", I32)], I32, blk(vec![], bin(BinOp::Mul, var("x"), i(3))))));
    items.push(Item::Fn(fnd("s_to_i", &[], vec![("x", Ty::Str)], I32, blk(vec![], bi("string_len", vec![var("x")])))));
    items.push(Item::Fn(fnd("s_to_s", &[], vec![("x", Ty::Str)], Ty::Str, blk(vec![], bin(BinOp::Add, var("x"), s("!"))))));
    items.push(Item::Fn(fnd("b_to_s", &[], vec![("x", Ty::Bool)], Ty::Str, blk(vec![], bi("bool_to_string", vec![var("x")])))));
    items.push(Item::Fn(fnd("b_to_b", &[], vec![("x", Ty::Bool)], Ty::Bool, blk(vec![], Expr::Unary(UnOp::Not, Box::new(var("x")))))));
    items.push(Item::Fn(fnd("u_to_i", &[], vec![], I32, blk(vec![Stmt::Let(Pat::Wild, None, bi("string_println", vec![s("thunk")]))], i(7)))));
    items.push(Item::Fn(fnd("u_to_s", &[], vec![], Ty::Str, blk(vec![Stmt::Let(Pat::Wild, None, bi("string_println", vec![s("thunk_s")]))], s("k")))));
    Lib { items, structs, enums }
}

/// callbacks available: (param types, result type, function name)
fn callbacks() -> Vec<(Vec<Ty>, Ty, &'static str)> {
    vec![
        (vec![I32], Ty::Str, "i_to_s"),
        (vec![I32], Ty::Bool, "i_to_b"),
        (vec![I32], Ty::Unit, "i_to_u"),
        (vec![I32], I32, "i_to_i"),
        (vec![Ty::Str], I32, "s_to_i"),
        (vec![Ty::Str], Ty::Str, "s_to_s"),
        (vec![Ty::Bool], Ty::Str, "b_to_s"),
        (vec![Ty::Bool], Ty::Bool, "b_to_b"),
        (vec![], I32, "u_to_i"),
        (vec![], Ty::Str, "u_to_s"),
    ]
}

fn type_pool() -> Vec<Ty> {
    vec![
        I32,
        Ty::Bool,
        Ty::Str,
        Ty::Unit,
        Ty::Int(IntTy::U8),
        Ty::Int(IntTy::I64),
        Ty::Int(IntTy::I16),
        Ty::Tuple(vec![I32, Ty::Bool]),
        Ty::Array(Box::new(I32), 2),
        Ty::Vec(Box::new(Ty::Str)),
        Ty::Ref(Box::new(I32)),
        Ty::Struct("Pt".into(), vec![]),
        Ty::Enum("Col".into(), vec![]),
        opt(I32),
        boxt(Ty::Str),
        Ty::Tuple(vec![Ty::Str, opt(Ty::Bool)]),
    ]
}

struct Call {
    name: &'static str,
    targs: Vec<(String, Ty)>,
    args: Vec<Expr>,
    ret: Ty,
}

fn gen_calls(g: &mut Gen, n: usize) -> Vec<Call> {
    let pool = type_pool();
    let cbs = callbacks();
    let showable: Vec<Ty> = vec![I32, Ty::Bool, Ty::Str, Ty::Struct("Pt".into(), vec![])];
    let mut out = Vec::new();
    for _ in 0..n {
        let t = g.rng.pick_ref(&pool).clone();
        let u = g.rng.pick_ref(&pool).clone();
        let val = |g: &mut Gen, ty: &Ty| g.gen_expr(ty, 1, &[]);
        let which = g.rng.below(43);
        let c = match which {
            0 => Call { name: "idg", targs: vec![("T".into(), t.clone())], args: vec![val(g, &t)], ret: t.clone() },
            1 => Call { name: "pairg", targs: vec![("T".into(), t.clone()), ("U".into(), u.clone())], args: vec![val(g, &t), val(g, &u)], ret: Ty::Tuple(vec![t.clone(), u.clone()]) },
            2 => Call { name: "swapg", targs: vec![("T".into(), t.clone()), ("U".into(), u.clone())], args: vec![Expr::Tuple(vec![val(g, &t), val(g, &u)])], ret: Ty::Tuple(vec![u.clone(), t.clone()]) },
            3 | 4 | 5 | 6 => {
                let unary: Vec<&(Vec<Ty>, Ty, &str)> = cbs.iter().filter(|c| c.0.len() == 1).collect();
                let (ps, r, f) = (*g.rng.pick_ref(&unary)).clone();
                let a = ps[0].clone();
                match which {
                    3 => Call { name: "applyg", targs: vec![("T".into(), a.clone()), ("U".into(), r.clone())], args: vec![val(g, &a), Expr::FnRef(f.into())], ret: r },
                    4 | 5 => Call { name: "eachg", targs: vec![("T".into(), a.clone()), ("U".into(), r.clone())], args: vec![val(g, &Ty::Vec(Box::new(a.clone()))), Expr::FnRef(f.into())], ret: I32 },
                    _ => Call { name: "mapoptg", targs: vec![("T".into(), a.clone()), ("U".into(), r.clone())], args: vec![val(g, &opt(a.clone())), Expr::FnRef(f.into())], ret: opt(r) },
                }
            }
            7 => {
                let thunks: Vec<&(Vec<Ty>, Ty, &str)> = cbs.iter().filter(|c| c.0.is_empty()).collect();
                let (_, r, f) = (*g.rng.pick_ref(&thunks)).clone();
                Call { name: "twiceg", targs: vec![("T".into(), r)], args: vec![Expr::FnRef(f.into())], ret: Ty::Unit }
            }
            8 => Call { name: "wrapg", targs: vec![("T".into(), t.clone())], args: vec![val(g, &t)], ret: opt(t.clone()) },
            9 => Call { name: "unwrapg", targs: vec![("T".into(), t.clone())], args: vec![val(g, &opt(t.clone())), val(g, &t)], ret: t.clone() },
            10 => Call { name: "firstg", targs: vec![("T".into(), t.clone())], args: vec![val(g, &Ty::Array(Box::new(t.clone()), 2))], ret: t.clone() },
            11 => Call { name: "derefg", targs: vec![("T".into(), t.clone())], args: vec![val(g, &Ty::Ref(Box::new(t.clone())))], ret: t.clone() },
            12 => Call { name: "vlastg", targs: vec![("T".into(), t.clone())], args: vec![val(g, &Ty::Vec(Box::new(t.clone()))), val(g, &t)], ret: t.clone() },
            13 => Call { name: "dupg", targs: vec![("T".into(), t.clone())], args: vec![val(g, &t)], ret: Ty::Tuple(vec![t.clone(), t.clone()]) },
            14 => Call { name: "nestg", targs: vec![("T".into(), t.clone())], args: vec![val(g, &t)], ret: opt(Ty::Tuple(vec![t.clone(), t.clone()])) },
            15 => Call { name: "countg", targs: vec![("T".into(), t.clone())], args: vec![val(g, &t), i(g.rng.below(4) as i128)], ret: I32 },
            16 => {
                let a = g.rng.pick_ref(&showable).clone();
                Call { name: "showg", targs: vec![("T".into(), a.clone())], args: vec![val(g, &a)], ret: Ty::Str }
            }
            17 => {
                let a = g.rng.pick_ref(&showable).clone();
                Call { name: "weighg", targs: vec![("T".into(), a.clone())], args: vec![val(g, &a), i(g.rng.below(9) as i128)], ret: I32 }
            }
            21 | 22 => {
                let rt = Ty::Enum("Res".into(), vec![t.clone(), Ty::Str]);
                Call { name: "isokg", targs: vec![("T".into(), t.clone())], args: vec![val(g, &rt)], ret: Ty::Bool }
            }
            23 | 24 => {
                let rt = Ty::Enum("Res".into(), vec![I32, t.clone()]);
                Call { name: "iserrg", targs: vec![("T".into(), t.clone())], args: vec![val(g, &rt)], ret: I32 }
            }
            25 => Call { name: "arr2g", targs: vec![("T".into(), t.clone())], args: vec![val(g, &t), val(g, &t)], ret: Ty::Array(Box::new(t.clone()), 2) },
            26 => Call { name: "pickg", targs: vec![("T".into(), t.clone())], args: vec![val(g, &t), val(g, &t), i(g.rng.below(2) as i128)], ret: t.clone() },
            27 => Call { name: "cellg", targs: vec![("T".into(), t.clone())], args: vec![val(g, &t), val(g, &t)], ret: t.clone() },
            28 => Call { name: "vec2g", targs: vec![("T".into(), t.clone())], args: vec![val(g, &t), val(g, &t)], ret: Ty::Vec(Box::new(t.clone())) },
            29 => Call { name: "constg", targs: vec![("T".into(), t.clone())], args: vec![val(g, &t), val(g, &t)], ret: t.clone() },
            30 => Call { name: "firstb", targs: vec![("B".into(), t.clone())], args: vec![val(g, &Ty::Struct("Pr".into(), vec![t.clone(), I32]))], ret: t.clone() },
            31 => Call { name: "flipba", targs: vec![("B".into(), t.clone()), ("A".into(), u.clone())], args: vec![val(g, &Ty::Struct("Pr".into(), vec![t.clone(), u.clone()]))], ret: Ty::Struct("Pr".into(), vec![u.clone(), t.clone()]) },
            32 => Call { name: "idfirstb", targs: vec![("B".into(), t.clone())], args: vec![val(g, &Ty::Struct("Pr".into(), vec![t.clone(), Ty::Str]))], ret: t.clone() },
            33 | 34 => Call { name: "okg", targs: vec![("T".into(), t.clone()), ("E".into(), u.clone())], args: vec![val(g, &t)], ret: Ty::Enum("Res".into(), vec![t.clone(), u.clone()]) },
            35 | 36 => Call { name: "errg", targs: vec![("T".into(), t.clone()), ("E".into(), u.clone())], args: vec![val(g, &u)], ret: Ty::Enum("Res".into(), vec![t.clone(), u.clone()]) },
            37 => Call { name: "tagg", targs: vec![("T".into(), t.clone()), ("U".into(), u.clone())], args: vec![val(g, &t)], ret: Ty::Tuple(vec![t.clone(), opt(u.clone())]) },
            38 => Call { name: "halfpr", targs: vec![("A".into(), t.clone()), ("B".into(), u.clone())], args: vec![val(g, &t)], ret: Ty::Tuple(vec![t.clone(), opt(Ty::Struct("Pr".into(), vec![t.clone(), u.clone()]))]) },
            39 | 40 => Call { name: "swaprec", targs: vec![("A".into(), t.clone()), ("B".into(), u.clone())], args: vec![val(g, &t), val(g, &u), i(g.rng.below(4) as i128)], ret: I32 },
            41 | 42 => Call { name: "hitsg", targs: vec![("T".into(), t.clone())], args: vec![val(g, &Ty::Struct("Ch".into(), vec![t.clone()]))], ret: I32 },
            19 | 20 => Call { name: "unwrg", targs: vec![("T".into(), t.clone())], args: vec![Expr::Call { name: "mkwrg".into(), targs: vec![("T".into(), t.clone())], args: vec![val(g, &t)] }], ret: t.clone() },
            _ => {
                let a = g.rng.pick_ref(&showable).clone();
                let b = g.rng.pick_ref(&showable).clone();
                Call { name: "show2g", targs: vec![("T".into(), a.clone()), ("U".into(), b.clone())], args: vec![val(g, &a), val(g, &b)], ret: Ty::Str }
            }
        };
        out.push(c);
    }
    out
}

pub fn build(rng: &mut Rng, ncalls: usize) -> (Program, BTreeMap<&'static str, BTreeSet<String>>) {
    let lib = library();
    let mut f = Features::base();
    f.ticks = false;
    f.closures = false;
    f.matches = false;
    f.traits = false;
    f.inherent = false;
    f.generic_fns = false;
    f.dyn_traits = false;
    let mut g = Gen::new(rng, f);
    g.structs = lib.structs.clone();
    g.enums = lib.enums.clone();
    let calls = gen_calls(&mut g, ncalls);
    let mut used: BTreeMap<&'static str, BTreeSet<String>> = BTreeMap::new();
    let mut stmts = Vec::new();
    for (k, c) in calls.iter().enumerate() {
        used.entry(c.name).or_default().insert(c.targs.iter().map(|(_, t)| t.src()).collect::<Vec<_>>().join(","));
        let res = format!("r{}", k);
        stmts.push(Stmt::Let(Pat::Var(res.clone()), Some(c.ret.clone()), Expr::Call { name: c.name.into(), targs: c.targs.clone(), args: c.args.clone() }));
        let shown = g.show(Expr::Var(res), &c.ret);
        stmts.push(Stmt::Let(Pat::Wild, None, bi("string_println", vec![bin(BinOp::Add, s(&format!("{}=", c.name)), shown)])));
    }
    // generic inherent methods on Bx[A]
    for (k, a) in [I32, Ty::Str, Ty::Bool].iter().enumerate() {
        let v = g.gen_expr(&boxt(a.clone()), 1, &[]);
        let bn = format!("bx{}", k);
        stmts.push(Stmt::Let(Pat::Var(bn.clone()), Some(boxt(a.clone())), v));
        let got = g.show(Expr::MethodCall { recv: Box::new(Expr::Var(bn.clone())), method: "get".into(), args: vec![] }, a);
        stmts.push(Stmt::Let(Pat::Wild, None, bi("string_println", vec![bin(BinOp::Add, s("get="), got)])));
        stmts.push(Stmt::Let(Pat::Wild, None, bi("string_println", vec![bi("int32_to_string", vec![Expr::AssocCall { head: "Bx".into(), method: "count".into(), args: vec![Expr::Var(bn), i(k as i128)] }])])));
    }
    let mut prog = Program::default();
    prog.items = lib.items;
    for fdecl in std::mem::take(&mut g.show_items) {
        prog.items.push(Item::Fn(fdecl));
    }
    prog.items.push(Item::Fn(FnDecl { name: "main".into(), tparams: vec![], params: vec![], ret: Ty::Unit, body: Expr::Block(stmts, Some(Box::new(Expr::Unit))) }));
    (prog, used)
}

fn mono_monitor(case: &mut Case, label: &str, src: &str, used: &BTreeMap<&'static str, BTreeSet<String>>) {
    let c = match runner::guard(|| capi::compile_single(src)) {
        Ok(Ok(c)) => c,
        _ => return,
    };
    let mut stats = IrStats::default();
    let findings = irmon::residue_and_names(&c, &mut stats);
    case.count("mono_fns_checked", stats.fns);
    let mut seen = BTreeSet::new();
    for f in findings {
        if seen.insert(f.sig.clone()) {
            case.violation(format!("C07:{}", f.sig), f.summary.clone(), json!({"label": label, "source": src, "finding": f.summary}));
        }
    }
    for (g, tuples) in used {
        let n = c.mono.toplevels.iter().filter(|f| f.name == *g || f.name.starts_with(&format!("{}__", g))).count();
        if n < tuples.len() {
            case.violation(
                format!("C07:missing-instances:{}", g),
                format!("{} is used at {} distinct type tuples {:?} but only {} specialised functions exist after mono", g, tuples.len(), tuples, n),
                json!({"label": label, "source": src, "mono_functions": c.mono.toplevels.iter().map(|f| f.name.clone()).filter(|n| n.starts_with(g)).collect::<Vec<_>>()}),
            );
        }
        case.count("instantiations", tuples.len() as u64);
        for t in tuples {
            case.nontrivial(hash_str(&format!("{}[{}]", g, t)));
        }
    }
}

/// Generic (and, as controls, plain) types that contain their own instance behind an indirection - Vec, Ref, a tuple or
/// array inside a Vec, a function type, a generic enum, mutual recursion, swapped parameters - each built and observed at
/// two instantiations: (name, source, expected stdout). Type monomorphisation has to terminate on them and give every
/// instantiation its own type (added after a seeded change that memoised struct instances too late; C04 feeds the
/// same programs to its crash monitor).
pub fn recursive_type_programs() -> Vec<(String, String, String)> {
    let mut out: Vec<(String, String, String)> = Vec::new();
    // (name, definitions, element type text E(T) of the children vector, expression that wraps a child `k`, count expression)
    let shapes: [(&str, &str, &str, &str); 6] = [
        ("vec", "struct Rose[T] { value: T, kids: Vec[Rose[T]] }\n", "Rose[T]", "k"),
        ("vec-of-tuple", "struct Rose[T] { value: T, kids: Vec[(Rose[T], int32)] }\n", "(Rose[T], int32)", "(k, 5)"),
        ("vec-of-array", "struct Rose[T] { value: T, kids: Vec[[Rose[T]; 1]] }\n", "[Rose[T]; 1]", "[k]"),
        ("vec-of-ref", "struct Rose[T] { value: T, kids: Vec[Ref[Rose[T]]] }\n", "Ref[Rose[T]]", "ref(k)"),
        ("vec-of-generic-enum", "enum Opt[T] { Som(T), Non }\nstruct Rose[T] { value: T, kids: Vec[Opt[Rose[T]]] }\n", "Opt[Rose[T]]", "Opt::Som(k)"),
        ("vec-of-generic-struct", "struct Bx[A] { v: A }\nstruct Rose[T] { value: T, kids: Vec[Bx[Rose[T]]] }\n", "Bx[Rose[T]]", "Bx { v: k }"),
    ];
    for (name, defs, elem, wrap) in shapes {
        let at = |t: &str| elem.replace("[T]", &format!("[{}]", t));
        let src = format!(
            "{defs}fn count[T](r: Rose[T]) -> int32 {{ 1 + vec_len(r.kids) }}\nfn main() -> unit {{\n    let k: Rose[int32] = Rose {{ value: 1, kids: vec_new() }};\n    let ks: Vec[{ei}] = vec_push(vec_new(), {wrap});\n    let root: Rose[int32] = Rose {{ value: 2, kids: ks }};\n    let _ = string_println(int32_to_string(count(root)) + \":\" + int32_to_string(root.value));\n    let k: Rose[string] = Rose {{ value: \"a\", kids: vec_new() }};\n    let ks: Vec[{es}] = vec_push(vec_push(vec_new(), {wrap}), {wrap});\n    let sroot: Rose[string] = Rose {{ value: \"b\", kids: ks }};\n    let _ = string_println(int32_to_string(count(sroot)) + \":\" + sroot.value);\n    ()\n}}\n",
            defs = defs,
            ei = at("int32"),
            es = at("string"),
            wrap = wrap
        );
        out.push((format!("struct-through-{}", name), src, "2:2\n3:b\n".to_string()));
    }
    // two parameters, one of them swapped on the way down (finitely many instances: Sw[int32, string], Sw[string, int32])
    out.push((
        "struct-swapped-parameters".into(),
        "struct Sw[A, B] { a: A, kids: Vec[Sw[B, A]] }\nfn depth[A, B](s: Sw[A, B]) -> int32 { 1 + vec_len(s.kids) }\nfn main() -> unit {\n    let inner: Sw[string, int32] = Sw { a: \"in\", kids: vec_new() };\n    let outer: Sw[int32, string] = Sw { a: 7, kids: vec_push(vec_new(), inner) };\n    let _ = string_println(int32_to_string(depth(outer)) + \":\" + int32_to_string(outer.a));\n    let lone: Sw[bool, bool] = Sw { a: true, kids: vec_new() };\n    let _ = string_println(int32_to_string(depth(lone)) + \":\" + bool_to_string(lone.a));\n    ()\n}\n".into(),
        "2:7\n1:true\n".into(),
    ));
    // mutual recursion between two generic structs
    out.push((
        "struct-mutual".into(),
        "struct Ev[T] { v: T, odds: Vec[Od[T]] }\nstruct Od[T] { evens: Vec[Ev[T]] }\nfn width[T](e: Ev[T]) -> int32 { vec_len(e.odds) }\nfn main() -> unit {\n    let o: Od[int32] = Od { evens: vec_new() };\n    let e: Ev[int32] = Ev { v: 3, odds: vec_push(vec_new(), o) };\n    let _ = string_println(int32_to_string(width(e)) + \":\" + int32_to_string(e.v));\n    let es: Ev[string] = Ev { v: \"s\", odds: vec_new() };\n    let _ = string_println(int32_to_string(width(es)) + \":\" + es.v);\n    ()\n}\n".into(),
        "1:3\n0:s\n".into(),
    ));
    // generic enum recursive through Vec, and directly
    out.push((
        "enum-through-vec".into(),
        "enum Tree[T] { Leaf(T), Node(Vec[Tree[T]]) }\nfn size[T](t: Tree[T]) -> int32 { match t { Tree::Leaf(_) => 1, Tree::Node(ks) => 1 + vec_len(ks) } }\nfn main() -> unit {\n    let l: Tree[int32] = Tree::Leaf(4);\n    let n: Tree[int32] = Tree::Node(vec_push(vec_push(vec_new(), l), Tree::Leaf(5)));\n    let _ = string_println(int32_to_string(size(n)));\n    let s: Tree[string] = Tree::Leaf(\"x\");\n    let _ = string_println(int32_to_string(size(s)));\n    ()\n}\n".into(),
        "3\n1\n".into(),
    ));
    out.push((
        "enum-direct".into(),
        "enum Lst[T] { Nil, Cons(T, Lst[T]) }\nfn len[T](l: Lst[T]) -> int32 { match l { Lst::Nil => 0, Lst::Cons(_, t) => 1 + len(t) } }\nfn main() -> unit {\n    let a: Lst[int32] = Lst::Cons(1, Lst::Cons(2, Lst::Nil));\n    let _ = string_println(int32_to_string(len(a)));\n    let b: Lst[bool] = Lst::Cons(true, Lst::Nil);\n    let _ = string_println(int32_to_string(len(b)));\n    ()\n}\n".into(),
        "2\n1\n".into(),
    ));
    // control: the same shape without type parameters
    out.push((
        "plain-struct-through-vec".into(),
        "struct Nd { v: int32, kids: Vec[Nd] }\nfn count(r: Nd) -> int32 { 1 + vec_len(r.kids) }\nfn main() -> unit {\n    let k: Nd = Nd { v: 1, kids: vec_new() };\n    let root: Nd = Nd { v: 2, kids: vec_push(vec_new(), k) };\n    let _ = string_println(int32_to_string(count(root)) + \":\" + int32_to_string(root.v));\n    ()\n}\n".into(),
        "2:2\n".into(),
    ));
    out
}

fn run(ctx: &mut Ctx) {
    let tier = ctx.tier;
    let seed = ctx.seed;
    if ctx.replay_input.is_some() {
        println!("replay: the replay file stores the full source and both outputs");
        return;
    }
    let opts = DiffOpts { prop: "C07", vet_is_violation: true, budget: 1_000_000, print: PrintOpts::default() };
    let n = tier.pickn(120u64, 4_000u64) / ctx.nshards as u64 + 1;
    for j in 0..n {
        let mut rng = Rng::keyed(seed, "c07-lib", ctx.shard as u64, j);
        let (prog, used) = build(&mut rng, 14);
        let src = print_program(&prog, PrintOpts::default());
        let label = format!("lib/{}/{}", ctx.shard, j);
        ctx.case(&label.clone(), |c| {
            match diff::run_diff(c, &prog, &label, &opts) {
                Outcome::Agree { .. } => c.count("programs_agree", 1),
                Outcome::Rejected(st, msg) => c.violation(format!("C07:generic-program-rejected:{}", diff::msg_class(&msg)), format!("a well-typed generic program is rejected ({}): {}", st, util::truncate(&msg, 200)), json!({"label": label, "source": src})),
                Outcome::Inconclusive(r) => diff::inconclusive_unless_crash(c, "C07", &r, &label, &src),
                Outcome::Violation => {}
            }
            mono_monitor(c, &label, &src, &used);
            if j < 1 {
                c.sample(json!({"workload":"generic_library","instantiations": used.iter().map(|(g, t)| format!("{}: {:?}", g, t)).collect::<Vec<_>>()}));
            }
        });
    }
    // random generic-heavy programs through the general generator
    let m = tier.pickn(150u64, 8_000u64) / ctx.nshards as u64 + 1;
    let opts2 = DiffOpts { prop: "C07", vet_is_violation: false, budget: 400_000, print: PrintOpts::default() };
    for j in 0..m {
        let mut rng = Rng::keyed(seed, "c07-gen", ctx.shard as u64, j);
        let mut f = Features::base();
        f.n_fns = 6;
        f.ticks = false;
        let (prog, _tags) = generate(&mut rng, f);
        let src = print_program(&prog, PrintOpts::default());
        let label = format!("gen/{}/{}", ctx.shard, j);
        ctx.case(&label.clone(), |c| {
            match diff::run_diff(c, &prog, &label, &opts2) {
                Outcome::Agree { .. } => c.count("random_programs_agree", 1),
                Outcome::Inconclusive(r) => c.inconclusive(diff::msg_class(&r)),
                _ => {}
            }
            mono_monitor(c, &label, &src, &BTreeMap::new());
        });
    }
    // `Self` nested in type constructors of trait method results, called through bounds at two receiver types
    for (i, (name, src, expected)) in crate::props::c03::self_position_programs().into_iter().enumerate() {
        if !ctx.mine(80_000 + i as u64) {
            continue;
        }
        let label = format!("self-position/{}", name);
        ctx.case(&label.clone(), |c| {
            if let Some((out, term, stderr)) = crate::exec::run_source(c, "C07", &label, &src, 2_000_000) {
                if out == expected && matches!(term, crate::goexec::Term::Ok) {
                    c.count("template_programs_agree", 1);
                    c.nontrivial(hash_str(&src));
                } else {
                    c.violation(format!("C07:bound-call-result-differs:self-position:{}", name), format!("{} prints {:?} ({:?} {}), expected {:?}", label, out, term, util::truncate(&stderr, 80), expected), json!({"label": label, "source": src, "stdout": out}));
                }
            }
        });
    }
    // a generic type with a generic inherent block and an instance-specific block that reuses a method name, in both
    // declaration orders, called at three instantiations (dot form): every instantiation gets its own instance
    for (i, generic_first) in [true, false].into_iter().enumerate() {
        if !ctx.mine(81_000 + i as u64) {
            continue;
        }
        let g = "impl[A, B] Pair[A, B] {\n    fn describe(self: Pair[A, B]) -> int32 { 1 }\n    fn only_generic(self: Pair[A, B]) -> int32 { 10 }\n}\n";
        let k = "impl Pair[int32, int32] {\n    fn describe(self: Pair[int32, int32]) -> int32 { self.a + self.b }\n    fn only_concrete(self: Pair[int32, int32]) -> int32 { self.a * self.b }\n}\n";
        let src = format!(
            "struct Pair[A, B] {{ a: A, b: B }}\n{}{}fn main() -> unit {{\n    let p: Pair[int32, bool] = Pair {{ a: 1, b: true }};\n    let q: Pair[string, string] = Pair {{ a: \"x\", b: \"y\" }};\n    let r: Pair[int32, int32] = Pair {{ a: 20, b: 22 }};\n    let _ = string_println(int32_to_string(p.describe()) + \" \" + int32_to_string(q.describe()) + \" \" + int32_to_string(r.describe()));\n    let _ = string_println(int32_to_string(p.only_generic()) + \" \" + int32_to_string(q.only_generic()) + \" \" + int32_to_string(r.only_generic()) + \" \" + int32_to_string(r.only_concrete()));\n    ()\n}}\n",
            if generic_first { g } else { k },
            if generic_first { k } else { g }
        );
        let expected = "1 1 42\n10 10 10 440\n";
        let label = format!("inherent-blocks/{}", if generic_first { "generic-then-concrete" } else { "concrete-then-generic" });
        ctx.case(&label.clone(), |c| {
            if let Some((out, term, stderr)) = crate::exec::run_source(c, "C07", &label, &src, 2_000_000) {
                if out == expected && matches!(term, crate::goexec::Term::Ok) {
                    c.count("template_programs_agree", 1);
                    c.nontrivial(hash_str(&src));
                } else {
                    c.violation(format!("C07:instance-differs:{}", label), format!("{} prints {:?} ({:?} {}), expected {:?}", label, out, term, util::truncate(&stderr, 80), expected), json!({"label": label, "source": src, "stdout": out}));
                }
            }
        });
    }
    for (i, (name, src, expected)) in recursive_type_programs().into_iter().enumerate() {
        if !ctx.mine(82_000 + i as u64) {
            continue;
        }
        let label = format!("recursive-types/{}", name);
        ctx.case(&label.clone(), |c| {
            match crate::exec::run_source(c, "C07", &label, &src, 2_000_000) {
                Some((out, term, stderr)) => {
                    if out == expected && matches!(term, crate::goexec::Term::Ok) {
                        c.count("recursive_type_programs_agree", 1);
                        c.nontrivial(hash_str(&src));
                    } else {
                        c.violation(format!("C07:instance-differs:{}", label), format!("{} prints {:?} ({:?} {}), expected {:?}", label, out, term, util::truncate(&stderr, 80), expected), json!({"label": label, "source": src}));
                    }
                }
                None => c.count("recursive_type_programs_not_run", 1),
            }
        });
    }
    capi::cleanup_scratch();
}
