//! Type representation shared by the checker and the interpreter.
//! Types are interned: two identical Go types always have the same `TypeId`.

use std::collections::HashMap;

pub type TypeId = u32;
pub type NamedId = u32;

#[derive(Clone, Copy, PartialEq, Eq, Hash, Debug)]
pub enum IntK {
    I8,
    I16,
    I32,
    I64,
    Int,
    U8,
    U16,
    U32,
    U64,
    Uint,
    Uintptr,
}

impl IntK {
    pub fn bits(self) -> u32 {
        match self {
            IntK::I8 | IntK::U8 => 8,
            IntK::I16 | IntK::U16 => 16,
            IntK::I32 | IntK::U32 => 32,
            _ => 64,
        }
    }
    pub fn signed(self) -> bool {
        matches!(self, IntK::I8 | IntK::I16 | IntK::I32 | IntK::I64 | IntK::Int)
    }
    pub fn name(self) -> &'static str {
        match self {
            IntK::I8 => "int8",
            IntK::I16 => "int16",
            IntK::I32 => "int32",
            IntK::I64 => "int64",
            IntK::Int => "int",
            IntK::U8 => "uint8",
            IntK::U16 => "uint16",
            IntK::U32 => "uint32",
            IntK::U64 => "uint64",
            IntK::Uint => "uint",
            IntK::Uintptr => "uintptr",
        }
    }
    /// Wraps a 64-bit pattern to this kind. Signed kinds are kept sign
    /// extended in the i64, unsigned kinds zero extended (u64 reinterpreted).
    #[inline]
    pub fn wrap(self, v: i64) -> i64 {
        match self {
            IntK::I8 => v as i8 as i64,
            IntK::I16 => v as i16 as i64,
            IntK::I32 => v as i32 as i64,
            IntK::I64 | IntK::Int => v,
            IntK::U8 => v as u8 as i64,
            IntK::U16 => v as u16 as i64,
            IntK::U32 => v as u32 as i64,
            IntK::U64 | IntK::Uint | IntK::Uintptr => v,
        }
    }
    pub fn min_max(self) -> (i128, i128) {
        let b = self.bits();
        if self.signed() {
            (-(1i128 << (b - 1)), (1i128 << (b - 1)) - 1)
        } else {
            (0, (1i128 << b) - 1)
        }
    }
}

#[derive(Clone, PartialEq, Eq, Hash, Debug)]
pub enum Ty {
    Invalid,
    Bool,
    Int(IntK),
    F32,
    F64,
    C64,
    C128,
    Str,
    UBool,
    UInt,
    URune,
    UFloat,
    UStr,
    UNil,
    Named(NamedId),
    Pointer(TypeId),
    Slice(TypeId),
    Array(u64, TypeId),
    Struct(Vec<(String, TypeId)>),
    /// params, results
    Func(Vec<TypeId>, Vec<TypeId>),
    /// sorted by method name; the TypeId is a Func type
    Interface(Vec<(String, TypeId)>),
    /// opaque extern type (underlying type of e.g. time.Time)
    Opaque(String),
}

#[derive(Clone, Debug)]
pub struct Method {
    pub name: String,
    /// signature without receiver
    pub sig: TypeId,
    /// index into the checker's function table (None for extern types)
    pub func: Option<u32>,
    pub line: u32,
}

#[derive(Clone, Debug)]
pub struct Named {
    pub name: String,
    /// "main" for user types, "time" for time.X, "" for universe (`error`)
    pub pkg: String,
    pub underlying: TypeId,
    pub methods: Vec<Method>,
}

#[derive(Clone, Debug)]
pub struct TypeTable {
    pub tys: Vec<Ty>,
    intern: HashMap<Ty, TypeId>,
    pub named: Vec<Named>,
}

pub const T_INVALID: TypeId = 0;
pub const T_BOOL: TypeId = 1;
pub const T_STRING: TypeId = 2;
pub const T_INT: TypeId = 3;
pub const T_INT32: TypeId = 4;
pub const T_UINT8: TypeId = 5;
pub const T_FLOAT64: TypeId = 6;
pub const T_UBOOL: TypeId = 7;
pub const T_UINT_C: TypeId = 8; // untyped int
pub const T_URUNE: TypeId = 9;
pub const T_UFLOAT: TypeId = 10;
pub const T_USTR: TypeId = 11;
pub const T_UNIL: TypeId = 12;
pub const T_INT64: TypeId = 13;
pub const T_FLOAT32: TypeId = 14;
pub const T_UINT: TypeId = 15;

impl TypeTable {
    pub fn new() -> TypeTable {
        let mut t = TypeTable { tys: Vec::new(), intern: HashMap::new(), named: Vec::new() };
        // order must match the T_* constants
        let fixed = [
            Ty::Invalid,
            Ty::Bool,
            Ty::Str,
            Ty::Int(IntK::Int),
            Ty::Int(IntK::I32),
            Ty::Int(IntK::U8),
            Ty::F64,
            Ty::UBool,
            Ty::UInt,
            Ty::URune,
            Ty::UFloat,
            Ty::UStr,
            Ty::UNil,
            Ty::Int(IntK::I64),
            Ty::F32,
            Ty::Int(IntK::Uint),
        ];
        for (i, ty) in fixed.into_iter().enumerate() {
            let id = t.mk(ty);
            debug_assert_eq!(id as usize, i);
        }
        t
    }

    pub fn mk(&mut self, ty: Ty) -> TypeId {
        if let Some(&id) = self.intern.get(&ty) {
            return id;
        }
        let id = self.tys.len() as TypeId;
        self.tys.push(ty.clone());
        self.intern.insert(ty, id);
        id
    }

    /// Creates a fresh named type whose underlying type is filled in later.
    pub fn new_named(&mut self, name: &str, pkg: &str) -> TypeId {
        let nid = self.named.len() as NamedId;
        self.named.push(Named { name: name.to_string(), pkg: pkg.to_string(), underlying: T_INVALID, methods: Vec::new() });
        self.mk(Ty::Named(nid))
    }

    pub fn get(&self, t: TypeId) -> &Ty {
        &self.tys[t as usize]
    }

    pub fn named_id(&self, t: TypeId) -> Option<NamedId> {
        match self.get(t) {
            Ty::Named(n) => Some(*n),
            _ => None,
        }
    }

    pub fn underlying(&self, t: TypeId) -> TypeId {
        match self.get(t) {
            Ty::Named(n) => self.named[*n as usize].underlying,
            _ => t,
        }
    }

    pub fn under(&self, t: TypeId) -> &Ty {
        self.get(self.underlying(t))
    }

    pub fn is_untyped(&self, t: TypeId) -> bool {
        matches!(self.get(t), Ty::UBool | Ty::UInt | Ty::URune | Ty::UFloat | Ty::UStr | Ty::UNil)
    }
    pub fn is_integer(&self, t: TypeId) -> bool {
        matches!(self.under(t), Ty::Int(_) | Ty::UInt | Ty::URune)
    }
    pub fn is_unsigned(&self, t: TypeId) -> bool {
        matches!(self.under(t), Ty::Int(k) if !k.signed())
    }
    pub fn is_float(&self, t: TypeId) -> bool {
        matches!(self.under(t), Ty::F32 | Ty::F64 | Ty::UFloat)
    }
    pub fn is_complex(&self, t: TypeId) -> bool {
        matches!(self.under(t), Ty::C64 | Ty::C128)
    }
    pub fn is_numeric(&self, t: TypeId) -> bool {
        self.is_integer(t) || self.is_float(t) || self.is_complex(t)
    }
    pub fn is_string(&self, t: TypeId) -> bool {
        matches!(self.under(t), Ty::Str | Ty::UStr)
    }
    pub fn is_boolean(&self, t: TypeId) -> bool {
        matches!(self.under(t), Ty::Bool | Ty::UBool)
    }
    pub fn is_interface(&self, t: TypeId) -> bool {
        matches!(self.under(t), Ty::Interface(_))
    }
    pub fn is_ordered(&self, t: TypeId) -> bool {
        self.is_integer(t) || self.is_float(t) || self.is_string(t)
    }
    pub fn int_kind(&self, t: TypeId) -> Option<IntK> {
        match self.under(t) {
            Ty::Int(k) => Some(*k),
            _ => None,
        }
    }
    /// Types whose zero value is nil.
    pub fn has_nil(&self, t: TypeId) -> bool {
        matches!(self.under(t), Ty::Pointer(_) | Ty::Slice(_) | Ty::Func(..) | Ty::Interface(_) | Ty::UNil)
    }
    /// "named type" in the sense of the assignability rule: defined types
    /// including the predeclared basic types.
    pub fn is_named_for_assign(&self, t: TypeId) -> bool {
        matches!(self.get(t), Ty::Named(_) | Ty::Bool | Ty::Int(_) | Ty::F32 | Ty::F64 | Ty::C64 | Ty::C128 | Ty::Str)
    }

    pub fn default_type(&self, t: TypeId) -> TypeId {
        match self.get(t) {
            Ty::UBool => T_BOOL,
            Ty::UInt => T_INT,
            Ty::URune => T_INT32,
            Ty::UFloat => T_FLOAT64,
            Ty::UStr => T_STRING,
            _ => t,
        }
    }

    pub fn comparable(&self, t: TypeId) -> bool {
        self.comparable_depth(t, 0)
    }
    fn comparable_depth(&self, t: TypeId, depth: u32) -> bool {
        if depth > 64 {
            return false;
        }
        match self.under(t) {
            Ty::Invalid => true,
            Ty::Bool | Ty::Int(_) | Ty::F32 | Ty::F64 | Ty::C64 | Ty::C128 | Ty::Str => true,
            Ty::UBool | Ty::UInt | Ty::URune | Ty::UFloat | Ty::UStr => true,
            Ty::UNil => false,
            Ty::Pointer(_) | Ty::Interface(_) => true,
            Ty::Slice(_) | Ty::Func(..) => false,
            Ty::Array(_, e) => self.comparable_depth(*e, depth + 1),
            Ty::Struct(fs) => fs.iter().all(|(_, ft)| self.comparable_depth(*ft, depth + 1)),
            Ty::Opaque(_) => false,
            Ty::Named(_) => false,
        }
    }

    /// reflect-style type string as used by fmt's bad verb output and the
    /// runtime's interface conversion panics.
    pub fn type_string(&self, t: TypeId) -> String {
        let mut s = String::new();
        self.write_type(t, &mut s, 0);
        s
    }
    fn write_type(&self, t: TypeId, s: &mut String, depth: u32) {
        if depth > 32 {
            s.push_str("...");
            return;
        }
        match self.get(t) {
            Ty::Invalid => s.push_str("invalid type"),
            Ty::Bool => s.push_str("bool"),
            Ty::Int(k) => s.push_str(k.name()),
            Ty::F32 => s.push_str("float32"),
            Ty::F64 => s.push_str("float64"),
            Ty::C64 => s.push_str("complex64"),
            Ty::C128 => s.push_str("complex128"),
            Ty::Str => s.push_str("string"),
            Ty::UBool => s.push_str("untyped bool"),
            Ty::UInt => s.push_str("untyped int"),
            Ty::URune => s.push_str("untyped rune"),
            Ty::UFloat => s.push_str("untyped float"),
            Ty::UStr => s.push_str("untyped string"),
            Ty::UNil => s.push_str("untyped nil"),
            Ty::Named(n) => {
                let nm = &self.named[*n as usize];
                if !nm.pkg.is_empty() {
                    s.push_str(&nm.pkg);
                    s.push('.');
                }
                s.push_str(&nm.name);
            }
            Ty::Pointer(e) => {
                s.push('*');
                self.write_type(*e, s, depth + 1);
            }
            Ty::Slice(e) => {
                s.push_str("[]");
                self.write_type(*e, s, depth + 1);
            }
            Ty::Array(n, e) => {
                s.push_str(&format!("[{}]", n));
                self.write_type(*e, s, depth + 1);
            }
            Ty::Struct(fs) => {
                if fs.is_empty() {
                    s.push_str("struct {}");
                } else {
                    s.push_str("struct { ");
                    for (i, (n, ft)) in fs.iter().enumerate() {
                        if i > 0 {
                            s.push_str("; ");
                        }
                        s.push_str(n);
                        s.push(' ');
                        self.write_type(*ft, s, depth + 1);
                    }
                    s.push_str(" }");
                }
            }
            Ty::Func(ps, rs) => {
                s.push_str("func(");
                for (i, p) in ps.iter().enumerate() {
                    if i > 0 {
                        s.push_str(", ");
                    }
                    self.write_type(*p, s, depth + 1);
                }
                s.push(')');
                if rs.len() == 1 {
                    s.push(' ');
                    self.write_type(rs[0], s, depth + 1);
                } else if rs.len() > 1 {
                    s.push_str(" (");
                    for (i, p) in rs.iter().enumerate() {
                        if i > 0 {
                            s.push_str(", ");
                        }
                        self.write_type(*p, s, depth + 1);
                    }
                    s.push(')');
                }
            }
            Ty::Interface(ms) => {
                if ms.is_empty() {
                    s.push_str("interface {}");
                } else {
                    s.push_str("interface { ");
                    for (i, (n, sig)) in ms.iter().enumerate() {
                        if i > 0 {
                            s.push_str("; ");
                        }
                        s.push_str(n);
                        let mut f = String::new();
                        self.write_type(*sig, &mut f, depth + 1);
                        s.push_str(f.strip_prefix("func").unwrap_or(&f));
                    }
                    s.push_str(" }");
                }
            }
            Ty::Opaque(n) => s.push_str(n),
        }
    }

    /// (size, align) on amd64; None when unknown (opaque) or absurdly large.
    pub fn size_align(&self, t: TypeId) -> Option<(u64, u64)> {
        self.size_align_depth(t, 0)
    }
    fn size_align_depth(&self, t: TypeId, depth: u32) -> Option<(u64, u64)> {
        if depth > 64 {
            return None;
        }
        Some(match self.under(t) {
            Ty::Bool => (1, 1),
            Ty::Int(k) => ((k.bits() / 8) as u64, (k.bits() / 8) as u64),
            Ty::F32 => (4, 4),
            Ty::F64 => (8, 8),
            Ty::C64 => (8, 4),
            Ty::C128 => (16, 8),
            Ty::Str => (16, 8),
            Ty::Pointer(_) | Ty::Func(..) => (8, 8),
            Ty::Interface(_) => (16, 8),
            Ty::Slice(_) => (24, 8),
            Ty::Array(n, e) => {
                let (s, a) = self.size_align_depth(*e, depth + 1)?;
                (s.checked_mul(*n)?, a)
            }
            Ty::Struct(fs) => {
                let mut off: u64 = 0;
                let mut maxa: u64 = 1;
                for (i, (_, ft)) in fs.iter().enumerate() {
                    let (s, a) = self.size_align_depth(*ft, depth + 1)?;
                    off = off.checked_add(a - 1)? / a * a;
                    off = off.checked_add(s)?;
                    maxa = maxa.max(a);
                    // a trailing zero-size field gets one byte of padding
                    if i + 1 == fs.len() && s == 0 && off > 0 {
                        off += 1;
                    }
                }
                (off.checked_add(maxa - 1)? / maxa * maxa, maxa)
            }
            _ => return None,
        })
    }

    pub fn has_pointers(&self, t: TypeId) -> bool {
        self.has_pointers_depth(t, 0)
    }
    fn has_pointers_depth(&self, t: TypeId, depth: u32) -> bool {
        if depth > 64 {
            return true;
        }
        match self.under(t) {
            Ty::Bool | Ty::Int(_) | Ty::F32 | Ty::F64 | Ty::C64 | Ty::C128 => false,
            Ty::Array(n, e) => *n > 0 && self.has_pointers_depth(*e, depth + 1),
            Ty::Struct(fs) => fs.iter().any(|(_, ft)| self.has_pointers_depth(*ft, depth + 1)),
            _ => true,
        }
    }

    pub fn find_method(&self, t: TypeId, name: &str) -> Option<&Method> {
        match self.get(t) {
            Ty::Named(n) => self.named[*n as usize].methods.iter().find(|m| m.name == name),
            _ => None,
        }
    }

    /// Method set lookup used for interface satisfaction: methods of T, and
    /// for *T (T named, non-interface) the methods of T (value receivers).
    pub fn method_for_iface(&self, t: TypeId, name: &str) -> Option<TypeId> {
        match self.get(t) {
            Ty::Named(n) => {
                let nm = &self.named[*n as usize];
                if let Ty::Interface(ms) = self.get(nm.underlying) {
                    return ms.iter().find(|(mn, _)| mn == name).map(|(_, s)| *s);
                }
                nm.methods.iter().find(|m| m.name == name).map(|m| m.sig)
            }
            Ty::Interface(ms) => ms.iter().find(|(mn, _)| mn == name).map(|(_, s)| *s),
            Ty::Pointer(e) => match self.get(*e) {
                Ty::Named(n) => {
                    let nm = &self.named[*n as usize];
                    if matches!(self.get(nm.underlying), Ty::Interface(_) | Ty::Pointer(_)) {
                        return None;
                    }
                    nm.methods.iter().find(|m| m.name == name).map(|m| m.sig)
                }
                _ => None,
            },
            _ => None,
        }
    }

    /// Returns None if `t` implements interface type `iface`, otherwise the
    /// name of a missing (or wrongly typed) method. Methods are examined in
    /// sorted order, like the runtime does.
    pub fn missing_method(&self, t: TypeId, iface: TypeId) -> Option<String> {
        let ms = match self.under(iface) {
            Ty::Interface(ms) => ms,
            _ => return None,
        };
        for (name, sig) in ms {
            match self.method_for_iface(t, name) {
                Some(s) if s == *sig => {}
                _ => return Some(name.clone()),
            }
        }
        None
    }
}

impl Default for TypeTable {
    fn default() -> Self {
        TypeTable::new()
    }
}
