//! Calls, conversions, builtins, selectors, index expressions, type
//! assertions and composite literals.

use super::expr::strip_parens;
use super::*;
use crate::num::BigInt;

impl<'a> Checker<'a> {
    pub(crate) fn check_call(&mut self, e: &Expr, fun: &Expr, args: &[Expr]) -> Operand {
        let inv = Operand::invalid(e.id, e.line);
        let f = match &strip_parens(fun).kind {
            ExprKind::Selector { x, sel } => {
                let r = self.check_selector(strip_parens(fun), x, sel, true);
                // record under the outer (possibly parenthesised) id as well
                let mut r2 = r.clone();
                r2.id = fun.id;
                if r2.is_value() {
                    self.record(&r2);
                }
                r
            }
            _ => self.check_expr(fun),
        };
        match f.mode {
            Mode::Invalid => {
                // still check arguments for their own errors
                for a in args {
                    let _ = self.check_expr(a);
                }
                inv
            }
            Mode::Type => self.check_conversion(e, f.ty, args),
            Mode::Builtin(b) => self.check_builtin(e, b, args),
            Mode::PkgFn(pf) => self.check_pkg_call(e, pf, args),
            Mode::Pkg => {
                self.err("not-callable", e.line, "use of package without selector");
                inv
            }
            Mode::NoValue | Mode::Multi => {
                self.err("not-callable", e.line, "invalid operation: cannot call non-function (no value)");
                inv
            }
            Mode::Nil => {
                self.err("not-callable", e.line, "invalid operation: cannot call non-function nil");
                inv
            }
            Mode::Const | Mode::Var | Mode::Value => {
                let (ps, rs) = match self.info.types.under(f.ty).clone() {
                    Ty::Func(ps, rs) => (ps, rs),
                    _ => {
                        self.err("not-callable", e.line, format!("invalid operation: cannot call non-function {}", self.describe(&f)));
                        for a in args {
                            let _ = self.check_expr(a);
                        }
                        return inv;
                    }
                };
                if args.len() == 1 && ps.len() > 1 {
                    // f(g()) with multi-value g
                    let a = self.check_expr(&args[0]);
                    if a.mode == Mode::Multi {
                        self.unsup(e.line, "multi-value call as argument list");
                        return inv;
                    }
                    self.err("arg-count", e.line, format!("not enough arguments in call (have 1, want {})", ps.len()));
                    return inv;
                }
                let mut ok = true;
                let mut ops = Vec::new();
                for a in args {
                    let o = self.check_value(a);
                    if o.is_invalid() {
                        ok = false;
                    }
                    ops.push(o);
                }
                if args.len() != ps.len() {
                    let what = if args.len() < ps.len() { "not enough" } else { "too many" };
                    self.err("arg-count", e.line, format!("{} arguments in call (have {}, want {})", what, args.len(), ps.len()));
                    return inv;
                }
                for (o, p) in ops.iter_mut().zip(ps.iter()) {
                    if !o.is_invalid() && !self.assign_to(o, *p, "argument") {
                        ok = false;
                    }
                }
                let _ = ok;
                match rs.len() {
                    0 => Operand { mode: Mode::NoValue, ty: T_INVALID, val: None, id: e.id, line: e.line },
                    1 => Operand { mode: Mode::Value, ty: rs[0], val: None, id: e.id, line: e.line },
                    _ => {
                        self.unsup(e.line, "call of function with multiple results");
                        Operand { mode: Mode::Multi, ty: T_INVALID, val: None, id: e.id, line: e.line }
                    }
                }
            }
        }
    }

    fn check_conversion(&mut self, e: &Expr, t: TypeId, args: &[Expr]) -> Operand {
        let inv = Operand::invalid(e.id, e.line);
        if args.len() != 1 {
            for a in args {
                let _ = self.check_expr(a);
            }
            let what = if args.is_empty() { "missing argument" } else { "too many arguments" };
            self.err("arg-count", e.line, format!("{} in conversion to {}", what, self.tstr(t)));
            return inv;
        }
        let mut x = self.check_value(&args[0]);
        if x.is_invalid() {
            return inv;
        }
        let tt = &self.info.types;
        let t_under = tt.under(t).clone();
        let t_is_basic_const = matches!(t_under, Ty::Bool | Ty::Int(_) | Ty::F32 | Ty::F64 | Ty::Str);
        if x.mode == Mode::Const && t_is_basic_const {
            let v = x.val.clone().unwrap();
            // constant conversion
            let numeric_src = matches!(v, ConstVal::Int(_) | ConstVal::Float(_));
            let res: Result<ConstVal, ConstErr> = match (&t_under, &v) {
                (Ty::Str, ConstVal::Int(i)) if tt.is_integer(x.ty) => {
                    // string(rune)
                    let cp = i.to_i64().filter(|c| *c >= 0 && *c <= 0x10FFFF && !(0xD800..0xE000).contains(c)).unwrap_or(0xFFFD);
                    let mut out = Vec::new();
                    crate::lex::push_rune(&mut out, cp as u32);
                    Ok(ConstVal::Str(out))
                }
                (Ty::Int(_) | Ty::F32 | Ty::F64, _) if numeric_src => {
                    // typed float constant to integer type: must be integral
                    representable(tt, &v, t)
                }
                (Ty::Str, ConstVal::Str(_)) | (Ty::Bool, ConstVal::Bool(_)) => Ok(v.clone()),
                _ => Err(ConstErr::Mismatch),
            };
            match res {
                Ok(nv) => {
                    return Operand { mode: Mode::Const, ty: t, val: Some(nv), id: e.id, line: e.line };
                }
                Err(ConstErr::Overflow) => {
                    self.err("const-overflow", e.line, format!("cannot convert {} (constant) to type {} (constant {} overflows {})", v.display(), self.tstr(t), v.display(), self.tstr(t)));
                    return inv;
                }
                Err(ConstErr::Truncated) => {
                    self.err("const-truncated", e.line, format!("cannot convert {} (constant) to type {} (truncated)", v.display(), self.tstr(t)));
                    return inv;
                }
                Err(ConstErr::TooBig) => {
                    self.unsup(e.line, "constant too large for exact evaluation");
                    return inv;
                }
                Err(_) => {
                    self.err("bad-conversion", e.line, format!("cannot convert {} to type {}", self.describe(&x), self.tstr(t)));
                    return inv;
                }
            }
        }
        // non-constant conversion (or constant to non-basic type)
        if self.info.types.is_untyped(x.ty) {
            // untyped value converted to a non-basic type or untyped bool/nil
            if x.mode == Mode::Nil {
                if self.info.types.has_nil(t) {
                    let mut xx = x.clone();
                    self.convert_untyped(&mut xx, t, "conversion");
                    return Operand { mode: Mode::Value, ty: t, val: None, id: e.id, line: e.line };
                }
                self.err("bad-conversion", e.line, format!("cannot convert nil to type {}", self.tstr(t)));
                return inv;
            }
            if self.info.types.is_interface(t) {
                if !self.assign_to(&mut x, t, "conversion") {
                    return inv;
                }
                return Operand { mode: Mode::Value, ty: t, val: None, id: e.id, line: e.line };
            }
            if !self.default_operand(&mut x, "conversion") {
                return inv;
            }
        }
        if !self.convertible(&x, t) {
            self.err("bad-conversion", e.line, format!("cannot convert {} to type {}", self.describe(&x), self.tstr(t)));
            return inv;
        }
        // conversions the interpreter does not implement
        let tt = &self.info.types;
        let xs = tt.under(x.ty).clone();
        match (&xs, &t_under) {
            (Ty::Str, Ty::Slice(el)) if matches!(tt.under(*el), Ty::Int(k) if k.signed() && k.bits() == 32) => {}
            (Ty::Str, Ty::Slice(_)) | (Ty::Slice(_), Ty::Str) => self.run_unsup(e.line, "string <-> slice conversion"),
            (Ty::Slice(_), Ty::Array(..)) | (Ty::Slice(_), Ty::Pointer(_)) => self.run_unsup(e.line, "slice to array conversion"),
            _ => {}
        }
        Operand { mode: Mode::Value, ty: t, val: None, id: e.id, line: e.line }
    }

    fn convertible(&self, x: &Operand, t: TypeId) -> bool {
        let tt = &self.info.types;
        if self.assignable(x, t) {
            return true;
        }
        let xu = tt.underlying(x.ty);
        let tu = tt.underlying(t);
        if xu == tu && !matches!(tt.get(xu), Ty::Opaque(_)) {
            return true;
        }
        // unnamed pointer types with identical underlying base types
        if let (Ty::Pointer(a), Ty::Pointer(b)) = (tt.get(x.ty), tt.get(t)) {
            if tt.underlying(*a) == tt.underlying(*b) {
                return true;
            }
        }
        let xnum = tt.is_integer(x.ty) || tt.is_float(x.ty);
        let tnum = tt.is_integer(t) || tt.is_float(t);
        if xnum && tnum {
            return true;
        }
        if tt.is_complex(x.ty) && tt.is_complex(t) {
            return true;
        }
        if tt.is_string(t) {
            if tt.is_integer(x.ty) {
                return true;
            }
            if let Ty::Slice(el) = tt.under(x.ty) {
                if matches!(tt.under(*el), Ty::Int(IntK::U8) | Ty::Int(IntK::I32)) {
                    return true;
                }
            }
        }
        if tt.is_string(x.ty) {
            if let Ty::Slice(el) = tt.under(t) {
                if matches!(tt.under(*el), Ty::Int(IntK::U8) | Ty::Int(IntK::I32)) {
                    return true;
                }
            }
        }
        false
    }

    fn check_builtin(&mut self, e: &Expr, b: Builtin, args: &[Expr]) -> Operand {
        let inv = Operand::invalid(e.id, e.line);
        let name = format!("{:?}", b).to_lowercase();
        let arity_err = |c: &mut Checker, have: usize, want: &str| {
            let what = if have == 0 || want.starts_with("at least") { "not enough" } else { "too many" };
            c.err("arg-count", e.line, format!("{} arguments for {}() (have {}, want {})", what, name, have, want));
        };
        match b {
            Builtin::Len | Builtin::Cap => {
                if args.len() != 1 {
                    for a in args {
                        let _ = self.check_expr(a);
                    }
                    let what = if args.is_empty() { "not enough" } else { "too many" };
                    self.err("arg-count", e.line, format!("{} arguments for {}()", what, name));
                    return inv;
                }
                let mut x = self.check_value(&args[0]);
                if x.is_invalid() {
                    return inv;
                }
                if x.mode == Mode::Nil {
                    self.err("type-mismatch", e.line, format!("invalid argument: nil for built-in {}", name));
                    return inv;
                }
                if self.info.types.is_untyped(x.ty) {
                    self.default_operand(&mut x, "argument");
                }
                let under = self.info.types.under(x.ty).clone();
                match under {
                    Ty::Str if b == Builtin::Len => {
                        if x.mode == Mode::Const {
                            if let Some(ConstVal::Str(s)) = &x.val {
                                return Operand { mode: Mode::Const, ty: T_INT, val: Some(ConstVal::Int(BigInt::from_u64(s.len() as u64))), id: e.id, line: e.line };
                            }
                        }
                        Operand { mode: Mode::Value, ty: T_INT, val: None, id: e.id, line: e.line }
                    }
                    Ty::Array(n, _) => {
                        if !has_call(&args[0]) {
                            return Operand { mode: Mode::Const, ty: T_INT, val: Some(ConstVal::Int(BigInt::from_u64(n))), id: e.id, line: e.line };
                        }
                        Operand { mode: Mode::Value, ty: T_INT, val: None, id: e.id, line: e.line }
                    }
                    Ty::Slice(_) => Operand { mode: Mode::Value, ty: T_INT, val: None, id: e.id, line: e.line },
                    Ty::Pointer(p) if matches!(self.info.types.under(p), Ty::Array(..)) => {
                        self.unsup(e.line, "len/cap of pointer to array");
                        inv
                    }
                    _ => {
                        self.err("type-mismatch", e.line, format!("invalid argument: {} for built-in {}", self.describe(&x), name));
                        inv
                    }
                }
            }
            Builtin::Append => {
                if args.is_empty() {
                    arity_err(self, 0, "at least 1");
                    return inv;
                }
                let s = self.check_value(&args[0]);
                let mut ops = Vec::new();
                for a in &args[1..] {
                    ops.push(self.check_value(a));
                }
                if s.is_invalid() {
                    return inv;
                }
                if s.mode == Mode::Nil {
                    self.err("type-mismatch", e.line, "first argument to append must be a typed slice; have untyped nil");
                    return inv;
                }
                let elem = match self.info.types.under(s.ty).clone() {
                    Ty::Slice(el) => el,
                    _ => {
                        self.err("type-mismatch", e.line, format!("invalid argument: {} is not a slice", self.describe(&s)));
                        return inv;
                    }
                };
                for o in ops.iter_mut() {
                    if !o.is_invalid() {
                        self.assign_to(o, elem, "argument to append");
                    }
                }
                Operand { mode: Mode::Value, ty: s.ty, val: None, id: e.id, line: e.line }
            }
            Builtin::Panic => {
                if args.len() != 1 {
                    for a in args {
                        let _ = self.check_expr(a);
                    }
                    let what = if args.is_empty() { "not enough" } else { "too many" };
                    self.err("arg-count", e.line, format!("{} arguments for panic()", what));
                    return inv;
                }
                let mut x = self.check_value(&args[0]);
                if !x.is_invalid() {
                    let any = self.t_any;
                    self.assign_to(&mut x, any, "argument to panic");
                }
                self.panic_calls.insert(e.id);
                Operand { mode: Mode::NoValue, ty: T_INVALID, val: None, id: e.id, line: e.line }
            }
            Builtin::Print | Builtin::Println => {
                for a in args {
                    let mut x = self.check_value(a);
                    if x.is_invalid() {
                        continue;
                    }
                    if x.mode == Mode::Nil {
                        self.err("type-mismatch", a.line, "use of untyped nil in argument to built-in print");
                        continue;
                    }
                    self.default_operand(&mut x, "argument");
                    if x.is_invalid() {
                        continue;
                    }
                    let u = self.info.types.under(x.ty).clone();
                    if !matches!(u, Ty::Bool | Ty::Int(_) | Ty::F32 | Ty::F64 | Ty::Str) {
                        self.unsup(a.line, "print/println of a non-basic value");
                    }
                }
                Operand { mode: Mode::NoValue, ty: T_INVALID, val: None, id: e.id, line: e.line }
            }
            Builtin::New => {
                if args.len() != 1 {
                    for a in args {
                        let _ = self.check_expr(a);
                    }
                    let what = if args.is_empty() { "not enough" } else { "too many" };
                    self.err("arg-count", e.line, format!("{} arguments for new()", what));
                    return inv;
                }
                let x = self.check_expr(&args[0]);
                match x.mode {
                    Mode::Invalid => inv,
                    Mode::Type => {
                        let pt = self.info.types.mk(Ty::Pointer(x.ty));
                        Operand { mode: Mode::Value, ty: pt, val: None, id: e.id, line: e.line }
                    }
                    _ => {
                        // Go 1.26 allows new(expr); older versions reject it
                        self.unsup(e.line, "new(expression)");
                        inv
                    }
                }
            }
            Builtin::Make => {
                if args.is_empty() {
                    arity_err(self, 0, "at least 1");
                    return inv;
                }
                let x = self.check_expr(&args[0]);
                let mut sizes = Vec::new();
                for a in &args[1..] {
                    sizes.push(self.check_value(a));
                }
                match x.mode {
                    Mode::Invalid => inv,
                    Mode::Type => {
                        if !matches!(self.info.types.under(x.ty), Ty::Slice(_)) {
                            self.err("type-mismatch", e.line, format!("invalid argument: cannot make {}; type must be slice, map, or channel", self.tstr(x.ty)));
                            return inv;
                        }
                        if sizes.is_empty() || sizes.len() > 2 {
                            self.err("arg-count", e.line, format!("invalid operation: make expects 2 or 3 arguments; found {}", args.len()));
                            return inv;
                        }
                        for s in sizes.iter_mut() {
                            if s.is_invalid() {
                                continue;
                            }
                            if !self.check_index_value(s, "size argument to make") {
                                return inv;
                            }
                        }
                        if sizes.len() == 2 {
                            if let (Some(ConstVal::Int(a)), Some(ConstVal::Int(c))) = (&sizes[0].val, &sizes[1].val) {
                                if sizes[0].mode == Mode::Const && sizes[1].mode == Mode::Const && a.cmp(c) == std::cmp::Ordering::Greater {
                                    self.err("type-mismatch", e.line, "invalid argument: length and capacity swapped");
                                    return inv;
                                }
                            }
                        }
                        Operand { mode: Mode::Value, ty: x.ty, val: None, id: e.id, line: e.line }
                    }
                    _ => {
                        self.err("type-mismatch", e.line, "first argument to make must be a type");
                        inv
                    }
                }
            }
            _ => {
                for a in args {
                    let _ = self.check_expr(a);
                }
                self.unsup(e.line, format!("builtin {}", name));
                inv
            }
        }
    }

    /// An index / size value: integer typed, or untyped constant
    /// representable as int; constants must not be negative.
    pub(crate) fn check_index_value(&mut self, x: &mut Operand, what: &str) -> bool {
        if x.is_invalid() {
            return false;
        }
        if x.mode == Mode::Nil {
            self.err("type-mismatch", x.line, format!("invalid argument: {} nil must be integer", what));
            return false;
        }
        let tt = &self.info.types;
        if x.mode == Mode::Const {
            let v = x.val.clone().unwrap();
            if !tt.is_numeric(x.ty) {
                self.err("type-mismatch", x.line, format!("invalid argument: {} {} must be integer", what, self.describe(x)));
                return false;
            }
            let i = match to_int(&v) {
                Ok(i) => i,
                Err(_) => {
                    self.err("const-truncated", x.line, format!("invalid argument: {} {} must be integer (truncated)", what, v.display()));
                    return false;
                }
            };
            if i.is_neg() {
                self.err("const-index-oob", x.line, format!("invalid argument: {} {} must not be negative", what, i.to_decimal()));
                return false;
            }
            if self.info.types.is_untyped(x.ty) {
                x.val = Some(ConstVal::Int(i));
                return self.convert_untyped(x, T_INT, what);
            }
            return true;
        }
        if tt.is_untyped(x.ty) || !tt.is_integer(x.ty) {
            self.err("type-mismatch", x.line, format!("invalid argument: {} {} must be integer", what, self.describe(x)));
            return false;
        }
        true
    }

    fn check_pkg_call(&mut self, e: &Expr, pf: PkgFn, args: &[Expr]) -> Operand {
        let inv = Operand::invalid(e.id, e.line);
        let mut ops = Vec::new();
        for a in args {
            ops.push(self.check_value(a));
        }
        let any = self.t_any;
        match pf {
            PkgFn::FmtPrint | PkgFn::FmtPrintln | PkgFn::FmtSprint | PkgFn::FmtSprintln => {
                for o in ops.iter_mut() {
                    if !o.is_invalid() {
                        self.assign_to(o, any, "argument");
                    }
                }
            }
            PkgFn::FmtPrintf | PkgFn::FmtSprintf => {
                if ops.is_empty() {
                    self.err("arg-count", e.line, "not enough arguments in call to fmt function (have 0, want at least 1)");
                    return inv;
                }
                let mut it = ops.iter_mut();
                let first = it.next().unwrap();
                if !first.is_invalid() {
                    self.assign_to(first, T_STRING, "argument");
                }
                for o in it {
                    if !o.is_invalid() {
                        self.assign_to(o, any, "argument");
                    }
                }
            }
            PkgFn::TimeUnix => {
                if ops.len() != 2 {
                    self.err("arg-count", e.line, format!("wrong number of arguments in call to time.Unix (have {}, want 2)", ops.len()));
                    return inv;
                }
                for o in ops.iter_mut() {
                    if !o.is_invalid() {
                        self.assign_to(o, T_INT64, "argument");
                    }
                }
                self.run_unsup(e.line, "package time");
                return Operand { mode: Mode::Value, ty: self.t_time, val: None, id: e.id, line: e.line };
            }
            PkgFn::TimeSleep => {
                if ops.len() != 1 {
                    self.err("arg-count", e.line, format!("wrong number of arguments in call to time.Sleep (have {}, want 1)", ops.len()));
                    return inv;
                }
                let d = self.t_duration;
                if !ops[0].is_invalid() {
                    self.assign_to(&mut ops[0], d, "argument");
                }
                self.run_unsup(e.line, "package time");
                return Operand { mode: Mode::NoValue, ty: T_INVALID, val: None, id: e.id, line: e.line };
            }
            PkgFn::TimeNow => {
                if !ops.is_empty() {
                    self.err("arg-count", e.line, "too many arguments in call to time.Now");
                    return inv;
                }
                self.run_unsup(e.line, "package time");
                return Operand { mode: Mode::Value, ty: self.t_time, val: None, id: e.id, line: e.line };
            }
            PkgFn::TimeSince => {
                if ops.len() != 1 {
                    self.err("arg-count", e.line, "wrong number of arguments in call to time.Since");
                    return inv;
                }
                let t = self.t_time;
                if !ops[0].is_invalid() {
                    self.assign_to(&mut ops[0], t, "argument");
                }
                self.run_unsup(e.line, "package time");
                return Operand { mode: Mode::Value, ty: self.t_duration, val: None, id: e.id, line: e.line };
            }
        }
        match pf {
            PkgFn::FmtSprint | PkgFn::FmtSprintln | PkgFn::FmtSprintf => Operand { mode: Mode::Value, ty: T_STRING, val: None, id: e.id, line: e.line },
            // (n int, err error)
            _ => Operand { mode: Mode::Multi, ty: T_INVALID, val: None, id: e.id, line: e.line },
        }
    }

    // ----------------------------------------------------------- selector

    pub(crate) fn check_selector(&mut self, e: &Expr, x: &Expr, sel: &Ident, in_call: bool) -> Operand {
        let mut r = self.check_selector_inner(e, x, sel, in_call);
        r.id = e.id;
        r.line = e.line;
        if r.is_value() {
            if r.ty == T_INVALID {
                r.mode = Mode::Invalid;
            } else {
                self.record(&r);
            }
        }
        if r.mode == Mode::Type {
            self.info.type_exprs.insert(e.id, r.ty);
        }
        r
    }

    fn check_selector_inner(&mut self, e: &Expr, x: &Expr, sel: &Ident, in_call: bool) -> Operand {
        let inv = Operand::invalid(e.id, e.line);
        // qualified identifier?
        if let ExprKind::Ident(pname) = &x.kind {
            match self.lookup(pname) {
                None => {
                    if pname != "_" && STD_PKGS.contains(&pname.as_str()) {
                        self.err("missing-import", x.line, format!("undefined: {} (package not imported)", pname));
                        return inv;
                    }
                }
                Some(o) => {
                    if let Obj::Package { name: path, import_idx } = self.objs[o].clone() {
                        self.import_used[import_idx] = true;
                        self.info.res.insert(x.id, Res::Package);
                        return self.pkg_member(e, &path, sel);
                    }
                }
            }
        }
        let xo = self.check_expr(x);
        match xo.mode {
            Mode::Invalid => return inv,
            Mode::Type => {
                self.unsup(e.line, "method expression");
                return inv;
            }
            Mode::Nil => {
                self.err("unknown-field", e.line, format!("nil.{} undefined", sel.name));
                return inv;
            }
            _ => {}
        }
        let xo = self.single_value(xo, x);
        if xo.is_invalid() {
            return inv;
        }
        if sel.name == "_" {
            self.err("unknown-field", e.line, "cannot refer to blank field or method");
            return inv;
        }
        let tt = &self.info.types;
        // automatic dereference of *T (unnamed pointer type)
        let (base, deref) = match tt.get(xo.ty) {
            Ty::Pointer(el) => (*el, true),
            Ty::Named(n) if matches!(tt.get(tt.named[*n as usize].underlying), Ty::Pointer(_)) => {
                self.unsup(e.line, "selector on a named pointer type");
                return inv;
            }
            _ => (xo.ty, false),
        };
        if deref && matches!(tt.under(base), Ty::Pointer(_) | Ty::Interface(_)) {
            let kind = if in_call { "unknown-method" } else { "unknown-field" };
            self.err(kind, e.line, format!("{}.{} undefined (type {} is pointer to pointer or interface)", expr_text(x), sel.name, self.tstr(xo.ty)));
            return inv;
        }
        // methods of the named base type
        if let Some(m) = tt.find_method(base, &sel.name) {
            let (sig, func) = (m.sig, m.func);
            match func {
                Some(fi) => {
                    self.info.sels.insert(e.id, SelKind::Method { func: fi, deref });
                    if !in_call {
                        self.run_unsup(e.line, "method value");
                    }
                    return Operand { mode: Mode::Value, ty: sig, val: None, id: e.id, line: e.line };
                }
                None => {
                    self.unsup(e.line, "method of an extern type");
                    return inv;
                }
            }
        }
        match tt.under(base).clone() {
            Ty::Struct(fs) => {
                if let Some((i, (_, ft))) = fs.iter().enumerate().find(|(_, (n, _))| *n == sel.name) {
                    self.info.sels.insert(e.id, SelKind::Field { index: i as u32, deref });
                    let mode = if deref || xo.mode == Mode::Var { Mode::Var } else { Mode::Value };
                    return Operand { mode, ty: *ft, val: None, id: e.id, line: e.line };
                }
            }
            Ty::Interface(ms) if !deref => {
                if let Some((_, sig)) = ms.iter().find(|(n, _)| *n == sel.name) {
                    self.info.sels.insert(e.id, SelKind::IfaceMethod { name: sel.name.clone() });
                    if !in_call {
                        self.run_unsup(e.line, "method value");
                    }
                    return Operand { mode: Mode::Value, ty: *sig, val: None, id: e.id, line: e.line };
                }
            }
            Ty::Opaque(_) => {
                self.unsup(e.line, "field or method of an extern type");
                return inv;
            }
            _ => {}
        }
        if let Some(n) = tt.named_id(base) {
            if tt.named[n as usize].pkg == "time" {
                self.unsup(e.line, "field or method of an extern type");
                return inv;
            }
        }
        let kind = if in_call { "unknown-method" } else { "unknown-field" };
        self.err(kind, e.line, format!("{}.{} undefined (type {} has no field or method {})", expr_text(x), sel.name, self.tstr(xo.ty), sel.name));
        inv
    }

    fn pkg_member(&mut self, e: &Expr, path: &str, sel: &Ident) -> Operand {
        let inv = Operand::invalid(e.id, e.line);
        let name = sel.name.as_str();
        let exported = name.chars().next().map_or(false, |c| c.is_ascii_uppercase());
        if !exported {
            self.err("undefined", e.line, format!("name {} not exported by package {}", name, path));
            return inv;
        }
        let pf = match (path, name) {
            ("fmt", "Print") => Some(PkgFn::FmtPrint),
            ("fmt", "Println") => Some(PkgFn::FmtPrintln),
            ("fmt", "Printf") => Some(PkgFn::FmtPrintf),
            ("fmt", "Sprint") => Some(PkgFn::FmtSprint),
            ("fmt", "Sprintln") => Some(PkgFn::FmtSprintln),
            ("fmt", "Sprintf") => Some(PkgFn::FmtSprintf),
            ("time", "Unix") => Some(PkgFn::TimeUnix),
            ("time", "Sleep") => Some(PkgFn::TimeSleep),
            ("time", "Now") => Some(PkgFn::TimeNow),
            ("time", "Since") => Some(PkgFn::TimeSince),
            _ => None,
        };
        if let Some(pf) = pf {
            self.info.sels.insert(e.id, SelKind::PkgFunc(pf));
            return Operand { mode: Mode::PkgFn(pf), ty: T_INVALID, val: None, id: e.id, line: e.line };
        }
        if path == "time" {
            let dur: Option<i64> = match name {
                "Nanosecond" => Some(1),
                "Microsecond" => Some(1_000),
                "Millisecond" => Some(1_000_000),
                "Second" => Some(1_000_000_000),
                "Minute" => Some(60_000_000_000),
                "Hour" => Some(3_600_000_000_000),
                _ => None,
            };
            if let Some(d) = dur {
                self.info.sels.insert(e.id, SelKind::PkgOther);
                return Operand { mode: Mode::Const, ty: self.t_duration, val: Some(ConstVal::Int(BigInt::from_i64(d))), id: e.id, line: e.line };
            }
            if name == "Time" || name == "Duration" {
                self.info.sels.insert(e.id, SelKind::PkgOther);
                let t = if name == "Time" { self.t_time } else { self.t_duration };
                return Operand { mode: Mode::Type, ty: t, val: None, id: e.id, line: e.line };
            }
        }
        if path == "fmt" && !FMT_NAMES.contains(&name) {
            // fmt's exported API is known; new releases could add names, so
            // this stays inconclusive rather than an error
            self.unsup(e.line, format!("unknown member fmt.{}", name));
            return inv;
        }
        self.unsup(e.line, format!("{}.{}", path, name));
        inv
    }

    // -------------------------------------------------------------- index

    pub(crate) fn check_index(&mut self, e: &Expr, x: &Expr, index: &Expr) -> Operand {
        let inv = Operand::invalid(e.id, e.line);
        let xo = self.check_expr(x);
        if xo.mode == Mode::Type {
            let _ = self.check_expr(index);
            self.unsup(e.line, "generic type instantiation");
            return inv;
        }
        let mut xo = self.single_value(xo, x);
        let mut io = self.check_value(index);
        if xo.is_invalid() {
            return inv;
        }
        if xo.mode == Mode::Nil {
            self.err("invalid-op", e.line, "invalid operation: cannot index nil");
            return inv;
        }
        if self.info.types.is_untyped(xo.ty) {
            // only an untyped string constant can be indexed
            if !self.info.types.is_string(xo.ty) {
                self.err("invalid-op", e.line, format!("invalid operation: cannot index {}", self.describe(&xo)));
                return inv;
            }
            self.default_operand(&mut xo, "index expression");
        }
        let under = self.info.types.under(xo.ty).clone();
        let (elem, mode, length): (TypeId, Mode, Option<u64>) = match under {
            Ty::Str => {
                let l = match (&xo.mode, &xo.val) {
                    (Mode::Const, Some(ConstVal::Str(s))) => Some(s.len() as u64),
                    _ => None,
                };
                (T_UINT8, Mode::Value, l)
            }
            Ty::Array(n, el) => (el, if xo.mode == Mode::Var { Mode::Var } else { Mode::Value }, Some(n)),
            Ty::Slice(el) => (el, Mode::Var, None),
            Ty::Pointer(p) if matches!(self.info.types.under(p), Ty::Array(..)) => {
                self.unsup(e.line, "indexing a pointer to array");
                return inv;
            }
            Ty::Func(..) => {
                self.unsup(e.line, "generic function instantiation");
                return inv;
            }
            _ => {
                self.err("invalid-op", e.line, format!("invalid operation: cannot index {}", self.describe(&xo)));
                return inv;
            }
        };
        if io.is_invalid() {
            return inv;
        }
        if !self.check_index_value(&mut io, "index") {
            return inv;
        }
        if let (Mode::Const, Some(ConstVal::Int(i)), Some(n)) = (&io.mode, &io.val, length) {
            if i.to_u64().map_or(true, |v| v >= n) {
                self.err("const-index-oob", e.line, format!("invalid argument: index {} out of bounds [0:{}]", i.to_decimal(), n));
                return inv;
            }
        }
        Operand { mode, ty: elem, val: None, id: e.id, line: e.line }
    }

    // ---------------------------------------------------------- assertion

    pub(crate) fn check_assert(&mut self, e: &Expr, x: &Expr, ty: &TypeExpr) -> Operand {
        let inv = Operand::invalid(e.id, e.line);
        let xo = self.check_value(x);
        let t = self.resolve_type(ty);
        if xo.is_invalid() || t == T_INVALID {
            return inv;
        }
        if xo.mode == Mode::Nil || !self.info.types.is_interface(xo.ty) {
            self.err("bad-assert", e.line, format!("invalid operation: {} is not an interface", self.describe(&xo)));
            return inv;
        }
        if !self.info.types.is_interface(t) {
            if let Some(m) = self.info.types.missing_method(t, xo.ty) {
                self.err(
                    "impossible-assert",
                    e.line,
                    format!("impossible type assertion: {} does not implement {} (missing method {})", self.tstr(t), self.tstr(xo.ty), m),
                );
                return inv;
            }
        }
        Operand { mode: Mode::Value, ty: t, val: None, id: e.id, line: e.line }
    }

    // ---------------------------------------------------------- composite

    pub(crate) fn check_composite(&mut self, e: &Expr, t: TypeId, elems: &[KeyedElem]) -> Operand {
        let inv = Operand::invalid(e.id, e.line);
        self.info.type_exprs.insert(e.id, t);
        let under = self.info.types.under(t).clone();
        match under {
            Ty::Struct(fs) => {
                if elems.is_empty() {
                    return Operand { mode: Mode::Value, ty: t, val: None, id: e.id, line: e.line };
                }
                let keyed = elems.iter().filter(|el| el.key.is_some()).count();
                if keyed != 0 && keyed != elems.len() {
                    self.err("mixed-literal", e.line, "mixture of field:value and value elements in struct literal");
                    for el in elems {
                        self.check_elem_loose(&el.value);
                    }
                    return inv;
                }
                if keyed > 0 {
                    let mut seen: HashSet<String> = HashSet::new();
                    for el in elems {
                        let key = el.key.as_ref().unwrap();
                        let fname = match &key.kind {
                            ExprKind::Ident(n) => n.clone(),
                            _ => {
                                self.err("unknown-field", key.line, "invalid field name in struct literal");
                                self.check_elem_loose(&el.value);
                                continue;
                            }
                        };
                        match fs.iter().enumerate().find(|(_, (n, _))| *n == fname && fname != "_") {
                            None => {
                                self.err("unknown-field", key.line, format!("unknown field {} in struct literal of type {}", fname, self.tstr(t)));
                                self.check_elem_loose(&el.value);
                            }
                            Some((i, (_, ft))) => {
                                if !seen.insert(fname.clone()) {
                                    self.err("dup-field", key.line, format!("duplicate field name {} in struct literal", fname));
                                }
                                self.info.sels.insert(key.id, SelKind::Field { index: i as u32, deref: false });
                                self.check_elem(&el.value, *ft, "struct literal");
                            }
                        }
                    }
                } else {
                    for (i, el) in elems.iter().enumerate() {
                        match fs.get(i) {
                            Some((_, ft)) => self.check_elem(&el.value, *ft, "struct literal"),
                            None => self.check_elem_loose(&el.value),
                        }
                    }
                    if elems.len() < fs.len() {
                        self.err("literal-arity", e.line, format!("too few values in struct literal of type {}", self.tstr(t)));
                        return inv;
                    }
                    if elems.len() > fs.len() {
                        self.err("literal-arity", e.line, format!("too many values in struct literal of type {}", self.tstr(t)));
                        return inv;
                    }
                }
                Operand { mode: Mode::Value, ty: t, val: None, id: e.id, line: e.line }
            }
            Ty::Array(n, el) => {
                if !self.check_seq_elems(elems, el, e.line) {
                    return inv;
                }
                if elems.len() as u64 > n {
                    self.err("literal-arity", e.line, format!("index {} out of bounds in array literal (len {})", n, n));
                    return inv;
                }
                if n > 1_000_000 {
                    self.run_unsup(e.line, "very large array value");
                }
                Operand { mode: Mode::Value, ty: t, val: None, id: e.id, line: e.line }
            }
            Ty::Slice(el) => {
                if !self.check_seq_elems(elems, el, e.line) {
                    return inv;
                }
                Operand { mode: Mode::Value, ty: t, val: None, id: e.id, line: e.line }
            }
            _ => {
                for el in elems {
                    self.check_elem_loose(&el.value);
                }
                self.err("bad-literal", e.line, format!("invalid composite literal type {}", self.tstr(t)));
                inv
            }
        }
    }

    fn check_seq_elems(&mut self, elems: &[KeyedElem], el: TypeId, line: u32) -> bool {
        let mut ok = true;
        for e in elems {
            if e.key.is_some() {
                self.unsup(line, "keyed element in array/slice literal");
                ok = false;
            }
            self.check_elem(&e.value, el, "array or slice literal");
        }
        ok
    }

    /// Element of a composite literal with expected type `t` (handles elided
    /// inner literal types).
    fn check_elem(&mut self, v: &Expr, t: TypeId, ctx: &str) {
        if let ExprKind::Composite { ty: None, elems } = &v.kind {
            // elided type: T must be a composite type (or pointer to one)
            let under = self.info.types.under(t).clone();
            match under {
                Ty::Struct(_) | Ty::Array(..) | Ty::Slice(_) => {
                    let mut o = self.check_composite(v, t, elems);
                    o.id = v.id;
                    if o.is_value() {
                        self.record(&o);
                    }
                }
                Ty::Pointer(_) => self.unsup(v.line, "elided &T in composite literal"),
                _ => {
                    if t != T_INVALID {
                        self.err("bad-literal", v.line, format!("invalid composite literal type {}", self.tstr(t)));
                    }
                }
            }
            return;
        }
        let mut o = self.check_value(v);
        if !o.is_invalid() && t != T_INVALID {
            self.assign_to(&mut o, t, ctx);
        }
    }

    fn check_elem_loose(&mut self, v: &Expr) {
        if let ExprKind::Composite { ty: None, .. } = &v.kind {
            return;
        }
        let _ = self.check_expr(v);
    }
}

/// Does the expression contain a function call (or other operation that
/// prevents len/cap of an array from being constant)?
fn has_call(e: &Expr) -> bool {
    match &e.kind {
        ExprKind::Call { .. } => true,
        ExprKind::Paren(x) | ExprKind::Star(x) | ExprKind::Unary { x, .. } | ExprKind::TypeSwitchGuard(x) => has_call(x),
        ExprKind::Selector { x, .. } | ExprKind::TypeAssert { x, .. } => has_call(x),
        ExprKind::Index { x, index } => has_call(x) || has_call(index),
        ExprKind::Binary { x, y, .. } => has_call(x) || has_call(y),
        ExprKind::Composite { elems, .. } => elems.iter().any(|el| has_call(&el.value)),
        _ => false,
    }
}

pub(crate) fn expr_text(e: &Expr) -> String {
    match &e.kind {
        ExprKind::Ident(n) => n.clone(),
        ExprKind::Selector { x, sel } => format!("{}.{}", expr_text(x), sel.name),
        ExprKind::Paren(x) => format!("({})", expr_text(x)),
        ExprKind::Call { fun, .. } => format!("{}(...)", expr_text(fun)),
        ExprKind::Index { x, .. } => format!("{}[...]", expr_text(x)),
        _ => "expression".to_string(),
    }
}
