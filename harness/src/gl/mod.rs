pub mod ast;
pub mod eval;
pub mod inject;
pub mod pgen;
pub mod rename;
