//! C03: acceptance is type-sound - every stage output is well-typed and closed; ill-typed programs are rejected.
use crate::capi;
use crate::gl::ast::{PrintOpts, print_program};
use crate::gl::inject;
use crate::gl::pgen::{Features, generate};
use crate::irmon::{self, IrStats};
use crate::runner::{self, Case, Ctx, PropSpec};
use crate::util::{self, Rng, hash_str};
use compiler::pipeline::pipeline::CompilationError;
use serde_json::json;

pub static SPEC: PropSpec = PropSpec {
    id: "C03",
    level: "exploration",
    rule: "(a) IR monitor: every accepted corpus, generic-library, closure-product (672 cells of C08), Self-position (16 programs: Self nested in a trait method's result type, called through bounds) and generated program has its Mono / Lift / ANF output walked after the compile: no type parameter, inference variable, generic type application or wildcard array length after monomorphisation, no duplicate function names, and in ANF every variable use is in scope of a binder of the same type, calls agree with the callee's type, conditions are bool, branches and bodies have the declared type. (b) injection: exactly one type error (wrong primitive at a call argument / struct field / annotated let / function result / if condition, over-long or short tuple, extra / missing argument, unknown field) is injected at every eligible site of generated base programs; the variant must be rejected by the typer (not accepted, not a later-stage error, not a crash). non-trivial = an accepted program with >= 20 ANF nodes checked, or an (program, injection site) pair; distinct by hash",
    eval_counter: "evaluations",
    assumptions: &[
        "the ANF typing rules are written from the language description (equal types up to structural equality of the compiler's own Ty), polymorphic array/ref/vec builtins are skipped at call sites",
        "injected errors are chosen so that ill-typedness is unambiguous (unrelated primitives, tuple arity, argument count, unknown field)",
    ],
    crash_is_violation: false,
    stack_mib: 256,
    case_cpu_s: 120,
    shards: 0,
    run,
    floors: &[("ir_programs_checked", 150, 10_000), ("anf_nodes_checked", 20_000, 2_000_000), ("injections_rejected_by_typer", 300, 20_000), ("self_position_programs_checked", 16, 16), ("closure_product_programs_checked", 25, 25)],
    finish: None,
};

pub fn ir_monitor(case: &mut Case, label: &str, src: &str) -> bool {
    runner::note_input(src);
    let r = runner::guard(|| capi::compile_single(src));
    let c = match r {
        Ok(Ok(c)) => c,
        Ok(Err(_)) => {
            case.count("base_rejected", 1);
            return false;
        }
        Err(p) => {
            case.inconclusive(format!("compiler panic at {} (a C04 event)", p.site));
            return false;
        }
    };
    let mut stats = IrStats::default();
    let mut findings = irmon::residue_and_names(&c, &mut stats);
    findings.extend(irmon::anf_typing(&c, &mut stats));
    case.count("ir_programs_checked", 1);
    case.count("evaluations", 1);
    case.count("anf_nodes_checked", stats.nodes);
    case.count("anf_var_uses_checked", stats.var_uses);
    case.count("anf_calls_checked", stats.calls);
    case.count("mono_fns_checked", stats.fns);
    if stats.nodes >= 20 {
        case.nontrivial(hash_str(src));
    }
    let mut seen = std::collections::HashSet::new();
    for f in findings {
        if seen.insert(f.sig.clone()) {
            case.violation(f.sig.clone(), f.summary.clone(), json!({"label": label, "source": src, "finding": f.summary}));
        }
    }
    true
}

fn check_injection(case: &mut Case, label: &str, src: &str, inj: &inject::Injection) {
    runner::note_input(src);
    case.count("evaluations", 1);
    case.count("injections", 1);
    case.count(&format!("injections:{}", inj.kind), 1);
    case.nontrivial(hash_str(src));
    match runner::guard(|| capi::compile_single(src).map(|_| ())) {
        Ok(Err(CompilationError::Typer { .. })) => case.count("injections_rejected_by_typer", 1),
        Ok(Err(e)) => {
            case.violation(
                format!("ill-typed-rejected-late:{}:{}", inj.kind, capi::err_stage(&e)),
                format!("an ill-typed program ({}) is rejected only by the {} stage: {}", inj.description, capi::err_stage(&e), util::truncate(&capi::err_messages(&e).join("; "), 160)),
                json!({"label": label, "source": src, "injection": inj.description}),
            );
        }
        Ok(Ok(())) => {
            case.violation(
                format!("ill-typed-accepted:{}", inj.kind),
                format!("an ill-typed program is accepted: {}", inj.description),
                json!({"label": label, "source": src, "injection": inj.description}),
            );
        }
        Err(p) => {
            case.violation(
                format!("ill-typed-crashes:{}:{}", inj.kind, runner::panic_signature(&p)),
                format!("an ill-typed program ({}) makes the compiler panic at {} instead of being rejected", inj.description, p.site),
                json!({"label": label, "source": src, "injection": inj.description}),
            );
        }
    }
}

/// `Self` in every type-constructor position of a trait method's result, the method called through a `T: Sp` bound
/// in dot and path form, the result used without and with a constraint on the element type: (name, source, stdout)
pub fn self_position_programs() -> Vec<(String, String, String)> {
    // (name, type with Self, body building it from `self`, int32 observation of r, T-valued observation of r)
    let positions: [(&str, &str, &str, &str, &str); 8] = [
        ("vec", "Vec[Self]", "vec_push(vec_new(), self)", "vec_len(r)", "vec_get(r, 0)"),
        ("ref", "Ref[Self]", "ref(self)", "1", "ref_get(r)"),
        ("tuple", "(Self, int32)", "(self, 7)", "r.1", "r.0"),
        ("tuple-right", "(bool, Self)", "(true, self)", "1", "r.1"),
        ("array", "[Self; 2]", "[self, self]", "2", "array_get(r, 1)"),
        ("generic-enum", "Opt[Self]", "Opt::Som(self)", "(match r { Opt::Som(_) => 1, Opt::Non => 0 })", "(match r { Opt::Som(v) => v, Opt::Non => x })"),
        ("function-result", "(int32) -> Self", "|k: int32| self", "1", "r(3)"),
        ("vec-of-tuple", "Vec[(Self, bool)]", "vec_push(vec_new(), (self, true))", "vec_len(r)", "(match vec_get(r, 0) { (v, _) => v })"),
    ];
    let mut out = Vec::new();
    for (name, ty, body, obs_i, obs_t) in positions {
        let at = |t: &str| ty.replace("Self", t);
        let head = format!(
            "enum Opt[T] {{ Som(T), Non }}\nstruct Seg {{ a: int32 }}\ntrait Sp {{\n    fn mk(Self) -> {ty};\n}}\nimpl Sp for Seg {{\n    fn mk(self: Seg) -> {ts} {{ {body} }}\n}}\nimpl Sp for int32 {{\n    fn mk(self: int32) -> {ti} {{ {body} }}\n}}\n",
            ty = ty,
            ts = at("Seg"),
            ti = at("int32"),
            body = body
        );
        let n: i64 = match obs_i {
            "vec_len(r)" => 1,
            "r.1" => 7,
            "2" => 2,
            _ => 1,
        };
        // the result is only counted: nothing else fixes its element type
        out.push((
            format!("{}/counted", name),
            format!(
                "{}fn count_dot[T: Sp](x: T) -> int32 {{\n    let r = x.mk();\n    {oi}\n}}\nfn count_path[T: Sp](x: T) -> int32 {{\n    let r = Sp::mk(x);\n    {oi}\n}}\nfn main() -> unit {{\n    let _ = string_println(int32_to_string(count_dot(Seg {{ a: 5 }}) * 1000 + count_path(Seg {{ a: 1 }}) * 100 + count_dot(3) * 10 + count_path(4)));\n    ()\n}}\n",
                head,
                oi = obs_i
            ),
            format!("{}\n", n * 1111),
        ));
        // an element is taken out and returned at type T
        out.push((
            format!("{}/element", name),
            format!(
                "{}fn first_dot[T: Sp](x: T) -> T {{\n    let r = x.mk();\n    {ot}\n}}\nfn first_path[T: Sp](x: T) -> T {{\n    let r = Sp::mk(x);\n    {ot}\n}}\nfn main() -> unit {{\n    let _ = string_println(int32_to_string(first_dot(Seg {{ a: 6 }}).a * 1000 + first_path(Seg {{ a: 2 }}).a * 100 + first_dot(10) + first_path(20)));\n    ()\n}}\n",
                head,
                ot = obs_t
            ),
            format!("{}\n", 6 * 1000 + 2 * 100 + 10 + 20),
        ));
    }
    out
}

fn run(ctx: &mut Ctx) {
    let tier = ctx.tier;
    let seed = ctx.seed;
    if let Some(rep) = ctx.replay_input.clone() {
        let src = rep["record"]["detail"]["source"].as_str().unwrap_or("").to_string();
        ctx.case("replay", |c| {
            ir_monitor(c, "replay", &src);
        });
        return;
    }
    // corpus
    for (i, d) in crate::goldens::pipeline_dirs().into_iter().enumerate() {
        if !ctx.mine(i as u64) {
            continue;
        }
        let name = d.file_name().unwrap().to_string_lossy().to_string();
        let src = std::fs::read_to_string(d.join("main.gom")).unwrap_or_default();
        ctx.case(&format!("corpus/{}", name), |c| {
            ir_monitor(c, &format!("corpus/{}", name), &src);
            c.sample(json!({"workload":"corpus_ir","program":name}));
        });
    }
    // the generic library of C07 (valid by construction; instantiations at nested generic types): IR monitors,
    // and a compiler crash on one of these programs is a violation here (a stage output was not produced)
    let nlib = tier.pickn(48u64, 1_600u64) / ctx.nshards as u64 + 1;
    for i in 0..nlib {
        let mut rng = Rng::keyed(seed, "c03-lib", ctx.shard as u64, i);
        let (prog, _) = crate::props::c07::build(&mut rng, 12);
        let src = print_program(&prog, PrintOpts::default());
        let label = format!("generic-library/{}/{}", ctx.shard, i);
        ctx.case(&label.clone(), |c| {
            runner::note_input(&src);
            if let Err(p) = runner::guard(|| capi::compile_single(&src).map(|_| ())) {
                c.violation(
                    format!("C03:compiler-crash-on-valid-program:{}", crate::diff::msg_class(&p.site)),
                    format!("a well-typed generic program makes a later stage crash at {}: {}", p.site, util::truncate(&p.message, 160)),
                    json!({"label": label, "source": src}),
                );
                return;
            }
            let _ = ir_monitor(c, &label, &src);
            c.count("generic_library_programs", 1);
        });
    }
    // `Self` nested in type constructors of trait method results, called through bounds (IR monitors)
    for (i, (name, src, _)) in self_position_programs().into_iter().enumerate() {
        if !ctx.mine(70_000 + i as u64) {
            continue;
        }
        let label = format!("self-position/{}", name);
        ctx.case(&label.clone(), |c| {
            if ir_monitor(c, &label, &src) {
                c.count("self_position_programs_checked", 1);
            } else {
                c.count("self_position_programs_rejected", 1);
            }
        });
    }
    // a generic inherent block and an instance-specific block that define one method name with DIFFERENT signatures,
    // in both declaration orders: the dot call on the specialised receiver has the specialised signature (well-typed
    // uses accepted with consistent IR, uses at the other block's result type rejected)
    for (i, generic_first) in [true, false].into_iter().enumerate() {
        if !ctx.mine(72_000 + i as u64) {
            continue;
        }
        let g = "impl[T] Bx[T] {\n    fn describe(self: Bx[T]) -> int32 { 1 }\n    fn arity(self: Bx[T], k: int32) -> int32 { k }\n}\n";
        let k = "impl Bx[string] {\n    fn describe(self: Bx[string]) -> string { self.it }\n    fn arity(self: Bx[string]) -> int32 { 0 }\n}\n";
        let head = format!("struct Bx[T] {{ it: T }}\n{}{}", if generic_first { g } else { k }, if generic_first { k } else { g });
        let good = format!("{}fn main() -> unit {{\n    let b: Bx[string] = Bx {{ it: \"s\" }};\n    let s: string = b.describe();\n    let c: Bx[int32] = Bx {{ it: 1 }};\n    let n: int32 = c.describe();\n    let m: int32 = c.arity(4) + b.arity();\n    let _ = string_println(s + int32_to_string(n + m));\n    ()\n}}\n", head);
        let bads: [(&str, String); 3] = [
            ("specialised receiver used at the generic block's result type", format!("{}fn main() -> unit {{\n    let b: Bx[string] = Bx {{ it: \"s\" }};\n    let n: int32 = b.describe();\n    ()\n}}\n", head)),
            ("other instance used at the specialised block's result type", format!("{}fn main() -> unit {{\n    let c: Bx[int32] = Bx {{ it: 1 }};\n    let s: string = c.describe();\n    ()\n}}\n", head)),
            ("specialised receiver called with the generic block's argument list", format!("{}fn main() -> unit {{\n    let b: Bx[string] = Bx {{ it: \"s\" }};\n    let n: int32 = b.arity(4);\n    ()\n}}\n", head)),
        ];
        let order = if generic_first { "generic-then-specialised" } else { "specialised-then-generic" };
        let label = format!("inherent-overlap-signatures/{}", order);
        ctx.case(&label.clone(), |c| {
            if ir_monitor(c, &label, &good) {
                c.count("overlap_signature_programs_checked", 1);
            } else {
                c.violation(format!("well-typed-rejected:inherent-overlap:{}", order), "a well-typed use of a generic and a specialised inherent block is rejected".to_string(), json!({"label": label, "source": good}));
            }
            for (what, bad) in bads.iter() {
                let inj = inject::Injection { kind: "inherent-overlap", description: format!("{} ({})", what, order) };
                check_injection(c, &label, bad, &inj);
            }
        });
    }
    // array literals against an annotated array type of another length, for element types that are checked item by
    // item (numbers, strings, tuples, a generic instance, `dyn` - where every item is coerced): the literal's own length
    // must reach the comparison (added after a seeded change that returned dyn-element literals at the expected type)
    if ctx.mine(70_500) {
        let head = "trait Show {\n    fn show(Self) -> string;\n}\nimpl Show for int32 {\n    fn show(self: int32) -> string { \"i\" }\n}\nimpl Show for bool {\n    fn show(self: bool) -> string { \"b\" }\n}\nenum Opt[T] { Som(T), Non }\n";
        // (element type, three items)
        let elems: [(&str, [&str; 3]); 6] = [
            ("int32", ["1", "2", "3"]),
            ("uint8", ["1u8", "2u8", "3u8"]),
            ("string", ["\"a\"", "\"b\"", "\"c\""]),
            ("(int32, bool)", ["(1, true)", "(2, false)", "(3, true)"]),
            ("Opt[int32]", ["Opt::Som(1)", "Opt::Non", "Opt::Som(3)"]),
            // items that are `dyn Show` already (goml does not coerce the items of a literal one by one)
            ("dyn Show", ["d1", "d2", "d3"]),
        ];
        ctx.case("array-literal-lengths", |c| {
            for (ety, items) in elems.iter() {
                // well-typed control: declared length == item count
                let pre = "    let d1: dyn Show = 1;\n    let d2: dyn Show = true;\n    let d3: dyn Show = 2;\n";
                let good = format!("{}fn main() -> unit {{\n{}    let a: [{}; 3] = [{}, {}, {}];\n    ()\n}}\n", head, pre, ety, items[0], items[1], items[2]);
                if ir_monitor(c, "array-literal-lengths", &good) {
                    c.count("array_length_controls_accepted", 1);
                } else {
                    c.violation(format!("well-typed-rejected:array-literal:{}", ety), format!("`let a: [{}; 3] = [..three items..]` is rejected", ety), json!({"source": good}));
                }
                for (declared, given) in [(3usize, 2usize), (1, 2), (2, 3), (4, 3)] {
                    let lit = items[..given].join(", ");
                    for (pos, body) in [
                        ("annotated-let", format!("    let a: [{}; {}] = [{}];\n", ety, declared, lit)),
                        ("call-argument", format!("    let _ = take([{}]);\n", lit)),
                    ] {
                        let take = format!("fn take(a: [{}; {}]) -> int32 {{ 0 }}\n", ety, declared);
                        let bad = format!("{}{}fn main() -> unit {{\n{}{}    ()\n}}\n", head, take, pre, body);
                        let inj = inject::Injection { kind: "array-literal-length", description: format!("[{}; {}] given {} items ({})", ety, declared, given, pos) };
                        check_injection(c, "array-literal-lengths", &bad, &inj);
                    }
                }
            }
        });
    }
    // the closure product of C08 (body shape x capture kind x flow) under the IR monitors: an unbound captured
    // variable or a closure typed at its unlifted function type shows in ANF
    {
        let cells: Vec<(usize, usize, usize)> = (0..crate::props::c08::N_SHAPES).flat_map(|s| (0..crate::props::c08::N_CAPS).flat_map(move |c| (0..crate::props::c08::N_FLOWS).map(move |f| (s, c, f)))).collect();
        for (i, chunk) in cells.chunks(24).enumerate() {
            if !ctx.mine(71_000 + i as u64) {
                continue;
            }
            let prog = crate::props::c08::program(chunk);
            let src = print_program(&prog, PrintOpts::default());
            let label = format!("closure-product/{}", i);
            ctx.case(&label.clone(), |c| {
                if ir_monitor(c, &label, &src) {
                    c.count("closure_product_programs_checked", 1);
                }
            });
        }
    }
    // generated: IR monitor + injections
    let n = tier.pickn(160u64, 12_000u64) / ctx.nshards as u64 + 1;
    let max_sites = tier.pick(6usize, 40usize);
    for i in 0..n {
        let mut rng = Rng::keyed(seed, "c03-gen", ctx.shard as u64, i);
        let mut f = Features::base();
        f.n_fns = 2 + rng.below(4);
        f.ticks = false;
        f.max_depth = 3;
        let (prog, _tags) = generate(&mut rng, f);
        let src = print_program(&prog, PrintOpts::default());
        let label = format!("gen/{}/{}", ctx.shard, i);
        let mut ok = false;
        ctx.case(&label.clone(), |c| {
            ok = ir_monitor(c, &label, &src);
        });
        if !ok {
            continue;
        }
        let sites = inject::count_sites(&prog);
        let mut picks: Vec<usize> = (0..sites).collect();
        rng.shuffle(&mut picks);
        picks.truncate(max_sites);
        for k in picks {
            if let Some((bad, inj)) = inject::inject_at(&prog, k, &mut rng) {
                let bsrc = print_program(&bad, PrintOpts::default());
                let l2 = format!("{}/site{}", label, k);
                ctx.case(&l2.clone(), |c| {
                    check_injection(c, &l2, &bsrc, &inj);
                    if i < 1 {
                        c.sample(json!({"workload":"injection","injection":inj.description}));
                    }
                });
            }
        }
    }
    capi::cleanup_scratch();
}
